#!/bin/bash
# fixcommit.sh <msgfile> <src paths...> : move the library change made in /tmp/wt-fix to /repo as one fix: commit, then reset /tmp/wt-fix to the new HEAD (keeping its untracked tests)
MSG=$1; shift
cd /tmp/wt-fix || exit 2
git diff -- "$@" > /var/tmp/vt/fixcommit.diff
[ -s /var/tmp/vt/fixcommit.diff ] || { echo "empty diff"; exit 2; }
git -C /repo apply /var/tmp/vt/fixcommit.diff || exit 2
git -C /repo add -A && git -C /repo commit -q -F "$MSG" || exit 2
git checkout -q -- "$@"
git checkout -q --detach "$(git -C /repo rev-parse HEAD)"
git -C /repo rev-parse --short HEAD
