#!/usr/bin/env python3
"""Dry-run every patch of the must-fire suite (selftest/patches, seeded/*/patch.diff) and of the benign suite against a scratch copy of /repo.
Run after every change of /repo: a patch that no longer applies turns the thorough tier into a CHECK-ERROR."""
import glob, json, os, shutil, subprocess, sys, tempfile
V = os.path.dirname(os.path.dirname(os.path.abspath(__file__)))
d = tempfile.mkdtemp(prefix='patches.', dir=os.environ.get('MZK_SCRATCH', '/var/tmp/vt'))
bad = 0
try:
    subprocess.run(['rsync', '-a', '--exclude', 'target', '--exclude', '.git', '/repo/', d + '/'], check=True)
    ps = sorted(glob.glob(f'{V}/selftest/patches/*.diff')) + sorted(glob.glob(f'{V}/seeded/*/patch.diff')) + sorted(glob.glob(f'{V}/selftest/benign/*.diff'))
    used = {c['patch'] for c in json.load(open(f'{V}/selftest/cases.json'))['cases']} | {c['patch'] for c in json.load(open(f'{V}/selftest/benign/cases.json'))['cases']}
    for p in ps:
        r = subprocess.run(['patch', '-p1', '--dry-run', '-s', '-d', d, '-i', p], capture_output=True, text=True)
        if r.returncode:
            bad += 1
            print('DOES NOT APPLY', os.path.relpath(p, V), (r.stdout + r.stderr).strip().splitlines()[:2])
        if '/selftest/' in p and os.path.basename(p) not in used:
            print('unused patch file', os.path.relpath(p, V))
    print(len(ps), 'patches,', bad, 'do not apply')
finally:
    shutil.rmtree(d, ignore_errors=True)
sys.exit(1 if bad else 0)
