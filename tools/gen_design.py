#!/usr/bin/env python3
"""Regenerates the machine-derived sections of DESIGN.md (between the GENERATED markers) from evidence/*.json, known_findings.json,
seeded/*/meta.json and selftest/cases.json.  Hand-written text is never touched."""
import glob, json, os, re, textwrap
V = os.path.dirname(os.path.dirname(os.path.abspath(__file__)))


def rules_section():
    out = []
    for p in sorted(glob.glob(f'{V}/evidence/C??.json')):
        e = json.load(open(p))
        cov = e['coverage']
        out.append(f"#### {e['property_id']} — {cov['evaluations']} rule instances on the current tree\n")
        out.append(textwrap.fill(cov.get('explanation', ''), 150) + '\n')
        for rid, desc in cov['rules'].items():
            br = cov['by_rule'].get(rid, {})
            out.append(f"* **{rid}** ({br.get('instances', 0)} instances): " + desc.replace('\n', ' '))
        out.append('')
    return '\n'.join(out)


def findings_section():
    k = json.load(open(f'{V}/known_findings.json'))['findings']
    out = ['| property | rule | status | commit | what |', '|---|---|---|---|---|']
    for f in k:
        what = f.get('what', '').replace('|', '/').replace('\n', ' ')
        out.append(f"| {f['property']} | {f['rule']} | {f['status']} | {f.get('commit', '')} | {what[:420]} |")
    return '\n'.join(out)


def seeds_section():
    out = ['| seed | property | change (one line) | reported by | demo |', '|---|---|---|---|---|']
    for d in sorted(glob.glob(f'{V}/seeded/*/meta.json')):
        m = json.load(open(d))
        name = os.path.basename(os.path.dirname(d))
        out.append(f"| {name} | {m['property']} | {m['summary'][:230].replace('|', '/')} | {m['reported_by']} | `{m['demo_command'].replace('cargo test --offline ', '')}` |")
    return '\n'.join(out)


def selftests_section():
    c = json.load(open(f'{V}/selftest/cases.json'))['cases']
    by = {}
    for x in c:
        by.setdefault(x['property'], []).append(x['patch'].replace('.diff', ''))
    return '\n'.join(f"* {p}: " + ', '.join(v) for p, v in sorted(by.items()))


def main():
    p = f'{V}/DESIGN.md'
    s = open(p).read()
    for tag, fn in (('RULES', rules_section), ('FINDINGS', findings_section), ('SEEDS', seeds_section), ('SELFTESTS', selftests_section)):
        a, b = f'<!-- GENERATED:{tag} -->', f'<!-- /GENERATED:{tag} -->'
        if a in s and b in s:
            s = s[:s.index(a) + len(a)] + '\n' + fn() + '\n' + s[s.index(b):]
    open(p, 'w').write(s)


if __name__ == '__main__':
    main()
