import sys, importlib, time
sys.path.insert(0,'/verif')
from analysis.framework import Check
from analysis import facts
from analysis.core import AnchorMissing
cfg=sys.argv[1]
for prop in sys.argv[2:]:
    mod=importlib.import_module(f'analysis.props.{prop.lower()}')
    ck=Check(prop,'thorough',0,config=cfg)
    t=time.time()
    try:
        mod.run(ck)
        from analysis.main import scoped_rules
        scoped_rules(ck, prop)
    except (AnchorMissing, facts.CheckError, Exception) as e:
        print(prop, cfg, 'EXC', type(e).__name__, str(e)[:300]); continue
    bad=[i for i in ck.instances if not i['ok'] and not i.get('known')]
    print(prop, cfg, len(ck.instances), 'bad', len(bad), round(time.time()-t,1))
    for i in bad[:6]: print('    ', i['rule'], i['key'][:120], '|', i['what'][:160])
