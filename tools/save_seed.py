#!/usr/bin/env python3
"""save_seed.py <Cxx> <caught-by or MISSED> <demo cargo args> -- <one-line summary>
Copies a confirmed seeded change from its scratch worktree /tmp/seed-<Cxx> to /verif/seeded/<Cxx>/:
  patch.diff        the library change (applies to /repo with `git -C /repo apply`)
  demo.diff         everything the demonstration needs on top (new test files, `mod` lines), as a git patch
  notes.md          the author's description
  meta.json         property, summary, demo command, confirmation results, which rule reports it
"""
import json, os, re, shutil, subprocess, sys

P, caught, demo = sys.argv[1], sys.argv[2], sys.argv[3]
summary = ' '.join(sys.argv[5:]) if len(sys.argv) > 5 else ''
W = os.environ.get("SEED_WT") or f"/tmp/seed-{P}"
D = os.environ.get("SEED_DEST") or f"/verif/seeded/{P}"
os.makedirs(D, exist_ok=True)


def git(*a, **k):
    return subprocess.run(['git', '-C', W] + list(a), capture_output=True, text=True, **k)


shutil.copy(f'{W}/_seed/patch.diff', f'{D}/patch.diff')
if os.path.exists(f'{W}/_seed/notes.md'):
    shutil.copy(f'{W}/_seed/notes.md', f'{D}/notes.md')
# demo.diff = (tracked changes + untracked files) minus patch.diff
r = git('apply', '-R', '_seed/patch.diff')
assert r.returncode == 0, r.stderr
try:
    others = [l for l in git('ls-files', '--others', '--exclude-standard').stdout.splitlines() if not l.startswith(('_seed/', 'target/'))]
    git('add', '-N', *others)
    demo_diff = git('diff').stdout
    git('reset', '-q', '--', *others)
finally:
    r = git('apply', '_seed/patch.diff')
    assert r.returncode == 0, r.stderr
open(f'{D}/demo.diff', 'w').write(demo_diff)
res = {}
log = os.environ.get('SEED_LOG') or f'/var/tmp/vt/confirm-{P}.log'
if os.path.exists(log):
    m = re.search(r'RESULT \S+ demo_with_change_exit=(\d+) demo_without_exit=(\d+) suite_with_change_exit=(\d+)', open(log).read())
    if m:
        res = dict(demo_with_change_exit=int(m.group(1)), demo_without_change_exit=int(m.group(2)), existing_suite_with_change_exit=int(m.group(3)))
files = re.findall(r'^\+\+\+ b/(\S+)', open(f'{D}/patch.diff').read(), re.M)
meta = dict(property=P, summary=summary, changed_files=files, demo_files=others,
            demo_command=f'cargo test --offline {demo}', confirmed=res,
            confirmed_by='main session: demo fails with the change, passes without it, the existing tests of the touched crate pass with it',
            author='fresh sub-agent given only the property text and a scratch worktree',
            reported_by=caught)
json.dump(meta, open(f'{D}/meta.json', 'w'), indent=1)
print('saved', D, os.listdir(D), res)
