#!/usr/bin/env python3
"""try_seed.py <patch.diff> <prop> [<prop> ...]: run checks against a scratch copy of /repo with the patch applied (never touches /repo)."""
import os, shutil, subprocess, sys, tempfile
patch, props = sys.argv[1], sys.argv[2:]
d = tempfile.mkdtemp(prefix='seedtry.', dir='/var/tmp/vt')
try:
    subprocess.run(['rsync', '-a', '--exclude', 'target', '--exclude', '.git', '--exclude', '_seed', '/repo/', d + '/'], check=True)
    p = subprocess.run(['patch', '-p1', '-s', '-d', d, '-i', patch], capture_output=True, text=True)
    if p.returncode:
        print('PATCH FAILED', p.stdout, p.stderr); sys.exit(2)
    for prop in props:
        env = dict(os.environ, MZK_REPO=d, MZK_EVIDENCE_SUFFIX='.seedtry')
        r = subprocess.run(['/verif/check', prop], capture_output=True, text=True, env=env, cwd='/verif')
        lines = [l for l in (r.stdout + r.stderr).splitlines() if not l.startswith('VIOLATION')]
        print(f'== {prop}: exit {r.returncode}')
        for l in lines[-8:]:
            print('   ', l[:420])
finally:
    shutil.rmtree(d, ignore_errors=True)
