#!/usr/bin/env python3
"""mkpatch.py <name> <repo-relative file> <<< JSON [[old, new], ...]   -> selftest/patches/<name>.diff (does not modify /repo)"""
import sys, json, os, subprocess, tempfile, difflib
name, rel = sys.argv[1], sys.argv[2]
edits = json.load(sys.stdin)
src = open(os.path.join('/repo', rel)).read()
new = src
for old, rep in edits:
    assert new.count(old) >= 1, f'pattern not found in {rel}: {old[:60]!r}'
    new = new.replace(old, rep, 1)
diff = ''.join(difflib.unified_diff(src.splitlines(True), new.splitlines(True), 'a/' + rel, 'b/' + rel))
out = os.path.join('/verif/selftest/patches', name + '.diff')
mode = 'a' if os.environ.get('APPEND') else 'w'
open(out, mode).write(diff)
print(out, len(diff.splitlines()), 'lines')
