#!/bin/bash
# confirm_seed.sh <Cxx> "<demo cargo test args>" "<existing-suite cargo test args>"
# Runs inside the seed worktree /tmp/seed-<Cxx> with its own target dir: demo with change (must fail), without (must pass), existing suite with change (must pass).
P=$1; DEMO=$2; SUITE=$3
W=${SEED_WT:-/tmp/seed-$P}; export CARGO_TARGET_DIR=$W/target CARGO_NET_OFFLINE=true
cd $W || exit 2
LOG=/var/tmp/vt/confirm-${SEED_TAG:-$P}.log; : > $LOG
echo "== demo WITH change" >> $LOG
cargo test --offline -j 6 $DEMO >> $LOG 2>&1; A=$?
git apply -R _seed/patch.diff || { echo "cannot revert" >> $LOG; exit 2; }
echo "== demo WITHOUT change" >> $LOG
cargo test --offline -j 6 $DEMO >> $LOG 2>&1; B=$?
git apply _seed/patch.diff
echo "== existing suite WITH change" >> $LOG
cargo test --offline -j 6 $SUITE >> $LOG 2>&1; C=$?
echo "RESULT $P demo_with_change_exit=$A demo_without_exit=$B suite_with_change_exit=$C" | tee -a $LOG
