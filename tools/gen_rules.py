#!/usr/bin/env python3
"""Development-time generator of the frozen rule tables rules/d4_sites.json and rules/mustcall.json from the CURRENT tree.
The output is committed and reviewed; checks only READ these files (they never regenerate them at run time)."""
import json, os, sys
sys.path.insert(0, os.path.dirname(os.path.dirname(os.path.abspath(__file__))))
from analysis.core import *
from analysis.engines import dlint, hirq, mustcall as mc
from analysis.props import dprops

# the function index of the reference tree comes first: functions that are not in it are treated as NEW helpers and expanded at their call sites
import analysis.core as _core
_ids = set()
_cfgs = {}
_core.RENAMES.clear()
for _cfg in ('default', 'truncated', 'devcurves'):
    _dir, _h = facts.ensure(_cfg)
    _t = {}
    for _c in facts.CRATES:
        if not os.path.exists(os.path.join(_dir, f'midnight_{_c}.hir.json')):
            continue
        for _f in facts.load(_dir, _c, 'hir')['fns']:
            _n = _core._norm_raw(_f['id'])
            _ids.add(_n)
            _t.setdefault(_n, []).append(_core.fn_fingerprint(_f))
    _cfgs[_cfg] = {k: sorted(v) for k, v in sorted(_t.items())}
json.dump({'all': sorted(_ids), 'configs': _cfgs}, open(os.path.join(facts.VERIF, 'rules', 'fn_index.json'), 'w'))
_core._REF_FNS = None
print('reference functions', len(_ids))

w = World()
out_d4 = dprops.enumerate_d4(w)
json.dump({k: sorted(v) for k, v in sorted(out_d4.items())}, open(os.path.join(facts.VERIF, 'rules', 'd4_sites.json'), 'w'), indent=1)
mcs = dprops.mine_mustcalls(w)
json.dump(mcs, open(os.path.join(facts.VERIF, 'rules', 'mustcall.json'), 'w'), indent=1)
lp = dprops.mine_looped(w)
json.dump(lp, open(os.path.join(facts.VERIF, 'rules', 'looped.json'), 'w'), indent=1)
bf = dprops.mine_boundflow(w)
json.dump(bf, open(os.path.join(facts.VERIF, 'rules', 'boundflow.json'), 'w'), indent=1)
from analysis.props import c11, c10
json.dump([], open(os.path.join(facts.VERIF, 'rules', 'nesting.json'), 'w'))      # superseded by ops.json (curves scopes C10 / C11)
print('operation / restriction profiles (functions)', c10.write_ops_tables({'default': w, 'truncated': World('truncated'), 'devcurves': World('devcurves')}))
uc = c11.unchecked_callers(w)
for k, v in c11.unchecked_callers(World('devcurves')).items():
    uc.setdefault(k, set()).update(v)
json.dump({k: sorted(v) for k, v in sorted(uc.items())}, open(os.path.join(facts.VERIF, 'rules', 'unchecked_callers.json'), 'w'), indent=1)
print('unchecked decoders', len(uc))
sel = dprops.mine_selectors(w)
json.dump(sel, open(os.path.join(facts.VERIF, 'rules', 'selectors.json'), 'w'), indent=1)
print('selector places', len(sel))
rc = dprops.mine_retcover(w)
json.dump(rc, open(os.path.join(facts.VERIF, 'rules', 'retcover.json'), 'w'), indent=1)
print('shortcut returns', len(rc))
su = dprops.mine_symupdates(w)
json.dump(su, open(os.path.join(facts.VERIF, 'rules', 'symupdate.json'), 'w'), indent=1)
print('symmetric-update places', len(su))
af = dprops.mine_argflow(w)
json.dump(af, open(os.path.join(facts.VERIF, 'rules', 'argflow.json'), 'w'), indent=1)
print('looped pairs', len(lp), 'bound-flow triples', len(bf), 'arg-flow triples', len(af))
print('d4 classes', len(out_d4), 'sites', sum(len(v) for v in out_d4.values()), '; must-call pairs', len(mcs))

gt = dprops.mine_gates(w)
json.dump(gt, open(os.path.join(facts.VERIF, 'rules', 'gates.json'), 'w'), indent=1)
print('gates', len(gt))

aff = dprops.mine_argflow_fields(w)
json.dump(aff, open(os.path.join(facts.VERIF, 'rules', 'argflow_fields.json'), 'w'), indent=1)
print('field-level arg-flow triples', len(aff))
