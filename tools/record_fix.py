#!/usr/bin/env python3
"""record_fix.py <property> <rule> <key> <commit> <repro or -> <what...>  : append a `fixed` row to known_findings.json"""
import json, sys
P, rule, key, commit, repro = sys.argv[1:6]
what = ' '.join(sys.argv[6:])
k = json.load(open('/verif/known_findings.json'))
row = dict(property=P, rule=rule, key=key, status='fixed', commit=commit, what=f'fixed: property={P} {commit} {what}')
if repro != '-':
    row['repro'] = repro
k['findings'].append(row)
json.dump(k, open('/verif/known_findings.json', 'w'), indent=1)
print('recorded', P, rule, commit)
