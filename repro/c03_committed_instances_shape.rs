// C03 hunt, defect 2: `midnight_proofs::plonk::parse_trace` / `prepare` never compare the number
// of per-proof committed-instance vectors with the number of per-proof instance vectors. The two
// outer slices are only ever `zip`ped, so the longer one is silently truncated:
//   * extra committed-instance vectors are ignored (demonstrated below: a proof made for ONE
//     circuit with committed instance `com` is accepted for the statement
//     "committed instances [[com], [other]]"),
//   * with FEWER committed-instance vectors than instance vectors, the proofs beyond the shorter
//     slice are neither absorbed in the transcript (parse_trace) nor opened
//     (`queries` in verify_algebraic_constraints zips with `committed_instances`), while their
//     claimed evaluations still enter the vanishing identity.
// The prover side does check the analogous shape (`circuits.len() != instances.len()` =>
// `Error::InvalidInstances`), and the verifier checks every other dimension of its inputs.
//
// Where it belongs: proofs/tests/c03_committed_instances_shape.rs (integration test, public API).
// How to run:
//   cp _hunt/c03_committed_instances_shape.rs proofs/tests/
//   CARGO_TARGET_DIR=/tmp/hunt-C03/target cargo test --offline -j 4 -p midnight-proofs \
//       --test c03_committed_instances_shape

use blake2b_simd::State;
use ff::Field;
use midnight_curves::{Bls12, Fq};
use midnight_proofs::{
    circuit::{Layouter, SimpleFloorPlanner, Value},
    plonk::{
        commit_to_instances, create_proof, keygen_pk, keygen_vk_with_k, prepare, Advice, Circuit,
        Column, ConstraintSystem, Constraints, Error, Instance, Selector,
    },
    poly::{
        commitment::Guard,
        kzg::{params::ParamsKZG, KZGCommitmentScheme},
        Rotation,
    },
    transcript::{CircuitTranscript, Transcript},
};
use rand_core::OsRng;

type Scheme = KZGCommitmentScheme<Bls12>;

const K: u32 = 4;

/// Row 0:  a = committed_instance[0]   and   a * b = public_instance[0].
#[derive(Clone, Default)]
struct MulCircuit {
    a: Value<Fq>,
    b: Value<Fq>,
}

#[derive(Clone, Debug)]
struct MulConfig {
    a: Column<Advice>,
    b: Column<Advice>,
    s: Selector,
}

impl Circuit<Fq> for MulCircuit {
    type Config = MulConfig;
    type FloorPlanner = SimpleFloorPlanner;
    #[cfg(feature = "circuit-params")]
    type Params = ();

    fn without_witnesses(&self) -> Self {
        Self::default()
    }

    fn configure(meta: &mut ConstraintSystem<Fq>) -> MulConfig {
        // Committed instance columns go first.
        let ci: Column<Instance> = meta.instance_column();
        let pi: Column<Instance> = meta.instance_column();
        let a = meta.advice_column();
        let b = meta.advice_column();
        let s = meta.selector();

        meta.create_gate("a = ci, a * b = pi", |meta| {
            let a = meta.query_advice(a, Rotation::cur());
            let b = meta.query_advice(b, Rotation::cur());
            let ci = meta.query_instance(ci, Rotation::cur());
            let pi = meta.query_instance(pi, Rotation::cur());
            Constraints::with_selector(s, vec![a.clone() - ci, a * b - pi])
        });

        MulConfig { a, b, s }
    }

    fn synthesize(&self, config: MulConfig, mut layouter: impl Layouter<Fq>) -> Result<(), Error> {
        layouter.assign_region(
            || "mul",
            |mut region| {
                config.s.enable(&mut region, 0)?;
                region.assign_advice(|| "a", config.a, 0, || self.a)?;
                region.assign_advice(|| "b", config.b, 0, || self.b)?;
                Ok(())
            },
        )
    }
}

#[test]
fn prepare_rejects_extra_committed_instance_vectors() {
    let params = ParamsKZG::<Bls12>::unsafe_setup(K, OsRng);
    let vk = keygen_vk_with_k::<Fq, Scheme, _>(&params, &MulCircuit::default(), K).unwrap();
    let pk = keygen_pk(vk.clone(), &MulCircuit::default()).unwrap();

    let (a, b) = (Fq::from(3), Fq::from(5));
    let circuit = MulCircuit {
        a: Value::known(a),
        b: Value::known(b),
    };
    let ci = [a];
    let pi = [a * b];

    // A proof for ONE circuit.
    let mut transcript = CircuitTranscript::<State>::init();
    create_proof::<Fq, Scheme, _, _>(
        &params,
        &pk,
        &[circuit],
        1,
        &[&[&ci, &pi]],
        OsRng,
        &mut transcript,
    )
    .expect("proof generation should not fail");
    let proof = transcript.finalize();

    let com = commit_to_instances::<Fq, Scheme>(&params, vk.get_domain(), &ci);
    let other = commit_to_instances::<Fq, Scheme>(&params, vk.get_domain(), &[Fq::from(1234)]);
    assert_ne!(com, other);

    let verify = |committed: &[&[midnight_curves::G1Projective]],
                  instances: &[&[&[Fq]]]|
     -> Result<(), String> {
        let mut transcript = CircuitTranscript::<State>::init_from_bytes(&proof);
        let guard = prepare::<Fq, Scheme, _>(&vk, committed, instances, &mut transcript)
            .map_err(|e| format!("prepare: {e:?}"))?;
        transcript.assert_empty().map_err(|e| format!("trailing: {e:?}"))?;
        guard.verify(&params.verifier_params()).map_err(|e| format!("pairing: {e:?}"))
    };

    // Sanity: accepted for the statement it was made for, refused for another committed instance.
    assert_eq!(verify(&[&[com]], &[&[&pi]]), Ok(()));
    assert!(verify(&[&[other]], &[&[&pi]]).is_err());

    // The committed-instance input is extended by a second vector: this is no longer the statement
    // the proof was produced for (and it is not even a well-formed one: two committed-instance
    // vectors, one instance vector), so verification must return an error.
    let res = verify(&[&[com], &[other]], &[&[&pi]]);
    assert!(
        res.is_err(),
        "a proof for 1 circuit was accepted with 2 committed-instance vectors and 1 instance \
         vector: the extra committed instance is silently ignored"
    );
    let _ = Fq::ZERO;
}
