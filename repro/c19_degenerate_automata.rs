// Reproduction of four defects of RawAutomaton (property C19) repaired by the commits 46457f9, 64a5e5c, 7425c4d, 9110d4f of /repo.
// Belongs in circuits/tests/c19_degenerate.rs; run: cargo test --offline -p midnight-circuits --test c19_degenerate
// On the tree before those commits: complement_of_empty_language_is_everything, complement_of_epsilon_is_nonempty_words and
// concat_with_semantic_epsilon_factor fail, star_of_optional_empty_language panics (index out of bounds); all four pass after them.
// The deviations were first seen by the random-search harness of the sub-agent that seeded C19 (seeded/C19/search_harness.rs.txt).
use midnight_circuits::parsing::regex::{Regex, RegexInstructions};

fn compile(regex: &Regex) -> impl Fn(&[u8]) -> bool {
    let automaton = regex.to_automaton();
    move |word: &[u8]| {
        let mut state = automaton.initial_state;
        for &byte in word {
            match automaton.transitions.get(&(state, byte)) {
                Some(&(target, _)) => state = target,
                None => return false,
            }
        }
        automaton.final_states.contains(&state)
    }
}

#[test]
fn complement_of_empty_language_is_everything() {
    let b: Regex = b'b'.into();
    let c: Regex = b'c'.into();
    let r = b.and(c).neg();
    let run = compile(&r);
    for w in [&b""[..], b"a", b"b", b"bc", b"zzz"] {
        assert!(run(w), "complement of the empty language rejects {:?}", w);
    }
}

#[test]
fn complement_of_epsilon_is_nonempty_words() {
    let r = Regex::epsilon().neg();
    let run = compile(&r);
    assert!(!run(b""));
    for w in [&b"a"[..], b"ab", b"zzz"] {
        assert!(run(w), "complement of epsilon rejects {:?}", w);
    }
}

#[test]
fn concat_with_semantic_epsilon_factor() {
    let a: Regex = b'a'.into();
    let b: Regex = b'b'.into();
    let c: Regex = b'c'.into();
    let d: Regex = b'd'.into();
    let eps = c.list().and(b.optional());
    let run_eps = compile(&eps);
    assert!(run_eps(b""), "c* & b? rejects epsilon");
    assert!(!run_eps(b"c"));
    let r = Regex::cat([a, eps, d]);
    let run = compile(&r);
    assert!(run(b"ad"), "a.(c* & b?).d rejects \"ad\"");
    assert!(!run(b"acd"));
}


#[test]
fn star_of_optional_empty_language() {
    let a: Regex = b'a'.into();
    let b: Regex = b'b'.into();
    let r = a.and(b).optional().list();
    let run = compile(&r);
    assert!(run(b""));
    assert!(!run(b"a"));
}
