// C02 hunt, defect 2: the prover's `query_instance` does not zero-pad the public inputs, although
// `create_proof` documents "The provided `instances` are zero-padded internally", the mock checker
// zero-pads them (`MockProver::query_instance` -> `InstanceValue::Padding` -> 0) and the verifier
// zero-pads them (the Lagrange sum stops at the provided length). A circuit that reads an instance
// cell lying after the provided public inputs with `assign_advice_from_instance` is therefore
// "satisfied" for the mock checker and for the verifier's arithmetic, but `create_proof` aborts
// with `Error::BoundsFailure`: the two verdicts on the same assignment disagree.
//
// Where it belongs: proofs/tests/c02_instance_padding_prover.rs (integration test, public API).
// How to run:
//   cp _hunt/c02_instance_padding_prover.rs proofs/tests/ &&
//   CARGO_TARGET_DIR=/tmp/hunt-C02/target cargo test --offline -j 4 -p midnight-proofs \
//       --test c02_instance_padding_prover

use blake2b_simd::State;
use ff::Field;
use midnight_curves::{Bls12, Fq};
use midnight_proofs::{
    circuit::{Layouter, SimpleFloorPlanner, Value},
    dev::MockProver,
    plonk::{
        create_proof, keygen_pk, keygen_vk_with_k, prepare, Advice, Circuit, Column,
        ConstraintSystem, Constraints, Error, Instance, ProvingKey, Selector,
    },
    poly::{
        commitment::Guard,
        kzg::{params::ParamsKZG, KZGCommitmentScheme},
        Rotation,
    },
    transcript::{CircuitTranscript, Transcript},
};
use rand_core::OsRng;

const K: u32 = 4;
type Scheme = KZGCommitmentScheme<Bls12>;

#[derive(Clone)]
struct Cfg {
    a: Column<Advice>,
    b: Column<Advice>,
    pi: Column<Instance>,
    s: Selector,
}

/// Loads pi[0] and pi[1] into advice cells and enforces `b = pi[0] + pi[1]`.
#[derive(Clone)]
struct LoadPi {
    b: Value<Fq>,
}

impl Circuit<Fq> for LoadPi {
    type Config = Cfg;
    type FloorPlanner = SimpleFloorPlanner;
    #[cfg(feature = "circuit-params")]
    type Params = ();

    fn without_witnesses(&self) -> Self {
        LoadPi { b: Value::unknown() }
    }

    fn configure(meta: &mut ConstraintSystem<Fq>) -> Cfg {
        let a = meta.advice_column();
        let b = meta.advice_column();
        let pi = meta.instance_column();
        let s = meta.selector();
        meta.enable_equality(a);
        meta.enable_equality(pi);
        meta.create_gate("sum", |m| {
            let a0 = m.query_advice(a, Rotation::cur());
            let a1 = m.query_advice(a, Rotation::next());
            let b = m.query_advice(b, Rotation::cur());
            Constraints::with_selector(s, vec![a0 + a1 - b])
        });
        Cfg { a, b, pi, s }
    }

    fn synthesize(&self, cfg: Cfg, mut layouter: impl Layouter<Fq>) -> Result<(), Error> {
        layouter.assign_region(
            || "r",
            |mut region| {
                cfg.s.enable(&mut region, 0)?;
                region.assign_advice_from_instance(|| "pi[0]", cfg.pi, 0, cfg.a, 0)?;
                region.assign_advice_from_instance(|| "pi[1]", cfg.pi, 1, cfg.a, 1)?;
                region.assign_advice(|| "b", cfg.b, 0, || self.b)?;
                Ok(())
            },
        )
    }
}

fn prove(
    params: &ParamsKZG<Bls12>,
    pk: &ProvingKey<Fq, Scheme>,
    circuit: &LoadPi,
    statement: &[Fq],
) -> Result<Vec<u8>, Error> {
    let mut t = CircuitTranscript::<State>::init();
    create_proof::<Fq, Scheme, _, _>(
        params,
        pk,
        &[circuit.clone()],
        #[cfg(feature = "committed-instances")]
        0,
        &[&[statement]],
        OsRng,
        &mut t,
    )
    .map(|_| t.finalize())
}

fn verify(
    params: &ParamsKZG<Bls12>,
    pk: &ProvingKey<Fq, Scheme>,
    statement: &[Fq],
    proof: &[u8],
) -> bool {
    let mut transcript = CircuitTranscript::<State>::init_from_bytes(proof);
    match prepare::<Fq, Scheme, _>(
        pk.get_vk(),
        #[cfg(feature = "committed-instances")]
        &[&[]],
        &[&[statement]],
        &mut transcript,
    ) {
        Err(_) => false,
        Ok(guard) => {
            transcript.assert_empty().is_ok() && guard.verify(&params.verifier_params()).is_ok()
        }
    }
}

#[test]
fn prover_refuses_an_assignment_the_mock_checker_accepts() {
    let params = ParamsKZG::<Bls12>::unsafe_setup(K, OsRng);
    let empty = LoadPi { b: Value::unknown() };
    let vk = keygen_vk_with_k::<Fq, Scheme, _>(&params, &empty, K).unwrap();
    let pk = keygen_pk(vk, &empty).unwrap();

    let nine = Fq::from(9);
    // b = pi[0] + pi[1] = 9 + 0.
    let circuit = LoadPi { b: Value::known(nine) };

    // Control: with the padding zero written out, everything agrees.
    let explicit = [nine, Fq::ZERO];
    assert_eq!(MockProver::run(K, &circuit, vec![explicit.to_vec()]).unwrap().verify(), Ok(()));
    let proof = prove(&params, &pk, &circuit, &explicit).expect("explicit zero: proof is created");
    assert!(verify(&params, &pk, &explicit, &proof));

    // Same assignment, the trailing zero left to the documented internal zero-padding.
    let short = [nine];
    // The mock checker pads with zero and is satisfied ...
    assert_eq!(MockProver::run(K, &circuit, vec![short.to_vec()]).unwrap().verify(), Ok(()));
    // ... so the prover must produce a proof that the verifier accepts.
    let proof = prove(&params, &pk, &circuit, &short);
    assert!(
        proof.is_ok(),
        "mock checker: satisfied; create_proof on the same circuit and public inputs: {:?}",
        proof.as_ref().err()
    );
    assert!(verify(&params, &pk, &short, &proof.unwrap()));
}
