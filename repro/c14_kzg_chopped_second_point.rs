//! Reproduction (property C14 / C01): a chopped commitment queried at a point that is not the FIRST distinct point of the query list.
//! Belongs at proofs/tests/kzg_chopped_second_point.rs; run: cargo test --offline -p midnight-proofs --test kzg_chopped_second_point
//! Before the fix `multi_prepare` indexes the (one-element) point set of the chopped commitment with the GLOBAL index of the point and panics
//! ("index out of bounds: the len is 1 but the index is 1"); honest openings must verify.
use blake2b_simd::State as Blake2bState;
use ff::Field;
use midnight_curves::{Bls12, Fq};
use midnight_proofs::{
    poly::{
        commitment::{Guard, PolynomialCommitmentScheme},
        kzg::{params::ParamsKZG, KZGCommitmentScheme},
        Coeff, CommitmentLabel, EvaluationDomain, Polynomial, ProverQuery, VerifierQuery,
    },
    transcript::{CircuitTranscript, Transcript},
    utils::arithmetic::eval_polynomial,
};
use rand_core::OsRng;

type Scheme = KZGCommitmentScheme<Bls12>;
type T = CircuitTranscript<Blake2bState>;
const K: u32 = 3;
const N: u64 = 1 << K;

fn random_poly(domain: &EvaluationDomain<Fq>) -> Polynomial<Fq, Coeff> {
    let mut p = domain.empty_coeff();
    for c in p.iter_mut() {
        *c = Fq::random(OsRng);
    }
    p
}

#[test]
fn chopped_commitment_at_second_distinct_point_verifies() {
    let params: ParamsKZG<Bls12> = ParamsKZG::unsafe_setup(K, OsRng);
    let domain = EvaluationDomain::<Fq>::new(1, K);
    let (x, y) = (Fq::random(OsRng), Fq::random(OsRng));
    let s = x.pow([N - 1]);
    let (h0, h1, w) = (random_poly(&domain), random_poly(&domain), random_poly(&domain));
    let (c0, c1, cw) = (Scheme::commit(&params, &h0), Scheme::commit(&params, &h1), Scheme::commit(&params, &w));
    // a(X) = h0(X) + s * h1(X)
    let mut a = domain.empty_coeff();
    for ((acc, p0), p1) in a.iter_mut().zip(h0.iter()).zip(h1.iter()) {
        *acc = *p0 + s * p1;
    }

    let mut transcript = T::init();
    // the first distinct point of the list is y, the chopped commitment is queried at x
    let prover_queries = [ProverQuery::new(y, &w), ProverQuery::new(x, &a)];
    Scheme::multi_open(&params, &prover_queries, &mut transcript).unwrap();
    let proof = transcript.finalize();

    let mut transcript = T::init_from_bytes(&proof);
    let verifier_queries = [
        VerifierQuery::new(y, CommitmentLabel::NoLabel, &cw, eval_polynomial(&w, y)),
        VerifierQuery::from_parts(x, CommitmentLabel::Custom("A".into()), &[&c0, &c1], eval_polynomial(&a, x), N),
    ];
    let guard = Scheme::multi_prepare(&verifier_queries, &mut transcript).expect("honest openings must be prepared");
    guard.verify(&params.verifier_params()).expect("honest openings must verify");
}
