// Reproduction (property C08, recorded as a known finding): the public-input encoding of a foreign curve point exposes the coordinate cells
// unmasked.  For the identity (is_id = 1) the coordinates are unconstrained — `assign` switches the on-curve check off, `add` / `negate` constrain only
// the flag — so a circuit exposing the identity is satisfied by MANY public-input vectors, not only by the off-circuit encoding of the identity.
//
// This file is a unit-test module of circuits/src/ecc/foreign/ecc_chip.rs (it needs the private fields of AssignedForeignPoint); hook it with
//     #[cfg(test)] #[path = "c08_identity_pi_demo.rs"] mod c08_identity_pi_demo;
// at the end of ecc_chip.rs and run:  cargo test --offline -p midnight-circuits --lib c08_identity_pi_demo
//
// The circuit below lays out exactly what `assign_as_public_input` lays out (assign = unchecked assignment + conditional on-curve check, then
// constrain_as_public_input), with the witness a malicious prover would choose: is_id = 1, x = 7, y = 9.
use ff::Field;
use group::Group;
use midnight_curves::k256::K256;
use midnight_proofs::{circuit::SimpleFloorPlanner, dev::MockProver, plonk::Circuit};

use super::*;
use crate::{ecc::curves::CircuitCurve, field::foreign::params::MultiEmulationParams, instructions::{BinaryInstructions, PublicInputInstructions}, types::Instantiable};

type SecpScalar = <K256 as Group>::Scalar;
type SecpBase = <K256 as CircuitCurve>::Base;
type SecpScalarChip = FieldChip<F, SecpScalar, MultiEmulationParams, NG>;
type SecpChip = ForeignEccChip<F, K256, MultiEmulationParams, SecpScalarChip, NG>;
type SecpPoint = AssignedForeignPoint<F, K256, MultiEmulationParams>;

#[derive(Clone, Debug)]
struct DemoCircuit {
    x: SecpBase,
    y: SecpBase,
}

impl Circuit<F> for DemoCircuit {
    type Config = <SecpChip as FromScratch<F>>::Config;
    type FloorPlanner = SimpleFloorPlanner;
    type Params = ();

    fn without_witnesses(&self) -> Self {
        unreachable!()
    }

    fn configure(meta: &mut ConstraintSystem<F>) -> Self::Config {
        let committed_instance_column = meta.instance_column();
        let instance_column = meta.instance_column();
        SecpChip::configure_from_scratch(meta, &[committed_instance_column, instance_column])
    }

    fn synthesize(&self, config: Self::Config, mut layouter: impl Layouter<F>) -> Result<(), Error> {
        let chip = SecpChip::new_from_scratch(&config);
        // what `assign_point_unchecked` lays out, with prover-chosen cells
        let x = chip.base_field_chip().assign(&mut layouter, Value::known(self.x))?;
        let y = chip.base_field_chip().assign(&mut layouter, Value::known(self.y))?;
        let is_id: AssignedBit<F> = chip.native_gadget.assign(&mut layouter, Value::known(true))?;
        let p = SecpPoint { point: Value::known(K256::identity()), is_id, x, y };
        // what `assign` adds: the on-curve check, conditioned on NOT is_id
        let is_not_id = chip.native_gadget.not(&mut layouter, &p.is_id)?;
        on_curve::assert_is_on_curve::<F, K256, MultiEmulationParams, NG>(
            &mut layouter, &is_not_id, &p.x, &p.y, chip.base_field_chip(), &chip.config.on_curve_config)?;
        // exposure
        chip.constrain_as_public_input(&mut layouter, &p)?;
        chip.load_from_scratch(&mut layouter)
    }
}

fn accepted(x: SecpBase, y: SecpBase, pi: Vec<F>) -> bool {
    let circuit = DemoCircuit { x, y };
    match MockProver::run(16, &circuit, vec![vec![], pi]) {
        Ok(prover) => prover.verify().is_ok(),
        Err(_) => false,
    }
}

#[test]
fn identity_is_exposed_with_arbitrary_coordinates() {
    let honest = <SecpPoint as Instantiable<F>>::as_public_input(&K256::identity());
    // control: the honest encoding (x = y = 0) is accepted
    assert!(accepted(SecpBase::ZERO, SecpBase::ZERO, honest.clone()), "honest encoding of the identity rejected");
    // a different vector: coordinates (7, 9) under the identity flag
    let base = F::from(2).pow_vartime([<MultiEmulationParams as FieldEmulationParams<F, SecpBase>>::LOG2_BASE as u64]);
    let mut forged = [
        <AssignedField<F, SecpBase, MultiEmulationParams> as Instantiable<F>>::as_public_input(&SecpBase::from(7)),
        <AssignedField<F, SecpBase, MultiEmulationParams> as Instantiable<F>>::as_public_input(&SecpBase::from(9)),
    ]
    .concat();
    forged[0] += base;
    assert_ne!(forged, honest);
    assert!(
        !accepted(SecpBase::from(7), SecpBase::from(9), forged),
        "a public-input vector different from the encoding of the identity is accepted for the identity"
    );
}
