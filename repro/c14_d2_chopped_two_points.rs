// C14 hunt, defect 2: a chopped commitment queried at two points is only guarded by a
// `debug_assert!` in `KZGCommitmentScheme::multi_prepare`.
//   * debug build  : `multi_prepare` panics instead of returning an `Err`;
//   * release build: the guard disappears, every query of the chopped commitment is
//     evaluated with the FIRST point of the point set, and a false evaluation claim on the
//     chopped polynomial is accepted.
//
// Where it belongs: copy to  proofs/tests/c14_d2_chopped_two_points.rs
// How to run (both fail on the unchanged code, for the two reasons above):
//   CARGO_TARGET_DIR=/tmp/hunt-C14/target cargo test --offline -j 4 -p midnight-proofs \
//       --test c14_d2_chopped_two_points
//   CARGO_TARGET_DIR=/tmp/hunt-C14/target cargo test --offline -j 4 -p midnight-proofs \
//       --release --test c14_d2_chopped_two_points
//
// Uses only the public API of midnight-proofs.

use blake2b_simd::State as Blake2bState;
use ff::Field;
use midnight_curves::{Bls12, Fq, G1Projective};
use midnight_proofs::{
    poly::{
        commitment::{Guard, PolynomialCommitmentScheme},
        kzg::{params::ParamsKZG, KZGCommitmentScheme},
        Coeff, CommitmentLabel, Polynomial, ProverQuery, VerifierQuery,
    },
    transcript::{CircuitTranscript, Transcript},
    utils::arithmetic::eval_polynomial,
};
use rand_chacha::ChaCha8Rng;
use rand_core::SeedableRng;

type Scheme = KZGCommitmentScheme<Bls12>;
type T = CircuitTranscript<Blake2bState>;
type Poly = Polynomial<Fq, Coeff>;

/// sum_i pieces[i](X) * at^{(n-1) i}, as a polynomial in X (this is what the prover opens for a
/// chopped commitment queried at `at`, cf. plonk/vanishing/prover.rs).
fn combine(pieces: &[Poly], n: usize, at: Fq) -> Poly {
    let sf = at.pow([(n - 1) as u64]);
    let mut out = Poly::init(n);
    let mut sc = Fq::ONE;
    for p in pieces {
        for (o, c) in out.iter_mut().zip(p.iter()) {
            *o += *c * sc;
        }
        sc *= sf;
    }
    out
}

#[test]
fn chopped_commitment_at_two_points_is_refused_or_rejected() {
    const K: u32 = 3;
    let n = 1usize << K;
    let mut rng = ChaCha8Rng::seed_from_u64(0xC14);
    let params = ParamsKZG::<Bls12>::unsafe_setup(K, &mut rng);
    let vp = params.verifier_params();

    // A(X) = A_0(X) + X^{n-1} A_1(X), pieces have n-1 coefficients.
    let pieces: Vec<Poly> = (0..2)
        .map(|_| {
            let mut p = Poly::init(n);
            p.iter_mut().take(n - 1).for_each(|c| *c = Fq::random(&mut rng));
            p
        })
        .collect();
    let piece_coms: Vec<G1Projective> = pieces.iter().map(|p| Scheme::commit(&params, p)).collect();
    let piece_refs: Vec<&G1Projective> = piece_coms.iter().collect();

    let x = Fq::random(&mut rng);
    let y = Fq::random(&mut rng);

    // True evaluations of the chopped polynomial A.
    let a_x = eval_polynomial(&combine(&pieces, n, x), x);
    let a_y = eval_polynomial(&combine(&pieces, n, y), y);

    // The prover opens P_x(X) := A_0(X) + x^{n-1} A_1(X) at both x and y.
    let p_x = combine(&pieces, n, x);
    let false_a_y = eval_polynomial(&p_x, y);
    assert_eq!(eval_polynomial(&p_x, x), a_x);
    assert_ne!(false_a_y, a_y, "the claim below is a FALSE claim about A(y)");

    let mut tr = T::init();
    let pq = [ProverQuery::new(x, &p_x), ProverQuery::new(y, &p_x)];
    Scheme::multi_open(&params, &pq, &mut tr).unwrap();
    let proof = tr.finalize();

    // Verifier: the chopped commitment {[A_0], [A_1]} queried at x (true eval) and at y
    // (false eval).
    let vq = [
        VerifierQuery::<Fq, Scheme>::from_parts(x, CommitmentLabel::NoLabel, &piece_refs, a_x, n as u64),
        VerifierQuery::<Fq, Scheme>::from_parts(y, CommitmentLabel::NoLabel, &piece_refs, false_a_y, n as u64),
    ];
    let mut tr = T::init_from_bytes(&proof);
    // Expected: an `Err` (unsupported query set), or at the very least a guard that does not
    // verify. Never a panic, never an accepted false claim.
    match Scheme::multi_prepare(&vq, &mut tr) {
        Err(_) => {}
        Ok(guard) => assert!(
            guard.verify(&vp).is_err(),
            "false evaluation A(y) of a chopped commitment was ACCEPTED"
        ),
    }
}
