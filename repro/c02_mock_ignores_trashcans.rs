//! Reproduction: the development-time checker ignores constraints declared with an additive selector.
use ff::Field;
use midnight_curves::Fq;
use midnight_proofs::{
    circuit::{Layouter, SimpleFloorPlanner, Value},
    dev::MockProver,
    plonk::{Advice, Circuit, Column, ConstraintSystem, Constraints, Error, Selector},
    poly::Rotation,
};

#[derive(Clone, Copy)]
struct C;
#[derive(Clone)]
struct Cfg { a: Column<Advice>, b: Column<Advice>, q: Selector }

impl Circuit<Fq> for C {
    type Config = Cfg;
    type FloorPlanner = SimpleFloorPlanner;
    #[cfg(feature = "circuit-params")]
    type Params = ();
    fn without_witnesses(&self) -> Self { *self }
    fn configure(meta: &mut ConstraintSystem<Fq>) -> Cfg {
        let a = meta.advice_column();
        let b = meta.advice_column();
        let q = meta.complex_selector();
        meta.create_gate("a == b (additive selector)", |meta| {
            let a = meta.query_advice(a, Rotation::cur());
            let b = meta.query_advice(b, Rotation::cur());
            Constraints::with_additive_selector(q, vec![a - b])
        });
        Cfg { a, b, q }
    }
    fn synthesize(&self, cfg: Cfg, mut layouter: impl Layouter<Fq>) -> Result<(), Error> {
        layouter.assign_region(|| "r", |mut region| {
            cfg.q.enable(&mut region, 0)?;
            region.assign_advice(|| "a", cfg.a, 0, || Value::known(Fq::from(1)))?;
            region.assign_advice(|| "b", cfg.b, 0, || Value::known(Fq::from(2)))?; // violates a == b
            Ok(())
        })
    }
}

#[test]
fn mock_prover_must_reject_violated_additive_selector_constraint() {
    let prover = MockProver::run(5, &C, vec![]).unwrap();
    assert!(prover.verify().is_err(), "a == b is violated on an enabled row, the checker must complain");
}
