// C02 hunt, defect 3: `MockProver::verify` (which promises `Result<(), Vec<VerifyFailure>>`) panics
// with "internal error: entered unreachable code" instead of reporting the failure when the
// violated constraint also queries a cell of a blinding row whose contribution is cancelled by a
// zero coefficient. `verify_at_rows` evaluates the constraint lazily (0 * Poison = 0, as the
// comment in `impl Mul for Value` says), gets a non-zero real value, and then builds the error
// report with `util::cell_values`, whose `cell_value` helper does
// `match load(query) { Value::Real(v) => ..., Value::Poison => unreachable!() }`.
//
// Where it belongs: proofs/tests/c02_mock_poison_panic.rs (integration test, public API only).
// How to run:
//   cp _hunt/c02_mock_poison_panic.rs proofs/tests/ &&
//   CARGO_TARGET_DIR=/tmp/hunt-C02/target cargo test --offline -j 4 -p midnight-proofs \
//       --test c02_mock_poison_panic

use blake2b_simd::State;
use ff::Field;
use midnight_curves::{Bls12, Fq};
use midnight_proofs::{
    circuit::{Layouter, SimpleFloorPlanner, Value},
    dev::MockProver,
    plonk::{
        create_proof, keygen_pk, keygen_vk_with_k, prepare, Advice, Circuit, Column,
        ConstraintSystem, Constraints, Error, Fixed, Selector,
    },
    poly::{
        commitment::Guard,
        kzg::{params::ParamsKZG, KZGCommitmentScheme},
        Rotation,
    },
    transcript::{CircuitTranscript, Transcript},
};
use rand_core::OsRng;

const K: u32 = 4;
type Scheme = KZGCommitmentScheme<Bls12>;

#[derive(Clone)]
struct Cfg {
    a: Column<Advice>,
    b: Column<Advice>,
    coeff: Column<Fixed>,
    s: Selector,
}

/// A running-sum style gate: `b = a + coeff * a_next`. On the last row of the chain `coeff` is 0,
/// so `a_next` (which lies in the first blinding row when the chain ends on the last usable row)
/// is irrelevant.
#[derive(Clone)]
struct Chain {
    /// Number of usable rows; the gate is enabled on the last one.
    usable_rows: usize,
    a: Fq,
    b: Fq,
}

impl Circuit<Fq> for Chain {
    type Config = Cfg;
    type FloorPlanner = SimpleFloorPlanner;
    #[cfg(feature = "circuit-params")]
    type Params = ();

    fn without_witnesses(&self) -> Self {
        self.clone()
    }

    fn configure(meta: &mut ConstraintSystem<Fq>) -> Cfg {
        let a = meta.advice_column();
        let b = meta.advice_column();
        let coeff = meta.fixed_column();
        let s = meta.selector();
        meta.create_gate("chain", |m| {
            let a0 = m.query_advice(a, Rotation::cur());
            let a1 = m.query_advice(a, Rotation::next());
            let b = m.query_advice(b, Rotation::cur());
            let c = m.query_fixed(coeff, Rotation::cur());
            Constraints::with_selector(s, vec![b - a0 - c * a1])
        });
        Cfg { a, b, coeff, s }
    }

    fn synthesize(&self, cfg: Cfg, mut layouter: impl Layouter<Fq>) -> Result<(), Error> {
        let last = self.usable_rows - 1;
        layouter.assign_region(
            || "r",
            |mut region| {
                cfg.s.enable(&mut region, last)?;
                region.assign_advice(|| "a", cfg.a, last, || Value::known(self.a))?;
                region.assign_advice(|| "b", cfg.b, last, || Value::known(self.b))?;
                region.assign_fixed(|| "coeff", cfg.coeff, last, || Value::known(Fq::ZERO))?;
                Ok(())
            },
        )
    }
}

#[test]
fn mock_prover_reports_a_violated_gate_next_to_the_blinding_rows() {
    let mut cs = ConstraintSystem::<Fq>::default();
    Chain::configure(&mut cs);
    let usable_rows = (1usize << K) - (cs.blinding_factors() + 1);

    // Control: b = a on the last usable row is satisfied; the blinding-row cell `a_next` is
    // multiplied by coeff = 0 and must not matter.
    let good = Chain { usable_rows, a: Fq::from(3), b: Fq::from(3) };
    assert_eq!(MockProver::run(K, &good, vec![]).unwrap().verify(), Ok(()));

    // Fault: b = a + 1. The real prover/verifier pair rejects it ...
    let bad = Chain { usable_rows, a: Fq::from(3), b: Fq::from(4) };
    let params = ParamsKZG::<Bls12>::unsafe_setup(K, OsRng);
    let vk = keygen_vk_with_k::<Fq, Scheme, _>(&params, &bad, K).unwrap();
    let pk = keygen_pk(vk, &bad).unwrap();
    let prove_and_verify = |c: &Chain| {
        let mut t = CircuitTranscript::<State>::init();
        create_proof::<Fq, Scheme, _, _>(
            &params,
            &pk,
            &[c.clone()],
            #[cfg(feature = "committed-instances")]
            0,
            &[&[]],
            OsRng,
            &mut t,
        )
        .unwrap();
        let proof = t.finalize();
        let mut t = CircuitTranscript::<State>::init_from_bytes(&proof);
        prepare::<Fq, Scheme, _>(
            pk.get_vk(),
            #[cfg(feature = "committed-instances")]
            &[&[]],
            &[&[]],
            &mut t,
        )
        .unwrap()
        .verify(&params.verifier_params())
        .is_ok()
    };
    assert!(prove_and_verify(&good));
    assert!(!prove_and_verify(&bad));

    // ... and the mock checker must report `ConstraintNotSatisfied` through its `Result`.
    // Observed: panic "internal error: entered unreachable code" (proofs/src/dev/util.rs).
    let verdict = MockProver::run(K, &bad, vec![]).unwrap().verify();
    assert!(verdict.is_err());
}
