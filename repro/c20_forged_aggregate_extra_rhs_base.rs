// C20 hunt -- defect 1: `LightAggregator::verify` trusts the number of accumulator RHS bases
// announced by the (untrusted) aggregated proof, which lets a prover forge an aggregated proof
// for an INVALID inner proof / a FALSE inner public input.
//
// WHERE IT BELONGS
//   This file needs access to the private `AggregatorCircuit` and to the private fields of
//   `LightAggregator`, so it is a `#[cfg(test)]` child module of
//   `aggregator/src/light_aggregator.rs`. Hook it by appending these three lines at the very end
//   of `aggregator/src/light_aggregator.rs` (no other change to the library):
//
//       #[cfg(test)]
//       #[path = "../../_hunt/c20_forged_aggregate_extra_rhs_base.rs"]
//       mod hunt_c20_forged_aggregate_extra_rhs_base;
//
// HOW TO RUN
//   CARGO_TARGET_DIR=/tmp/hunt-C20/target cargo test --offline -j 4 -p midnight-aggregator \
//       hunt_c20_forged_aggregate -- --nocapture
//
// WHAT IT SHOWS
//   `forged_aggregate_for_false_public_inputs_is_rejected` FAILS on the unchanged code:
//   `LightAggregator::<1>::verify` returns `Ok(())` for public inputs `[1, 2]` for which the
//   prover holds no valid inner proof (the inner proof it embeds is explicitly checked to be
//   invalid for these inputs by the off-circuit verifier).
//
// THE ATTACK (everything below only uses the public SRS; tau is never used)
//   verify() reads `n_rhs` (the number of accumulator RHS bases) from the proof and
//     * appends the `n_rhs` points to the plain instance column of the aggregator circuit, and
//     * builds the IPA bases as `rhs_bases(n_rhs) ++ fixed_bases(f)` against the first
//       `n_rhs + f` Lagrange commitments.
//   The aggregator circuit only copy-constrains the rows it knows about (the real `m` RHS bases
//   and the `m + f` committed scalars). A prover can therefore announce `n_rhs = m + 1` and append
//   one arbitrary extra point X:
//     * the extra instance row (hash of X) and the extra committed-instance row are not
//       constrained by any gate or copy constraint, so the PLONK proof is still valid;
//     * the IPA bases become `[B_1..B_m, X, F_1..F_f]` while the committed scalars stay
//       `[s_1..s_m, fs_1..fs_f, 0]`: every fixed base is shifted by one position and X is paired
//       with the circuit-derived scalar `fs_1` (the scalar of "-G"), which does not depend on X.
//   So the "evaluated RHS" that verify() accepts is
//       C' = sum s_i B_i + fs_1 * X + sum_{j<f} fs_{j+1} F_j
//   and the prover can solve for X such that C' equals any target it likes. It picks the last
//   point of the inner proof (the KZG opening proof pi, which is the accumulator LHS) as p*G with
//   a known p, so that the target tau*pi = p*[tau]_1 is computable from the SRS, and the pairing
//   check e(pi, [tau]_2) = e(C', [1]_2) passes although the real accumulator does not satisfy it.

use blake2b_simd::State as Blake2bState;
use ff::Field;
use group::{Curve, Group};
use midnight_circuits::{
    hash::poseidon::PoseidonChip,
    instructions::{hash::HashCPU, AssignmentInstructions},
    types::Instantiable,
};
use midnight_curves::pairing::Engine;
use midnight_zk_stdlib::{Relation, ZkStdLib, ZkStdLibArch};
use rand::SeedableRng;
use rand_chacha::ChaCha8Rng;

use super::*;

/// Same inner relation as the crate's own round-trip test: two Poseidon digests as public inputs.
#[derive(Clone, Default)]
struct InnerCircuit;

impl Relation for InnerCircuit {
    type Instance = [F; 2];
    type Witness = [F; 2];

    fn format_instance(instance: &Self::Instance) -> Result<Vec<F>, Error> {
        Ok(instance.to_vec())
    }

    fn circuit(
        &self,
        std_lib: &ZkStdLib,
        layouter: &mut impl Layouter<F>,
        _instance: Value<Self::Instance>,
        witness: Value<Self::Witness>,
    ) -> Result<(), Error> {
        let assigned_message = std_lib.assign_many(layouter, &witness.transpose_array())?;
        let output1 = std_lib.poseidon(layouter, &assigned_message)?;
        let output2 = std_lib.poseidon(layouter, &assigned_message[1..])?;
        std_lib.constrain_as_public_input(layouter, &output1)?;
        std_lib.constrain_as_public_input(layouter, &output2)
    }

    fn used_chips(&self) -> ZkStdLibArch {
        ZkStdLibArch {
            jubjub: true,
            poseidon: true,
            sha2_256: true,
            nr_pow2range_cols: 4,
            ..ZkStdLibArch::default()
        }
    }

    fn write_relation<W: std::io::Write>(&self, _writer: &mut W) -> std::io::Result<()> {
        Ok(())
    }

    fn read_relation<R: std::io::Read>(_reader: &mut R) -> std::io::Result<Self> {
        Ok(InnerCircuit)
    }
}

fn naive_msm(scalars: &[F], bases: &[C]) -> C {
    assert_eq!(scalars.len(), bases.len());
    scalars.iter().zip(bases.iter()).fold(C::identity(), |acc, (s, b)| acc + *b * *s)
}

/// The malicious prover. It only uses public data: the (downsized) SRS, the aggregator keys and
/// an inner proof of its choice. It returns an aggregated proof for `claimed_instance`.
fn forge(
    aggregator: &LightAggregator<1>,
    srs: &ParamsKZG<E>,
    claimed_instance: &[F],
    honest_proof_for_another_instance: &[u8],
    rng: &mut ChaCha8Rng,
) -> Vec<u8> {
    let domain = aggregator.aggregator_vk.get_domain();
    let n = 1usize << domain.k();

    // [1]_1 and [tau]_1 out of the public SRS: commitments to the polynomials 1 and X.
    let g = C::generator();
    let omega_powers: Vec<F> =
        std::iter::successors(Some(F::ONE), |w| Some(*w * domain.get_omega())).take(n).collect();
    let tau_g = commit_to_instances::<F, KZGCommitmentScheme<E>>(srs, domain, &omega_powers);
    assert_eq!(
        commit_to_instances::<F, KZGCommitmentScheme<E>>(srs, domain, &vec![F::ONE; n]),
        g
    );
    assert_eq!(
        E::pairing(&g.to_affine(), &srs.s_g2().into()),
        E::pairing(&tau_g.to_affine(), &srs.g2().into()),
    );

    // The inner "proof": a proof for another statement whose last element (the KZG opening proof
    // pi, i.e. the LHS of the accumulator) is replaced by p * G for a known p.
    let p = F::random(&mut *rng);
    let pi_forged = g * p;
    let target = tau_g * p; // tau * pi_forged, computed without knowing tau

    let mut inner_proof = honest_proof_for_another_instance.to_vec();
    let pi_bytes = <C as Hashable<LightPoseidonFS<F>>>::to_bytes(&pi_forged);
    let l = inner_proof.len();
    inner_proof[l - pi_bytes.len()..].copy_from_slice(&pi_bytes);

    // The accumulator the aggregator circuit derives for (claimed_instance, inner_proof).
    let fixed_bases = midnight_circuits::verifier::fixed_bases::<S>("inner_vk", &aggregator.inner_vk);
    let acc = {
        let mut inner_transcript =
            CircuitTranscript::<LightPoseidonFS<F>>::init_from_bytes(&inner_proof);
        let dual_msm = plonk::prepare::<
            F,
            KZGCommitmentScheme<E>,
            CircuitTranscript<LightPoseidonFS<F>>,
        >(
            &aggregator.inner_vk,
            &[&[C::identity()]],
            &[&[claimed_instance]],
            &mut inner_transcript,
        )
        .expect("the inner proof is well-formed");

        // The inner proof is NOT valid for the claimed public inputs.
        assert!(
            !dual_msm.clone().check(&srs.verifier_params()),
            "the inner proof must be invalid for the claimed instance"
        );
        Accumulator::<S>::from_dual_msm(dual_msm, "inner_vk", &fixed_bases)
    };
    assert!(!acc.check(&srs.s_g2().into(), &fixed_bases));
    assert_eq!(acc.lhs().eval(&fixed_bases), pi_forged);

    // Solve for the extra RHS base X.
    let rhs = acc.rhs();
    let fs: Vec<F> = rhs.fixed_base_scalars().values().copied().collect();
    let fb: Vec<C> = fixed_bases.values().cloned().collect();
    let f = fb.len();
    assert_eq!(fs.len(), f);
    let rest = naive_msm(&rhs.scalars(), &rhs.bases()) + naive_msm(&fs[1..], &fb[..f - 1]);
    let x_point = (target - rest) * fs[0].invert().unwrap();

    // The aggregator circuit is run exactly as in `aggregate_proofs`.
    let aggregator_circuit = AggregatorCircuit::<1> {
        inner_vk: (
            aggregator.inner_vk.get_domain().clone(),
            aggregator.inner_vk.cs().clone(),
            Value::known(aggregator.inner_vk.transcript_repr()),
        ),
        instances: Value::known([[claimed_instance[0], claimed_instance[1]]]),
        proofs: [Value::known(inner_proof.clone())],
    };

    let (acc_normal_instances, acc_committed_instances) =
        AssignedAccumulator::as_public_input_with_committed_scalars(&acc);
    let mut aggregator_instances = AssignedVk::<S>::as_public_input(&aggregator.inner_vk);
    aggregator_instances.extend(claimed_instance);
    aggregator_instances.extend(acc_normal_instances);
    // ... plus one unconstrained row for the extra base.
    aggregator_instances.extend(<S as SelfEmulation>::AssignedPoint::as_public_input(&x_point));

    let sigma = commit_to_instances::<F, KZGCommitmentScheme<E>>(
        srs,
        domain,
        &acc_committed_instances,
    );

    let mut rhs_bases = rhs.bases();
    rhs_bases.push(x_point);

    let mut transcript = CircuitTranscript::<Blake2bState>::init();
    transcript.write(&(acc.lhs().bases().len() as u32)).unwrap();
    acc.lhs().bases().iter().for_each(|b| transcript.write(b).unwrap());
    acc.lhs().scalars().iter().for_each(|s| transcript.write(s).unwrap());
    transcript.write(&(rhs_bases.len() as u32)).unwrap(); // m + 1
    rhs_bases.iter().for_each(|b| transcript.write(b).unwrap());
    transcript.write(&sigma).unwrap();
    transcript.write(&target).unwrap(); // the claimed evaluation of the RHS

    create_proof::<F, KZGCommitmentScheme<E>, _, AggregatorCircuit<1>>(
        srs,
        &aggregator.aggregator_pk,
        &[aggregator_circuit],
        1,
        &[&[&acc_committed_instances, &aggregator_instances]],
        &mut *rng,
        &mut transcript,
    )
    .expect("the aggregator circuit is satisfied: it only derives the accumulator");

    // An honest IPA over the shifted bases.
    let mut scalars = acc_committed_instances.clone();
    let mut bases1 = [rhs_bases, fb].concat();
    let mut bases2 = aggregator.lagrange_commitments[..bases1.len()].to_vec();
    let k = bases1.len().next_power_of_two();
    bases1.resize(k, C::identity());
    bases2.resize(k, C::identity());
    scalars.resize(k, F::ZERO);
    assert_eq!(naive_msm(&scalars, &bases1), target);
    assert_eq!(naive_msm(&scalars, &bases2), sigma);

    ipa_prove(&scalars, &bases1, &bases2, &target, &sigma, &mut transcript).unwrap();

    transcript.finalize()
}

#[test]
fn forged_aggregate_for_false_public_inputs_is_rejected() {
    const NB_PROOFS: usize = 1;
    let mut rng = ChaCha8Rng::from_seed([20u8; 32]);

    let mut srs = ParamsKZG::unsafe_setup(15, &mut rng);
    let mut inner_srs = srs.clone();
    midnight_zk_stdlib::downsize_srs_for_relation(&mut inner_srs, &InnerCircuit);
    let inner_vk = midnight_zk_stdlib::setup_vk(&inner_srs, &InnerCircuit);
    let inner_pk = midnight_zk_stdlib::setup_pk(&InnerCircuit, &inner_vk);

    let aggregator = LightAggregator::<NB_PROOFS>::init(&mut srs, inner_vk.vk())
        .expect("Failed to init the aggregator");

    // A true statement and an honest proof of it.
    let witness = [F::random(&mut rng), F::random(&mut rng)];
    let true_instance = [
        <PoseidonChip<F> as HashCPU<F, F>>::hash(&witness),
        <PoseidonChip<F> as HashCPU<F, F>>::hash(&witness[1..]),
    ];
    let honest_proof = midnight_zk_stdlib::prove::<InnerCircuit, LightPoseidonFS<F>>(
        &inner_srs,
        &inner_pk,
        &InnerCircuit,
        &true_instance,
        witness,
        &mut rng,
    )
    .expect("Problem creating an inner proof");

    // Control: the honest flow works, and the honest aggregated proof is refused for other
    // public inputs (so the expectations of this test are the right ones).
    let false_instance = vec![F::from(1), F::from(2)];
    {
        let mut transcript = CircuitTranscript::<Blake2bState>::init();
        aggregator
            .aggregate_proofs(
                &srs,
                &[true_instance.to_vec()],
                &[honest_proof.clone()],
                &mut rng,
                &mut transcript,
            )
            .unwrap();
        let meta_proof = transcript.finalize();

        let mut transcript = CircuitTranscript::<Blake2bState>::init_from_bytes(&meta_proof);
        assert!(aggregator
            .verify(&srs.verifier_params(), &[true_instance.to_vec()], &mut transcript)
            .is_ok());

        let mut transcript = CircuitTranscript::<Blake2bState>::init_from_bytes(&meta_proof);
        assert!(aggregator
            .verify(&srs.verifier_params(), &[false_instance.clone()], &mut transcript)
            .is_err());
    }

    // The forgery: an aggregated proof for public inputs [1, 2], for which the prover has no valid
    // inner proof.
    let forged = forge(&aggregator, &srs, &false_instance, &honest_proof, &mut rng);

    let mut transcript = CircuitTranscript::<Blake2bState>::init_from_bytes(&forged);
    let res = aggregator.verify(&srs.verifier_params(), &[false_instance.clone()], &mut transcript);
    println!("verify(forged aggregated proof, false public inputs) = {res:?}");
    assert!(
        res.is_err(),
        "LightAggregator::verify ACCEPTED an aggregated proof whose only inner proof is invalid \
         for the stated public inputs"
    );
}
