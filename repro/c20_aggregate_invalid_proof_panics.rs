// C20 hunt -- defect 3: `LightAggregator::aggregate_proofs` PANICS on an invalid inner proof,
// although its documentation promises an error:
//
//     /// # Errors
//     ///
//     /// If some of the provided proofs are invalid.
//
// The function returns `Result<(), Error>`; a well-formed inner proof that does not verify for
// its stated public inputs (here: a valid proof presented with another public input) reaches
// `assert!(dual_msm.clone().check(&srs.verifier_params()))` and aborts the caller instead of
// returning `Err(_)`. A service that aggregates proofs received from third parties can therefore
// be crashed by a single bad proof. (A malformed proof, e.g. a truncated one, does give `Err`.)
//
// WHERE IT BELONGS
//   `LightPoseidonFS` (needed to create inner proofs) is private to the crate, so this is a
//   `#[cfg(test)]` child module of `aggregator/src/light_aggregator.rs`. Hook it by appending
//   these three lines at the very end of `aggregator/src/light_aggregator.rs`:
//
//       #[cfg(test)]
//       #[path = "../../_hunt/c20_aggregate_invalid_proof_panics.rs"]
//       mod hunt_c20_aggregate_invalid_proof_panics;
//
// HOW TO RUN
//   CARGO_TARGET_DIR=/tmp/hunt-C20/target cargo test --offline -j 4 -p midnight-aggregator \
//       hunt_c20_aggregate_invalid_proof_panics -- --nocapture

use std::panic::{catch_unwind, AssertUnwindSafe};

use blake2b_simd::State as Blake2bState;
use ff::Field;
use midnight_circuits::{
    hash::poseidon::PoseidonChip,
    instructions::{hash::HashCPU, AssignmentInstructions},
};
use midnight_zk_stdlib::{Relation, ZkStdLib, ZkStdLibArch};
use rand::SeedableRng;
use rand_chacha::ChaCha8Rng;

use super::*;

/// Same inner relation as the crate's own round-trip test.
#[derive(Clone, Default)]
struct InnerCircuit;

impl Relation for InnerCircuit {
    type Instance = [F; 2];
    type Witness = [F; 2];

    fn format_instance(instance: &Self::Instance) -> Result<Vec<F>, Error> {
        Ok(instance.to_vec())
    }

    fn circuit(
        &self,
        std_lib: &ZkStdLib,
        layouter: &mut impl Layouter<F>,
        _instance: Value<Self::Instance>,
        witness: Value<Self::Witness>,
    ) -> Result<(), Error> {
        let assigned_message = std_lib.assign_many(layouter, &witness.transpose_array())?;
        let output1 = std_lib.poseidon(layouter, &assigned_message)?;
        let output2 = std_lib.poseidon(layouter, &assigned_message[1..])?;
        std_lib.constrain_as_public_input(layouter, &output1)?;
        std_lib.constrain_as_public_input(layouter, &output2)
    }

    fn used_chips(&self) -> ZkStdLibArch {
        ZkStdLibArch {
            jubjub: true,
            poseidon: true,
            sha2_256: true,
            nr_pow2range_cols: 4,
            ..ZkStdLibArch::default()
        }
    }

    fn write_relation<W: std::io::Write>(&self, _writer: &mut W) -> std::io::Result<()> {
        Ok(())
    }

    fn read_relation<R: std::io::Read>(_reader: &mut R) -> std::io::Result<Self> {
        Ok(InnerCircuit)
    }
}

#[test]
fn aggregating_an_invalid_inner_proof_returns_an_error() {
    const NB_PROOFS: usize = 1;
    let mut rng = ChaCha8Rng::from_seed([22u8; 32]);

    let mut srs = ParamsKZG::unsafe_setup(15, &mut rng);
    let mut inner_srs = srs.clone();
    midnight_zk_stdlib::downsize_srs_for_relation(&mut inner_srs, &InnerCircuit);
    let inner_vk = midnight_zk_stdlib::setup_vk(&inner_srs, &InnerCircuit);
    let inner_pk = midnight_zk_stdlib::setup_pk(&InnerCircuit, &inner_vk);

    let aggregator = LightAggregator::<NB_PROOFS>::init(&mut srs, inner_vk.vk())
        .expect("Failed to init the aggregator");

    let witness = [F::random(&mut rng), F::random(&mut rng)];
    let instance = [
        <PoseidonChip<F> as HashCPU<F, F>>::hash(&witness),
        <PoseidonChip<F> as HashCPU<F, F>>::hash(&witness[1..]),
    ];
    let proof = midnight_zk_stdlib::prove::<InnerCircuit, LightPoseidonFS<F>>(
        &inner_srs,
        &inner_pk,
        &InnerCircuit,
        &instance,
        witness,
        &mut rng,
    )
    .expect("Problem creating an inner proof");

    // Control 1: the valid pair is aggregated without error.
    let mut transcript = CircuitTranscript::<Blake2bState>::init();
    aggregator
        .aggregate_proofs(&srs, &[instance.to_vec()], &[proof.clone()], &mut rng, &mut transcript)
        .expect("valid inner proof");

    // Control 2: a malformed (truncated) proof gives an error, as documented.
    let mut transcript = CircuitTranscript::<Blake2bState>::init();
    let res = aggregator.aggregate_proofs(
        &srs,
        &[instance.to_vec()],
        &[proof[..proof.len() / 2].to_vec()],
        &mut rng,
        &mut transcript,
    );
    assert!(res.is_err());

    // A well-formed proof that is invalid for its stated public inputs.
    let wrong_instance = vec![instance[0], instance[1] + F::ONE];
    let outcome = catch_unwind(AssertUnwindSafe(|| {
        let mut transcript = CircuitTranscript::<Blake2bState>::init();
        aggregator.aggregate_proofs(
            &srs,
            &[wrong_instance.clone()],
            &[proof.clone()],
            &mut rng,
            &mut transcript,
        )
    }));

    match outcome {
        Ok(res) => assert!(res.is_err(), "an invalid inner proof was aggregated"),
        Err(_) => panic!(
            "aggregate_proofs PANICKED on an invalid inner proof; its documentation promises an \
             `Err` (\"# Errors: If some of the provided proofs are invalid\")"
        ),
    }
}
