// C16 / defect 1: `ZkirRelation::read_relation` (zkir/src/zkir.rs) decodes an
// IR program with `bincode::config::standard()`, which has NO size limit.
// bincode then executes `Vec::with_capacity(len)` (and `vec![0u8; len]` for the
// strings) with `len` taken verbatim from the untrusted length prefix, before a
// single element has been read. A ten-byte input therefore makes the decoder
// panic ("capacity overflow") or, for lengths that do not overflow, request
// `len * size_of::<Instruction>()` bytes from the allocator and abort the
// process when the allocation fails.
//
// Expected: `read_relation` returns an `io::Error` on such input (the function
// returns `io::Result`), e.g. by decoding with
// `bincode::config::standard().with_limit::<N>()`.
//
// Belongs to: zkir/tests/c16_d1_read_relation_alloc.rs
// Run with:
//   cp _hunt/c16_d1_read_relation_alloc.rs zkir/tests/
//   CARGO_TARGET_DIR=/tmp/hunt-C16/target cargo test --offline -j 4 \
//     -p midnight-zkir --test c16_d1_read_relation_alloc

use std::panic::{catch_unwind, AssertUnwindSafe};

use midnight_zk_stdlib::Relation;
use midnight_zkir::{Instruction, IrType, Operation, ZkirRelation};

fn decode(bytes: &[u8]) -> std::thread::Result<std::io::Result<()>> {
    catch_unwind(AssertUnwindSafe(|| {
        ZkirRelation::read_relation(&mut &bytes[..]).map(|_| ())
    }))
}

/// Sanity: what the encoder produces is read back (so that the test does not
/// fail because of a wrong use of the API).
#[test]
fn honest_program_round_trips() {
    let relation = ZkirRelation::from_instructions(&[Instruction {
        operation: Operation::Load(IrType::Native),
        inputs: vec![],
        outputs: vec!["x".into()],
    }])
    .unwrap();
    let mut bytes = vec![];
    relation.write_relation(&mut bytes).unwrap();
    assert!(matches!(decode(&bytes), Ok(Ok(()))));
    // A truncated program is an error, as it should.
    assert!(matches!(decode(&bytes[..bytes.len() - 1]), Ok(Err(_))));
}

/// The number of instructions is a bincode varint: the marker 253 announces a
/// little-endian u64. With 2^64 - 1 instructions announced (and none present),
/// the decoder must fail with an error.
#[test]
fn huge_instruction_count_is_an_error_not_a_panic() {
    let mut bytes = vec![253u8];
    bytes.extend_from_slice(&u64::MAX.to_le_bytes());

    let res = decode(&bytes);
    assert!(
        matches!(res, Ok(Err(_))),
        "read_relation did not return an error on a 9-byte program announcing 2^64-1 \
         instructions: it {}",
        if res.is_err() { "panicked" } else { "succeeded" }
    );
}

/// Same defect one level down: the length of the `inputs` vector of the first
/// instruction (here an `assert_equal`, variant index 2) is not checked either.
#[test]
fn huge_input_count_is_an_error_not_a_panic() {
    // 1 instruction; operation = variant 2 (AssertEqual); inputs: 2^63 strings.
    let mut bytes = vec![1u8, 2u8, 253u8];
    bytes.extend_from_slice(&(1u64 << 63).to_le_bytes());

    let res = decode(&bytes);
    assert!(
        matches!(res, Ok(Err(_))),
        "read_relation did not return an error on a program whose first instruction \
         announces 2^63 inputs: it {}",
        if res.is_err() { "panicked" } else { "succeeded" }
    );
}
