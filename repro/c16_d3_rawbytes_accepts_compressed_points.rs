// C16 / defect 3: the checked `RawBytes` format accepts G1 encodings that are
// not raw encodings at all.
//
// `SerdeFormat::RawBytes` reads a 96-byte *uncompressed* point through
// `G1Affine::read_raw` -> `G1Affine::from_uncompressed` (curves/src/bls12_381/g1.rs),
// which calls `blst_p1_deserialize` and then only checks `is_on_curve()`.
// `blst_p1_deserialize` however dispatches on the flag bits of the first byte:
// when the compression bit (0x80) is set it decodes the first 48 bytes as a
// *compressed* point and never looks at the remaining 48 bytes. Consequently a
// verifying key (or `ParamsVerifierKZG`, proving key, ...) in `RawBytes` format
//   * may contain compressed points that are outside the prime-order subgroup
//     (the subgroup check of the compressed decoder, `from_compressed`, is
//     bypassed), and
//   * is malleable: 48 bytes per commitment are ignored, so 2^384 different
//     byte strings per commitment decode to the same key, and the key does not
//     re-serialise to the bytes it was read from.
//
// Expected: the checked raw decoder rejects an encoding whose compression flag
// is set (it has the wrong form for this format); at the very least it must
// apply the subgroup check to it and not ignore half of the input.
//
// Belongs to: zk_stdlib/tests/c16_d3_rawbytes_accepts_compressed_points.rs
// Run with:
//   cp _hunt/c16_d3_rawbytes_accepts_compressed_points.rs zk_stdlib/tests/
//   CARGO_TARGET_DIR=/tmp/hunt-C16/target cargo test --offline -j 4 \
//     -p midnight-zk-stdlib --test c16_d3_rawbytes_accepts_compressed_points

use group::GroupEncoding;
use midnight_circuits::instructions::{
    ArithInstructions, AssertionInstructions, AssignmentInstructions, PublicInputInstructions,
};
use midnight_curves::{serde::SerdeObject, G1Affine};
use midnight_proofs::{
    circuit::{Layouter, Value},
    plonk::Error,
    poly::kzg::params::ParamsKZG,
    utils::SerdeFormat,
};
use midnight_zk_stdlib::{MidnightCircuit, MidnightVK, Relation, ZkStdLib, ZkStdLibArch};
use rand::{rngs::StdRng, SeedableRng};

type F = midnight_curves::Fq;

/// A compressed encoding (flag 0x80) of a point of E(Fp) that is NOT in the
/// prime-order subgroup G1, found by scanning small x coordinates.
fn compressed_point_outside_the_subgroup() -> [u8; 48] {
    for x in 1u8..=255 {
        let mut repr = <G1Affine as GroupEncoding>::Repr::default();
        repr.as_mut()[47] = x; // big-endian x coordinate
        repr.as_mut()[0] = 0x80; // compressed, not infinity, smallest y

        // The unchecked decoder only checks that x is the abscissa of a point.
        let Some(p): Option<G1Affine> = G1Affine::from_bytes_unchecked(&repr).into() else {
            continue;
        };
        if bool::from(p.is_torsion_free()) {
            continue;
        }
        // The checked compressed decoder (used by `Processed`) rejects it.
        assert!(bool::from(G1Affine::from_bytes(&repr).is_none()));
        return repr.as_ref().try_into().unwrap();
    }
    panic!("no suitable point found (test construction problem)")
}

#[test]
fn raw_g1_decoder_rejects_compressed_encodings() {
    let compressed = compressed_point_outside_the_subgroup();

    let mut raw = [0xAAu8; 96];
    raw[..48].copy_from_slice(&compressed);

    let res = G1Affine::read_raw(&mut &raw[..]);
    assert!(
        res.is_err(),
        "G1Affine::read_raw accepted a compressed point outside the subgroup followed by \
         48 bytes of garbage"
    );
}

#[derive(Clone)]
struct DummyCircuit;

impl Relation for DummyCircuit {
    type Instance = F;
    type Witness = F;

    fn format_instance(x: &Self::Instance) -> Result<Vec<F>, Error> {
        Ok(vec![*x])
    }

    fn circuit(
        &self,
        std_lib: &ZkStdLib,
        layouter: &mut impl Layouter<F>,
        instance: Value<Self::Instance>,
        witness: Value<Self::Witness>,
    ) -> Result<(), Error> {
        let instance = std_lib.assign_as_public_input(layouter, instance)?;
        let witness = std_lib.assign(layouter, witness)?;
        let x = std_lib.mul(layouter, &witness, &witness, None)?;
        std_lib.assert_equal(layouter, &instance, &x)
    }

    fn used_chips(&self) -> ZkStdLibArch {
        ZkStdLibArch::default()
    }

    fn write_relation<W: std::io::Write>(&self, _writer: &mut W) -> std::io::Result<()> {
        Ok(())
    }

    fn read_relation<R: std::io::Read>(_reader: &mut R) -> std::io::Result<Self> {
        Ok(DummyCircuit)
    }
}

#[test]
fn raw_verifying_key_rejects_compressed_commitments() {
    let relation = DummyCircuit;
    let k = MidnightCircuit::from_relation(&relation).min_k();
    let srs = ParamsKZG::unsafe_setup(k, StdRng::seed_from_u64(1));
    let vk = midnight_zk_stdlib::setup_vk(&srs, &relation);

    let mut bytes = vec![];
    vk.write(&mut bytes, SerdeFormat::RawBytes).unwrap();
    // Sanity: the honest key decodes and re-encodes to the same bytes.
    let vk2 = MidnightVK::read(&mut &bytes[..], SerdeFormat::RawBytes).unwrap();
    let mut bytes2 = vec![];
    vk2.write(&mut bytes2, SerdeFormat::RawBytes).unwrap();
    assert_eq!(bytes, bytes2);

    // Layout: architecture (16 bytes) | max_bit_len (1) | nb_public_inputs (4) |
    // version (1) | k (1) | number of fixed commitments (4) | commitments (96 each).
    const FIRST_COMMITMENT: usize = 27;
    let mut forged = bytes.clone();
    forged[FIRST_COMMITMENT..FIRST_COMMITMENT + 48]
        .copy_from_slice(&compressed_point_outside_the_subgroup());
    forged[FIRST_COMMITMENT + 48..FIRST_COMMITMENT + 96].copy_from_slice(&[0xAA; 48]);

    let res = MidnightVK::read(&mut &forged[..], SerdeFormat::RawBytes);
    assert!(
        res.is_err(),
        "MidnightVK::read(RawBytes) accepted a key whose first fixed commitment is a \
         compressed point outside the subgroup followed by 48 ignored bytes"
    );
}
