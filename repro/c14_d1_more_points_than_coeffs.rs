// C14 hunt, defect 1: `multi_open` panics (integer underflow in `kate_division`) when a
// polynomial is opened at more points than it has coefficients.
//
// Where it belongs: copy to  proofs/tests/c14_d1_more_points_than_coeffs.rs
// How to run:
//   CARGO_TARGET_DIR=/tmp/hunt-C14/target cargo test --offline -j 4 -p midnight-proofs \
//       --test c14_d1_more_points_than_coeffs
//
// Uses only the public API of midnight-proofs.

use blake2b_simd::State as Blake2bState;
use ff::Field;
use midnight_curves::{Bls12, Fq, G1Projective};
use midnight_proofs::{
    poly::{
        commitment::{Guard, PolynomialCommitmentScheme},
        kzg::{params::ParamsKZG, KZGCommitmentScheme},
        Coeff, CommitmentLabel, Polynomial, ProverQuery, VerifierQuery,
    },
    transcript::{CircuitTranscript, Transcript},
    utils::arithmetic::eval_polynomial,
};
use rand_chacha::ChaCha8Rng;
use rand_core::SeedableRng;

type Scheme = KZGCommitmentScheme<Bls12>;
type T = CircuitTranscript<Blake2bState>;
type Poly = Polynomial<Fq, Coeff>;

/// Opens `polys[p]` at `points[x]` for every `(p, x)` in `queries`, and verifies the proof
/// against the true evaluations. Returns whether the verifier accepted.
fn roundtrip(
    params: &ParamsKZG<Bls12>,
    polys: &[Poly],
    points: &[Fq],
    queries: &[(usize, usize)],
) -> bool {
    let coms: Vec<G1Projective> = polys.iter().map(|p| Scheme::commit(params, p)).collect();

    let mut tr = T::init();
    let pq: Vec<_> = queries.iter().map(|&(p, x)| ProverQuery::new(points[x], &polys[p])).collect();
    Scheme::multi_open(params, &pq, &mut tr).expect("multi_open must succeed on a valid query set");
    let proof = tr.finalize();

    let mut tr = T::init_from_bytes(&proof);
    let vq: Vec<_> = queries
        .iter()
        .map(|&(p, x)| {
            VerifierQuery::<Fq, Scheme>::new(
                points[x],
                CommitmentLabel::NoLabel,
                &coms[p],
                eval_polynomial(&polys[p], points[x]),
            )
        })
        .collect();
    let guard = Scheme::multi_prepare(&vq, &mut tr).expect("multi_prepare");
    guard.verify(&params.verifier_params()).is_ok()
}

fn setup(k: u32, npolys: usize) -> (ParamsKZG<Bls12>, Vec<Poly>, Vec<Fq>) {
    let mut rng = ChaCha8Rng::seed_from_u64(0xC14);
    let params = ParamsKZG::<Bls12>::unsafe_setup(k, &mut rng);
    let polys = (0..npolys)
        .map(|_| {
            let mut p = Poly::init(1 << k);
            p.iter_mut().for_each(|c| *c = Fq::random(&mut rng));
            p
        })
        .collect();
    let points = (0..5).map(|_| Fq::random(&mut rng)).collect();
    (params, polys, points)
}

/// Control: k = 2 (4 coefficients), one polynomial opened at 4 distinct points. Passes.
#[test]
fn k2_one_poly_four_points_control() {
    let (params, polys, points) = setup(2, 1);
    assert!(roundtrip(&params, &polys, &points, &[(0, 0), (0, 1), (0, 2), (0, 3)]));
}

/// k = 2 (degree < 4), one polynomial opened at 5 distinct points: a perfectly valid query
/// set of the property (k=2..7, 1..5 points). The quotient q(X) / prod (X - x_i) is simply the
/// zero polynomial, the proof must be produced and must verify.
/// On the unchanged code `multi_open` panics in `kate_division` ("attempt to subtract with
/// overflow", arithmetic.rs:102; a capacity-overflow panic in release builds).
#[test]
fn k2_one_poly_five_points() {
    let (params, polys, points) = setup(2, 1);
    assert!(roundtrip(&params, &polys, &points, &[(0, 0), (0, 1), (0, 2), (0, 3), (0, 4)]));
}

/// Same with several polynomials, only one of which is opened at all 5 points.
#[test]
fn k2_three_polys_one_at_five_points() {
    let (params, polys, points) = setup(2, 3);
    let queries = [(0, 0), (1, 0), (1, 1), (1, 2), (1, 3), (1, 4), (2, 4)];
    assert!(roundtrip(&params, &polys, &points, &queries));
}
