// C02 hunt, defect 1: the verifier does not bound the length of the (plain) instance columns,
// and `EvaluationDomain::l_i_range` wraps indices modulo n. A public-input vector with an entry
// at index n is therefore folded onto row 0: the verifier accepts a proof for the statement
// P = [5, 0, ..., 0, 7] (n + 1 entries) although the circuit ties P[0] to a witness equal to 12.
//
// Where it belongs: proofs/tests/c02_instance_alias.rs (integration test, public API only).
// How to run:
//   cp _hunt/c02_instance_alias.rs proofs/tests/ &&
//   CARGO_TARGET_DIR=/tmp/hunt-C02/target cargo test --offline -j 4 -p midnight-proofs \
//       --test c02_instance_alias
//
// The only "malicious" ingredient is a `Transcript` implementation (the trait is public and the
// prover is generic over it) that absorbs the statement the verifier will be given instead of the
// one the honest prover function was called with. Everything else is the unchanged library.

use blake2b_simd::State;
use ff::Field;
use midnight_curves::{Bls12, Fq};
use midnight_proofs::{
    circuit::{Layouter, SimpleFloorPlanner, Value},
    dev::MockProver,
    plonk::{
        create_proof, keygen_pk, keygen_vk_with_k, prepare, Advice, Circuit, Column,
        ConstraintSystem, Constraints, Error, Instance, ProvingKey, Selector,
    },
    poly::{
        commitment::Guard,
        kzg::{params::ParamsKZG, KZGCommitmentScheme},
        Rotation,
    },
    transcript::{CircuitTranscript, Hashable, Sampleable, Transcript},
};
use rand_core::OsRng;

const K: u32 = 4;
type Scheme = KZGCommitmentScheme<Bls12>;

#[derive(Clone)]
struct Cfg {
    a: Column<Advice>,
    b: Column<Advice>,
    pi: Column<Instance>,
    s: Selector,
}

/// Statement: "I know `a` such that `a == pi[0]`" (plus `b = a * a`, to have a custom gate).
#[derive(Clone)]
struct PiCircuit {
    a: Value<Fq>,
}

impl Circuit<Fq> for PiCircuit {
    type Config = Cfg;
    type FloorPlanner = SimpleFloorPlanner;
    #[cfg(feature = "circuit-params")]
    type Params = ();

    fn without_witnesses(&self) -> Self {
        PiCircuit { a: Value::unknown() }
    }

    fn configure(meta: &mut ConstraintSystem<Fq>) -> Cfg {
        let a = meta.advice_column();
        let b = meta.advice_column();
        let pi = meta.instance_column();
        let s = meta.selector();
        meta.enable_equality(a);
        meta.enable_equality(pi);
        meta.create_gate("square", |m| {
            let a = m.query_advice(a, Rotation::cur());
            let b = m.query_advice(b, Rotation::cur());
            Constraints::with_selector(s, vec![a.clone() * a - b])
        });
        Cfg { a, b, pi, s }
    }

    fn synthesize(&self, cfg: Cfg, mut layouter: impl Layouter<Fq>) -> Result<(), Error> {
        let a_cell = layouter.assign_region(
            || "r",
            |mut region| {
                cfg.s.enable(&mut region, 0)?;
                let a = region.assign_advice(|| "a", cfg.a, 0, || self.a)?;
                region.assign_advice(|| "b", cfg.b, 0, || self.a.map(|a| a * a))?;
                Ok(a)
            },
        )?;
        layouter.constrain_instance(a_cell.cell(), cfg.pi, 0)
    }
}

/// A transcript that behaves like `CircuitTranscript`, except that the statement absorbed with
/// `common` right after the verifying key (length of the instance column, then its single value)
/// is replaced by `fake_statement`.
#[derive(Clone)]
struct ForgingTranscript {
    inner: CircuitTranscript<State>,
    nb_commons: usize,
    fake_statement: Vec<Fq>,
}

impl Transcript for ForgingTranscript {
    type Hash = State;

    fn init() -> Self {
        unreachable!()
    }
    fn init_from_bytes(_: &[u8]) -> Self {
        unreachable!()
    }
    fn squeeze_challenge<T: Sampleable<State>>(&mut self) -> T {
        self.inner.squeeze_challenge()
    }
    fn common<T: Hashable<State>>(&mut self, input: &T) -> std::io::Result<()> {
        let i = self.nb_commons;
        self.nb_commons += 1;
        match i {
            // 0: the verifying key.
            0 => self.inner.common(input),
            // 1: the length of the instance column -> absorb the whole fake statement instead.
            1 => {
                let fake = self.fake_statement.clone();
                fake.iter().try_for_each(|v| self.inner.common(v))
            }
            // 2: the (single) true value of the instance column -> skipped.
            2 => Ok(()),
            _ => self.inner.common(input),
        }
    }
    fn read<T: Hashable<State>>(&mut self) -> std::io::Result<T> {
        self.inner.read()
    }
    fn write<T: Hashable<State>>(&mut self, input: &T) -> std::io::Result<()> {
        self.inner.write(input)
    }
    fn finalize(self) -> Vec<u8> {
        self.inner.finalize()
    }
    fn assert_empty(&mut self) -> std::io::Result<()> {
        self.inner.assert_empty()
    }
}

fn verify(
    params: &ParamsKZG<Bls12>,
    pk: &ProvingKey<Fq, Scheme>,
    statement: &[Fq],
    proof: &[u8],
) -> bool {
    let mut transcript = CircuitTranscript::<State>::init_from_bytes(proof);
    let guard = prepare::<Fq, Scheme, _>(
        pk.get_vk(),
        #[cfg(feature = "committed-instances")]
        &[&[]],
        &[&[statement]],
        &mut transcript,
    );
    match guard {
        Err(_) => false,
        Ok(guard) => {
            transcript.assert_empty().is_ok() && guard.verify(&params.verifier_params()).is_ok()
        }
    }
}

#[test]
fn verifier_folds_an_over_long_public_input_onto_row_zero() {
    let n = 1usize << K;
    let params = ParamsKZG::<Bls12>::unsafe_setup(K, OsRng);
    let empty = PiCircuit { a: Value::unknown() };
    let vk = keygen_vk_with_k::<Fq, Scheme, _>(&params, &empty, K).unwrap();
    let pk = keygen_pk(vk, &empty).unwrap();

    let witness = Fq::from(12);
    let circuit = PiCircuit { a: Value::known(witness) };

    // --- Sanity: the honest flow works and the public input is enforced. -------------------
    let honest_proof = |statement: &[Fq]| {
        let mut t = CircuitTranscript::<State>::init();
        create_proof::<Fq, Scheme, _, _>(
            &params,
            &pk,
            &[circuit.clone()],
            #[cfg(feature = "committed-instances")]
            0,
            &[&[statement]],
            OsRng,
            &mut t,
        )
        .map(|_| t.finalize())
    };
    let good = honest_proof(&[witness]).unwrap();
    assert!(verify(&params, &pk, &[witness], &good));
    assert!(MockProver::run(K, &circuit, vec![vec![witness]]).unwrap().verify().is_ok());

    // a = 12 but pi[0] = 5: the copy constraint to the public input is violated; both the mock
    // checker and the verifier reject.
    let five = Fq::from(5);
    assert!(MockProver::run(K, &circuit, vec![vec![five]]).unwrap().verify().is_err());
    let bad = honest_proof(&[five]).unwrap();
    assert!(!verify(&params, &pk, &[five], &bad));

    // --- The forgery. -----------------------------------------------------------------------
    // Statement handed to the verifier: n + 1 public inputs, pi[0] = 5, pi[n] = 7, zero elsewhere.
    let mut forged_statement = vec![Fq::ZERO; n + 1];
    forged_statement[0] = five;
    forged_statement[n] = Fq::from(7);
    assert_ne!(forged_statement[0], witness);

    // The prover and the mock checker both refuse such a statement (it does not fit in the usable
    // rows, a fortiori not in the domain).
    assert!(matches!(honest_proof(&forged_statement), Err(Error::InstanceTooLarge)));

    // The prover is run on the true row-0 value 12 = 5 + 7, but its transcript absorbs the forged
    // statement (length first, as `parse_trace` does).
    let mut fake = vec![Fq::from((n + 1) as u64)];
    fake.extend_from_slice(&forged_statement);
    let mut t = ForgingTranscript {
        inner: CircuitTranscript::<State>::init(),
        nb_commons: 0,
        fake_statement: fake,
    };
    create_proof::<Fq, Scheme, _, _>(
        &params,
        &pk,
        &[circuit.clone()],
        #[cfg(feature = "committed-instances")]
        0,
        &[&[&[witness]]],
        OsRng,
        &mut t,
    )
    .unwrap();
    let forged_proof = t.finalize();

    // Correct behaviour: the verifier rejects (pi[0] = 5 is tied to a witness equal to 12, and the
    // statement is longer than the number of usable rows: `Error::InstanceTooLarge`).
    assert!(
        !verify(&params, &pk, &forged_statement, &forged_proof),
        "the verifier ACCEPTED a proof for the public inputs [5, 0, ..., 0, 7] (n + 1 entries) \
         although the circuit forces pi[0] to equal the witness 12"
    );
}
