//! msm_best must return sum(scalar_i * base_i) also when a base is the identity, for every length
//! (the batch-affine path of msm_best is taken from 8104 bases on).
use ff::Field;
use group::{prime::PrimeCurveAffine, Curve, Group};
use midnight_curves::{msm::msm_best, Fq, G1Affine, G1Projective};
use rand_core::SeedableRng;

fn naive(coeffs: &[Fq], bases: &[G1Affine]) -> G1Projective {
    coeffs.iter().zip(bases).fold(G1Projective::identity(), |acc, (c, b)| acc + *b * *c)
}

#[test]
fn msm_best_with_identity_bases() {
    let mut rng = rand_xorshift::XorShiftRng::seed_from_u64(12);
    for n in [40usize, 8000, 8200] {
        let g = G1Projective::random(&mut rng).to_affine();
        // few distinct bases are enough: the point is the identity among them
        let mut bases: Vec<G1Affine> = (0..n).map(|i| if i % 2 == 0 { g } else { (g + g).to_affine() }).collect();
        let mut coeffs: Vec<Fq> = (0..n).map(|_| Fq::random(&mut rng)).collect();
        coeffs[5] = Fq::ZERO;
        coeffs[6] = -Fq::ONE;
        coeffs[n - 1] = -Fq::ONE;
        bases[3] = G1Affine::identity();
        bases[n - 1] = G1Affine::identity();
        assert_eq!(msm_best(&coeffs, &bases), naive(&coeffs, &bases), "n = {n}");
    }
}
