// Reproduction (property C07): the variable-length Poseidon gadget must output the reference digest of the payload whatever the prover puts in
// the unused (filler) cells of the AssignedVector.  Belongs at circuits/tests/c07_poseidon_varlen_filler.rs; run:
//   cargo test --offline -p midnight-circuits --features testing --test c07_poseidon_varlen_filler
// Before the fix the branch `i == MAX_LEN / RATE` of poseidon_varlen is dead (chunks().enumerate() stops at MAX_LEN / RATE - 1), so
// constrain_last_chunk never runs: for an odd payload length the filler cell after the payload in the last chunk enters the digest.
#![cfg(feature = "testing")]

use std::marker::PhantomData;

use ff::{Field, FromUniformBytes};
use midnight_circuits::{
    field::{decomposition::chip::P2RDecompositionChip, NativeChip, NativeGadget},
    hash::poseidon::VarLenPoseidonGadget,
    instructions::{hash::{HashCPU, VarHashInstructions}, AssertionInstructions, VectorInstructions},
    midnight_proofs::{
        circuit::{Layouter, SimpleFloorPlanner, Value},
        dev::MockProver,
        plonk::{Circuit, ConstraintSystem, Error},
    },
    testing_utils::FromScratch,
    types::{AssignedNative, AssignedVector},
    vec::vector_gadget::VectorGadget,
    CircuitField,
};

type F = midnight_curves::Fq;
type NG<F> = NativeGadget<F, P2RDecompositionChip<F>, NativeChip<F>>;
const M: usize = 8;

#[derive(Clone, Debug)]
struct VarPoseidonCircuit<F: CircuitField> {
    payload: Vec<F>,
    filler: F,
    expected: F,
    _marker: PhantomData<F>,
}

impl Circuit<F> for VarPoseidonCircuit<F> {
    type Config = (
        <VarLenPoseidonGadget<F> as FromScratch<F>>::Config,
        <VectorGadget<F> as FromScratch<F>>::Config,
    );
    type FloorPlanner = SimpleFloorPlanner;
    type Params = ();

    fn without_witnesses(&self) -> Self {
        unreachable!()
    }

    fn configure(meta: &mut ConstraintSystem<F>) -> Self::Config {
        let committed_instance_column = meta.instance_column();
        let instance_column = meta.instance_column();
        let instance_columns = [committed_instance_column, instance_column];
        (
            VarLenPoseidonGadget::configure_from_scratch(meta, &instance_columns),
            VectorGadget::configure_from_scratch(meta, &instance_columns),
        )
    }

    fn synthesize(&self, config: Self::Config, mut layouter: impl Layouter<F>) -> Result<(), Error> {
        let chip = VarLenPoseidonGadget::<F>::new_from_scratch(&config.0);
        let ng = <NG<F>>::new_from_scratch(&config.1);
        let vg = VectorGadget::new(&ng);
        // the filler cells are free witnesses
        let input: AssignedVector<F, AssignedNative<F>, M, 2> =
            vg.assign_with_filler(&mut layouter, Value::known(self.payload.clone()), Some(self.filler))?;
        let output: AssignedNative<F> = chip.varhash(&mut layouter, &input)?;
        ng.assert_equal_to_fixed(&mut layouter, &output, self.expected)?;
        chip.load_from_scratch(&mut layouter)?;
        ng.load_from_scratch(&mut layouter)
    }
}

fn check(len: usize, filler: F) -> Result<(), String>
where
    F: FromUniformBytes<64> + Ord,
{
    let payload: Vec<F> = (0..len).map(|i| F::from(1000 + i as u64)).collect();
    let expected = <VarLenPoseidonGadget<F> as HashCPU<F, F>>::hash(&payload);
    let circuit = VarPoseidonCircuit::<F> { payload, filler, expected, _marker: PhantomData };
    MockProver::run(14, &circuit, vec![vec![], vec![]])
        .unwrap()
        .verify()
        .map_err(|e| format!("len = {len}, filler = {filler:?}: {} failures, first: {:?}", e.len(), e[0]))
}

#[test]
fn controls_zero_filler_and_even_lengths() {
    for len in 0..=M {
        check(len, F::ZERO).unwrap();
    }
    for len in [0usize, 2, 4, 6, 8] {
        check(len, F::from(7)).unwrap();
    }
}

#[test]
fn odd_length_digest_is_independent_of_filler() {
    for len in [1usize, 3, 5, 7] {
        check(len, F::from(7)).unwrap();
    }
}
