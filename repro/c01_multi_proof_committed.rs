//! Reproduction: two proofs created together, one committed and one plain instance column.
#![cfg(feature = "committed-instances")]
use blake2b_simd::State;
use ff::Field;
use midnight_curves::{Bls12, Fq};
use midnight_proofs::{
    circuit::{Layouter, SimpleFloorPlanner, Value},
    plonk::{
        commit_to_instances, create_proof, keygen_pk, keygen_vk_with_k, prepare, Circuit, Column, ConstraintSystem, Error,
        Advice, Instance,
    },
    poly::{commitment::Guard, kzg::{params::ParamsKZG, KZGCommitmentScheme}},
    transcript::{CircuitTranscript, Transcript},
};
use rand_core::OsRng;

#[derive(Clone, Copy)]
struct C;
#[derive(Clone)]
struct Cfg { a: Column<Advice>, _i0: Column<Instance>, i1: Column<Instance> }

impl Circuit<Fq> for C {
    type Config = Cfg;
    type FloorPlanner = SimpleFloorPlanner;
    #[cfg(feature = "circuit-params")]
    type Params = ();
    fn without_witnesses(&self) -> Self { *self }
    fn configure(meta: &mut ConstraintSystem<Fq>) -> Cfg {
        let a = meta.advice_column();
        let i0 = meta.instance_column();
        let i1 = meta.instance_column();
        meta.enable_equality(a);
        meta.enable_equality(i1);
        Cfg { a, _i0: i0, i1 }
    }
    fn synthesize(&self, cfg: Cfg, mut layouter: impl Layouter<Fq>) -> Result<(), Error> {
        let cell = layouter.assign_region(|| "r", |mut region| region.assign_advice(|| "a", cfg.a, 0, || Value::known(Fq::from(7))))?;
        layouter.constrain_instance(cell.cell(), cfg.i1, 0)
    }
}

#[test]
fn two_proofs_with_committed_and_plain_instances_verify() {
    const K: u32 = 5;
    type S = KZGCommitmentScheme<Bls12>;
    let params: ParamsKZG<Bls12> = ParamsKZG::unsafe_setup(K, OsRng);
    let vk = keygen_vk_with_k::<_, S, _>(&params, &C, K).unwrap();
    let pk = keygen_pk(vk.clone(), &C).unwrap();
    let committed = [Fq::from(3), Fq::from(4)];
    let plain = [Fq::from(7)];
    let mut t = CircuitTranscript::<State>::init();
    create_proof::<Fq, S, _, _>(&params, &pk, &[C, C], 1, &[&[&committed, &plain], &[&committed, &plain]], OsRng, &mut t).expect("proof");
    let proof = t.finalize();
    let com = commit_to_instances::<Fq, S>(&params, vk.get_domain(), &committed);
    let mut t = CircuitTranscript::<State>::init_from_bytes(&proof);
    let guard = prepare::<Fq, S, _>(&vk, &[&[com], &[com]], &[&[&plain], &[&plain]], &mut t).expect("prepare");
    assert!(guard.verify(&params.verifier_params()).is_ok(), "honest two-proof transcript must verify");
}
