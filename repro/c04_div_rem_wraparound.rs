// Reproduction (property C04, recorded as a known finding): DivisionInstructions::div_rem with the DEFAULT dividend bound (None, i.e. p - 1) lays
// out   r < divisor,   q < (p-1)/divisor + 1,   dividend == divisor * q + r  (in the field).
// The largest value of divisor * q + r is (p - 1) - ((p-1) mod divisor) + divisor - 1 >= p, so the sum can wrap around p: for the dividend 0 and
// the divisor 2 the pair (q, r) = ((p-1)/2, 1) satisfies every constraint, i.e. a prover can show "0 is odd".
// This test lays out EXACTLY the constraints of div_rem (same public instructions, same bounds) with that forged witness and shows the mock
// prover accepts it.  Belongs at circuits/tests/c04_div_rem_wraparound.rs; run: cargo test --offline -p midnight-circuits --test c04_div_rem_wraparound
use ff::{Field, PrimeField};
use num_bigint::BigUint;

#[test]
fn forged_remainder_of_zero_by_two_is_accepted() {
    midnight_circuits::run_test_native_gadget!(chip, layouter, {
        let divisor = BigUint::from(2u64);
        let p_minus_1 = (-F::ONE).to_biguint();
        let q_strict_bound = (&p_minus_1 / &divisor) + BigUint::from(1u64);
        let half = F::from(2).invert().unwrap(); // (p+1)/2
        let forged_q = half - F::ONE; // (p-1)/2
        let forged_r = F::ONE;

        let dividend: AssignedNative<F> = chip.assign(&mut layouter, Value::known(F::ZERO))?;
        let r = chip.assign_lower_than_fixed(&mut layouter, Value::known(forged_r), &divisor)?;
        let q = chip.assign_lower_than_fixed(&mut layouter, Value::known(forged_q), &q_strict_bound)?;
        let sum = chip.linear_combination(&mut layouter, &[(F::from(2), q.clone()), (F::ONE, r.clone())], F::ZERO)?;
        chip.assert_equal(&mut layouter, &dividend, &sum)?;
        // the forged remainder of 0 by 2 is 1
        chip.assert_equal_to_fixed(&mut layouter, &r, F::ONE)?;
    });
}

#[test]
fn honest_div_rem_of_zero_by_two() {
    midnight_circuits::run_test_native_gadget!(chip, layouter, {
        let dividend: AssignedNative<F> = chip.assign(&mut layouter, Value::known(F::ZERO))?;
        let (q, r) = chip.div_rem(&mut layouter, &dividend, BigUint::from(2u64), None)?;
        chip.assert_equal_to_fixed(&mut layouter, &q, F::ZERO)?;
        chip.assert_equal_to_fixed(&mut layouter, &r, F::ZERO)?;
    });
}
