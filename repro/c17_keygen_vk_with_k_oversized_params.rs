// C17 hunt -- defect 1: `keygen_vk_with_k` accepts parameters that are LARGER than
// the requested domain and silently returns a verifying key that is not the key
// of the circuit (it rejects every honest proof).
//
// Where it belongs : proofs/tests/c17_keygen_vk_with_k_oversized_params.rs
//                    (integration test, public API only)
// How to run       : CARGO_TARGET_DIR=/tmp/hunt-C17/target cargo test --offline -j 4 \
//                      -p midnight-proofs --test c17_keygen_vk_with_k_oversized_params
//
// Expected behaviour: key generation is a function of (parameters-for-k, circuit).
// Given an SRS of size 2^(k+1) and a request for a domain of size 2^k,
// `keygen_vk_with_k` must either refuse the SRS (like `keygen_vk` does with
// `Error::SrsError`) or behave as if the SRS had been downsized to k, i.e. return
// exactly the key obtained from `params.downsize(k)`.
// Observed: it returns `Ok(vk)` whose fixed/permutation commitments were computed
// against the first 2^k elements of the Lagrange basis of the 2^(k+1) domain
// (`commit_lagrange` only asserts `g_lagrange.len() >= size`), which are not the
// Lagrange basis of the 2^k domain.

use blake2b_simd::State;
use ff::Field;
use midnight_curves::{Bls12, Fq as Scalar};
use midnight_proofs::{
    circuit::{Layouter, SimpleFloorPlanner, Value},
    plonk::{
        create_proof, k_from_circuit, keygen_pk, keygen_vk_with_k, prepare, Advice, Circuit,
        Column, ConstraintSystem, Constraints, Error, Fixed, Instance, ProvingKey, VerifyingKey,
    },
    poly::{
        commitment::{Guard, Params},
        kzg::{params::ParamsKZG, KZGCommitmentScheme},
        Rotation,
    },
    transcript::{CircuitTranscript, Transcript},
    utils::SerdeFormat,
};
use rand_chacha::ChaCha20Rng;
use rand_core::{OsRng, SeedableRng};

type Scheme = KZGCommitmentScheme<Bls12>;

#[derive(Clone, Copy)]
struct Cfg {
    a: Column<Advice>,
    b: Column<Advice>,
    c: Column<Advice>,
    q_a: Column<Fixed>,
    q_b: Column<Fixed>,
    q_c: Column<Fixed>,
    q_ab: Column<Fixed>,
    constant: Column<Fixed>,
    #[allow(dead_code)]
    instance: Column<Instance>,
}

/// The "standard PLONK" circuit of `proofs/examples/serialization.rs`.
#[derive(Clone, Default)]
struct StandardPlonk(Scalar);

impl Circuit<Scalar> for StandardPlonk {
    type Config = Cfg;
    type FloorPlanner = SimpleFloorPlanner;
    #[cfg(feature = "circuit-params")]
    type Params = ();

    fn without_witnesses(&self) -> Self {
        Self::default()
    }

    fn configure(meta: &mut ConstraintSystem<Scalar>) -> Cfg {
        let [a, b, c] = [(); 3].map(|_| meta.advice_column());
        let [q_a, q_b, q_c, q_ab, constant] = [(); 5].map(|_| meta.fixed_column());
        let instance = meta.instance_column();
        [a, b, c].iter().for_each(|column| meta.enable_equality(*column));
        meta.create_gate("q_a.a + q_b.b + q_c.c + q_ab.a.b + constant + instance = 0", |meta| {
            let [a, b, c] = [a, b, c].map(|column| meta.query_advice(column, Rotation::cur()));
            let [q_a, q_b, q_c, q_ab, constant] = [q_a, q_b, q_c, q_ab, constant]
                .map(|column| meta.query_fixed(column, Rotation::cur()));
            let instance = meta.query_instance(instance, Rotation::cur());
            Constraints::without_selector(vec![
                q_a * &a + q_b * &b + q_c * c + q_ab * a * b + constant + instance,
            ])
        });
        Cfg {
            a,
            b,
            c,
            q_a,
            q_b,
            q_c,
            q_ab,
            constant,
            instance,
        }
    }

    fn synthesize(&self, config: Cfg, mut layouter: impl Layouter<Scalar>) -> Result<(), Error> {
        layouter.assign_region(
            || "",
            |mut region| {
                // row 0:  -a + instance = 0
                region.assign_advice(|| "", config.a, 0, || Value::known(self.0))?;
                region.assign_fixed(|| "", config.q_a, 0, || Value::known(-Scalar::ONE))?;
                // row 1:  1*(-5) + 2*0 + 3*0 + 4*0 + 5 = 0
                region.assign_advice(|| "", config.a, 1, || Value::known(-Scalar::from(5u64)))?;
                for (idx, column) in (1..).zip([
                    config.q_a,
                    config.q_b,
                    config.q_c,
                    config.q_ab,
                    config.constant,
                ]) {
                    region.assign_fixed(
                        || "",
                        column,
                        1,
                        || Value::known(Scalar::from(idx as u64)),
                    )?;
                }
                let a = region.assign_advice(|| "", config.a, 2, || Value::known(Scalar::ONE))?;
                a.copy_advice(|| "", &mut region, config.b, 3)?;
                a.copy_advice(|| "", &mut region, config.c, 4)?;
                Ok(())
            },
        )
    }
}

fn prove(params: &ParamsKZG<Bls12>, pk: &ProvingKey<Scalar, Scheme>, x: Scalar) -> Vec<u8> {
    let mut transcript = CircuitTranscript::<State>::init();
    create_proof::<Scalar, Scheme, _, _>(
        params,
        pk,
        &[StandardPlonk(x)],
        #[cfg(feature = "committed-instances")]
        0,
        &[&[&[x]]],
        OsRng,
        &mut transcript,
    )
    .expect("proof generation should not fail");
    transcript.finalize()
}

fn verifies(
    params: &ParamsKZG<Bls12>,
    vk: &VerifyingKey<Scalar, Scheme>,
    x: Scalar,
    proof: &[u8],
) -> bool {
    let mut transcript = CircuitTranscript::<State>::init_from_bytes(proof);
    let Ok(guard) = prepare::<Scalar, Scheme, _>(
        vk,
        #[cfg(feature = "committed-instances")]
        &[&[]],
        &[&[&[x]]],
        &mut transcript,
    ) else {
        return false;
    };
    transcript.assert_empty().is_ok() && guard.verify(&params.verifier_params()).is_ok()
}

/// Sanity: with parameters of exactly the requested size everything works, and
/// downsized parameters are the parameters derived for k from the same secret.
#[test]
fn control_matching_params_work() {
    let x = Scalar::from(7);
    let circuit = StandardPlonk(x);
    let k = k_from_circuit(&circuit);

    let big = ParamsKZG::<Bls12>::unsafe_setup(k + 1, ChaCha20Rng::seed_from_u64(17));
    let mut small = big.clone();
    small.downsize(k);
    let fresh = ParamsKZG::<Bls12>::unsafe_setup(k, ChaCha20Rng::seed_from_u64(17));

    let vk_small = keygen_vk_with_k::<_, Scheme, _>(&small, &circuit, k).unwrap();
    let vk_fresh = keygen_vk_with_k::<_, Scheme, _>(&fresh, &circuit, k).unwrap();
    assert_eq!(
        vk_small.to_bytes(SerdeFormat::RawBytes),
        vk_fresh.to_bytes(SerdeFormat::RawBytes)
    );

    let pk = keygen_pk(vk_small.clone(), &circuit).unwrap();
    let proof = prove(&small, &pk, x);
    assert!(verifies(&small, &vk_small, x, &proof));
}

/// FAILS on the unchanged code: the oversized SRS is accepted and the key differs
/// from the key of the circuit.
#[test]
fn keygen_vk_with_k_on_oversized_params_is_refused_or_equals_downsized_keygen() {
    let circuit = StandardPlonk(Scalar::from(7));
    let k = k_from_circuit(&circuit);

    let big = ParamsKZG::<Bls12>::unsafe_setup(k + 1, ChaCha20Rng::seed_from_u64(17));
    assert_eq!(big.max_k(), k + 1);
    let mut small = big.clone();
    small.downsize(k);

    let reference = keygen_vk_with_k::<_, Scheme, _>(&small, &circuit, k).unwrap();

    match keygen_vk_with_k::<_, Scheme, _>(&big, &circuit, k) {
        // Refusing the mismatching SRS (as `keygen_vk` does) is fine.
        Err(_) => (),
        // Accepting it is fine only if the result is the key of the circuit.
        Ok(vk) => {
            assert_eq!(
                vk.transcript_repr(),
                reference.transcript_repr(),
                "keygen_vk_with_k(params of size 2^{}, circuit, k = {k}) returned Ok(..) with a \
                 different transcript identity than keygen on the same SRS downsized to k",
                k + 1
            );
            assert_eq!(
                vk.to_bytes(SerdeFormat::RawBytes),
                reference.to_bytes(SerdeFormat::RawBytes)
            );
        }
    }
}

/// FAILS on the unchanged code: the key returned for the oversized SRS rejects an
/// honest proof (the proof is produced with correctly sized parameters, so the
/// only ingredient computed from the oversized SRS is the verifying key).
#[test]
fn key_from_oversized_params_accepts_honest_proofs() {
    let x = Scalar::from(7);
    let circuit = StandardPlonk(x);
    let k = k_from_circuit(&circuit);

    let big = ParamsKZG::<Bls12>::unsafe_setup(k + 1, ChaCha20Rng::seed_from_u64(17));
    let mut small = big.clone();
    small.downsize(k);

    let Ok(vk) = keygen_vk_with_k::<_, Scheme, _>(&big, &circuit, k) else {
        return; // refusing the SRS is acceptable
    };
    let pk = keygen_pk(vk.clone(), &circuit).expect("keygen_pk should not fail");

    let proof = prove(&small, &pk, x);
    assert!(
        verifies(&small, &vk, x, &proof),
        "verifying key generated by keygen_vk_with_k from an oversized SRS rejects an honest proof"
    );
}
