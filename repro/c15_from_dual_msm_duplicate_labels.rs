// HUNT C15 -- defect 1: `Accumulator::from_dual_msm` silently drops fixed-base
// scalars when a fixed-base label occurs more than once in the dual MSM.
//
// Where it belongs : circuits/tests/hunt_c15_from_dual_msm_duplicate_labels.rs
//                    (integration test of the crate `midnight-circuits`, public API only)
// How to run       :
//   mkdir -p circuits/tests && cp _hunt/hunt_c15_from_dual_msm_duplicate_labels.rs circuits/tests/
//   CARGO_TARGET_DIR=/tmp/hunt-C15/target cargo test --offline -j 4 -p midnight-circuits \
//       --test hunt_c15_from_dual_msm_duplicate_labels -- --nocapture
//
// What is shown:
//   * two VALID proofs under the same verifying key are prepared into two guards
//     (`DualMSM`), each of which passes `check`;
//   * the guards are batched exactly as `midnight_zk_stdlib::batch_verify` batches
//     them (`acc.scale(r); acc.add_msm(next)`); the batched guard passes `check`;
//   * the batched (valid!) guard is converted with `Accumulator::from_dual_msm`;
//     the resulting accumulator FAILS `Accumulator::check`.
//
// Reason: in `from_dual_msm` the scalars of the `Fixed(i)`, `Permutation(i)` and
// "-G" terms are stored with `BTreeMap::insert`, so when a label occurs twice
// (which is the case for EVERY fixed base as soon as two guards of the same vk
// have been added) the second scalar overwrites the first one instead of being
// added to it. `Msm::accumulate_with_r` and `AssignedMsm::add_msm` do add.
//
// Expected behaviour: an accumulator built from a guard satisfies the invariant
// iff the guard does (scaling/adding/accumulating never rejects a batch of valid
// members).

use std::collections::BTreeMap;

use ff::Field;
use group::Group;
use midnight_circuits::{
    hash::poseidon::PoseidonState,
    verifier::{self, Accumulator, BlstrsEmulation},
};
use midnight_curves::{Bls12, Fq as F, G1Projective as C};
use midnight_proofs::{
    circuit::{Layouter, SimpleFloorPlanner, Value},
    plonk::{
        create_proof, keygen_pk, keygen_vk_with_k, prepare, Advice, Circuit, Column,
        ConstraintSystem, Constraints, Error, Fixed, Instance, ProvingKey, VerifyingKey,
    },
    poly::{
        kzg::{
            msm::{DualMSM, MSMKZG},
            params::ParamsKZG,
            KZGCommitmentScheme,
        },
        CommitmentLabel, Rotation,
    },
    transcript::{CircuitTranscript, Transcript},
    utils::arithmetic::MSM,
};
use rand::SeedableRng;
use rand_chacha::ChaCha8Rng;

type S = BlstrsEmulation;
type H = PoseidonState<F>;
type Vk = VerifyingKey<F, KZGCommitmentScheme<Bls12>>;
type Pk = ProvingKey<F, KZGCommitmentScheme<Bls12>>;

// ---------------------------------------------------------------------------
// A tiny "standard plonk" circuit (same as proofs/examples/serialization.rs):
// 5 fixed columns, 3 advice columns with equality enabled (=> permutation
// commitments), one instance column.
// ---------------------------------------------------------------------------

#[derive(Clone, Copy)]
struct StandardPlonkConfig {
    a: Column<Advice>,
    b: Column<Advice>,
    c: Column<Advice>,
    q_a: Column<Fixed>,
    q_b: Column<Fixed>,
    q_c: Column<Fixed>,
    q_ab: Column<Fixed>,
    constant: Column<Fixed>,
    #[allow(dead_code)]
    instance: Column<Instance>,
}

impl StandardPlonkConfig {
    fn configure(meta: &mut ConstraintSystem<F>) -> Self {
        let [a, b, c] = [(); 3].map(|_| meta.advice_column());
        let [q_a, q_b, q_c, q_ab, constant] = [(); 5].map(|_| meta.fixed_column());
        let instance = meta.instance_column();

        [a, b, c].iter().for_each(|column| meta.enable_equality(*column));

        meta.create_gate(
            "q_a·a + q_b·b + q_c·c + q_ab·a·b + constant + instance = 0",
            |meta| {
                let [a, b, c] = [a, b, c].map(|column| meta.query_advice(column, Rotation::cur()));
                let [q_a, q_b, q_c, q_ab, constant] = [q_a, q_b, q_c, q_ab, constant]
                    .map(|column| meta.query_fixed(column, Rotation::cur()));
                let instance = meta.query_instance(instance, Rotation::cur());
                Constraints::without_selector(vec![(
                    "Arithmetic gate",
                    q_a * &a + q_b * &b + q_c * c + q_ab * a * b + constant + instance,
                )])
            },
        );

        StandardPlonkConfig {
            a,
            b,
            c,
            q_a,
            q_b,
            q_c,
            q_ab,
            constant,
            instance,
        }
    }
}

#[derive(Clone, Default)]
struct StandardPlonk(F);

impl Circuit<F> for StandardPlonk {
    type Config = StandardPlonkConfig;
    type FloorPlanner = SimpleFloorPlanner;
    type Params = ();

    fn without_witnesses(&self) -> Self {
        Self::default()
    }

    fn configure(meta: &mut ConstraintSystem<F>) -> Self::Config {
        StandardPlonkConfig::configure(meta)
    }

    fn synthesize(
        &self,
        config: Self::Config,
        mut layouter: impl Layouter<F>,
    ) -> Result<(), Error> {
        layouter.assign_region(
            || "",
            |mut region| {
                region.assign_advice(|| "", config.a, 0, || Value::known(self.0))?;
                region.assign_fixed(|| "", config.q_a, 0, || Value::known(-F::ONE))?;

                region.assign_advice(|| "", config.a, 1, || Value::known(-F::from(5u64)))?;
                for (idx, column) in (1..).zip([
                    config.q_a,
                    config.q_b,
                    config.q_c,
                    config.q_ab,
                    config.constant,
                ]) {
                    region.assign_fixed(|| "", column, 1, || Value::known(F::from(idx as u64)))?;
                }

                let a = region.assign_advice(|| "", config.a, 2, || Value::known(F::ONE))?;
                a.copy_advice(|| "", &mut region, config.b, 3)?;
                a.copy_advice(|| "", &mut region, config.c, 4)?;
                Ok(())
            },
        )
    }
}

const K: u32 = 4;

fn setup(rng: &mut ChaCha8Rng) -> (ParamsKZG<Bls12>, Vk, Pk) {
    let params = ParamsKZG::<Bls12>::unsafe_setup(K, &mut *rng);
    let vk = keygen_vk_with_k::<_, KZGCommitmentScheme<Bls12>, _>(
        &params,
        &StandardPlonk::default(),
        K,
    )
    .expect("keygen_vk");
    let pk = keygen_pk(vk.clone(), &StandardPlonk::default()).expect("keygen_pk");
    (params, vk, pk)
}

fn prove(params: &ParamsKZG<Bls12>, pk: &Pk, x: F, rng: &mut ChaCha8Rng) -> Vec<u8> {
    let mut transcript = CircuitTranscript::<H>::init();
    create_proof::<F, KZGCommitmentScheme<Bls12>, CircuitTranscript<H>, StandardPlonk>(
        params,
        pk,
        &[StandardPlonk(x)],
        0,
        &[&[&[x]]],
        &mut *rng,
        &mut transcript,
    )
    .expect("create_proof");
    transcript.finalize()
}

fn guard(vk: &Vk, x: F, proof: &[u8]) -> DualMSM<Bls12> {
    let mut transcript = CircuitTranscript::<H>::init_from_bytes(proof);
    let g = prepare::<F, KZGCommitmentScheme<Bls12>, CircuitTranscript<H>>(
        vk,
        &[&[]],
        &[&[&[x]]],
        &mut transcript,
    )
    .expect("prepare");
    transcript.assert_empty().expect("no trailing bytes");
    g
}

/// Two valid proofs of the same vk, batched as `zk_stdlib::batch_verify` does,
/// then converted into an accumulator.
#[test]
fn batched_guard_of_two_valid_proofs_converts_to_a_valid_accumulator() {
    let mut rng = ChaCha8Rng::from_seed([15u8; 32]);
    let (params, vk, pk) = setup(&mut rng);

    let (x1, x2) = (F::random(&mut rng), F::random(&mut rng));
    let proof1 = prove(&params, &pk, x1, &mut rng);
    let proof2 = prove(&params, &pk, x2, &mut rng);

    let g1 = guard(&vk, x1, &proof1);
    let g2 = guard(&vk, x2, &proof2);

    let vparams = params.verifier_params();
    let tau_g2 = params.s_g2().into();
    let fixed_bases = verifier::fixed_bases::<S>("vk", &vk);

    // Every member is valid, both as a guard and as an accumulator.
    assert!(g1.clone().check(&vparams), "proof 1 is valid");
    assert!(g2.clone().check(&vparams), "proof 2 is valid");
    let acc1 = Accumulator::<S>::from_dual_msm(g1.clone(), "vk", &fixed_bases);
    let acc2 = Accumulator::<S>::from_dual_msm(g2.clone(), "vk", &fixed_bases);
    assert!(acc1.check(&tau_g2, &fixed_bases), "acc of proof 1 is valid");
    assert!(acc2.check(&tau_g2, &fixed_bases), "acc of proof 2 is valid");

    // The accumulator-side batching agrees.
    let accumulated = Accumulator::<S>::accumulate(&[acc1, acc2]);
    assert!(accumulated.check(&tau_g2, &fixed_bases), "accumulate(acc1, acc2) is valid");

    // Guard-side batching, exactly as in `midnight_zk_stdlib::batch_verify`.
    let r = F::random(&mut rng);
    let mut batched = g1.clone();
    batched.scale(r);
    batched.add_msm(g2.clone());
    assert!(batched.clone().check(&vparams), "the batched guard of two valid proofs is valid");

    // Converting the (valid) batched guard must give a valid accumulator.
    let batched_acc = Accumulator::<S>::from_dual_msm(batched, "vk", &fixed_bases);
    assert!(
        batched_acc.check(&tau_g2, &fixed_bases),
        "DEFECT: from_dual_msm turned a VALID batched guard into an accumulator that \
         does not satisfy the invariant (duplicated fixed-base labels are overwritten, not added)"
    );
}

/// The same defect without any proof: a hand-made valid dual MSM in which the
/// fixed base `Fixed(0)` appears twice.
#[test]
fn duplicated_fixed_label_is_added_not_overwritten() {
    let mut rng = ChaCha8Rng::from_seed([16u8; 32]);

    // SRS with a known trapdoor.
    let tau = F::random(&mut rng);
    let g = C::generator();
    let params = ParamsKZG::<Bls12>::from_parts(
        1,
        vec![g, g * tau],
        None,
        <Bls12 as midnight_curves::pairing::Engine>::G2::generator(),
        <Bls12 as midnight_curves::pairing::Engine>::G2::generator() * tau,
    );

    let fixed0 = C::random(&mut rng);
    let p = C::random(&mut rng);
    let (a, b) = (F::random(&mut rng), F::random(&mut rng));

    // lhs = P ; rhs = a*F0 + b*F0 + (tau*P - (a+b)*F0) = tau*P  ==> valid.
    let mut left = MSMKZG::<Bls12>::init();
    left.append_term(F::ONE, p, CommitmentLabel::Custom("π".into()));
    let mut right = MSMKZG::<Bls12>::init();
    right.append_term(a, fixed0, CommitmentLabel::Fixed(0));
    right.append_term(b, fixed0, CommitmentLabel::Fixed(0));
    right.append_term(F::ONE, p * tau - fixed0 * (a + b), CommitmentLabel::NoLabel);
    let dual = DualMSM::new(left, right);

    assert!(dual.clone().check(&params.verifier_params()), "the dual MSM is valid");

    // (The canonical name of the 0-th fixed commitment of vk "vk".)
    let mut fixed_bases = BTreeMap::new();
    fixed_bases.insert("-G".to_string(), -g);
    fixed_bases.insert("vk_fixed_com_0".to_string(), fixed0);

    let acc = Accumulator::<S>::from_dual_msm(dual, "vk", &fixed_bases);

    let expected = a + b;
    let got = acc.rhs().fixed_base_scalars().get("vk_fixed_com_0").copied().unwrap();
    assert_eq!(got, expected, "DEFECT: the scalar of a repeated fixed base must be the sum");
    assert!(acc.check(&params.s_g2().into(), &fixed_bases));
}
