// C10 hunt - defect 3: `curve25519::Fp::lexicographically_largest`
// (curves/src/curve25519/fp.rs) is off by one at x = (p - 1) / 2.
//
// Belongs in: curves/tests/hunt_c10_lexicographically_largest.rs (integration test, public API only).
// Run with:
//   CARGO_TARGET_DIR=/tmp/hunt-C10/target cargo test --offline -j 4 -p midnight-curves \
//       --test hunt_c10_lexicographically_largest
//
// The method is documented as "Returns whether or not this element is strictly lexicographically
// larger than its negation", i.e. it must return (x mod p) > (-x mod p) on canonical integers.
// It subtracts (p-1)/2 and tests for "no borrow", which is x >= (p-1)/2; the correct test is
// x >= (p-1)/2 + 1 (as in the BLS12-381 implementation it was copied from). For x = (p-1)/2 the
// negation is (p+1)/2 = x + 1 > x, so the answer must be `false`, yet the method returns `true`;
// consequently both x and -x claim to be "the largest".
use std::convert::TryInto;

use ff::{Field, PrimeField};
use midnight_curves::curve25519::Fp;
use num_bigint::BigUint;

fn to_big(x: &Fp) -> BigUint {
    BigUint::from_bytes_le(x.to_repr().as_ref())
}

fn from_big(x: &BigUint) -> Fp {
    let mut b = x.to_bytes_le();
    b.resize(32, 0);
    let b: [u8; 32] = b.try_into().unwrap();
    Fp::from_bytes(&b).expect("canonical")
}

#[test]
fn lexicographically_largest_agrees_with_integer_comparison() {
    let p = BigUint::parse_bytes(Fp::MODULUS.trim_start_matches("0x").as_bytes(), 16).unwrap();
    let half = (&p - 1u32) >> 1usize; // (p-1)/2

    let mut candidates = vec![
        BigUint::from(0u32),
        BigUint::from(1u32),
        BigUint::from(2u32),
        &half - 2u32,
        &half - 1u32,
        half.clone(),       // (p-1)/2   <- the failing input
        &half + 1u32,       // (p+1)/2
        &half + 2u32,
        &p - 2u32,
        &p - 1u32,
    ];
    let mut x = Fp::from(0x1234_5678_9abc_def1u64);
    for _ in 0..64 {
        x = x.square() + Fp::from(7u64);
        candidates.push(to_big(&x));
    }

    let mut failures = vec![];
    for c in &candidates {
        let x = from_big(c);
        let neg = to_big(&-x);
        let expected = *c > neg;
        let got = bool::from(x.lexicographically_largest());
        if got != expected {
            failures.push(format!("x = 0x{c:x}: -x = 0x{neg:x}, got {got}, expected {expected}"));
        }
        // Exactly one of x, -x is the largest, unless x = 0.
        if *c != BigUint::from(0u32) {
            let other = bool::from((-x).lexicographically_largest());
            if got == other {
                failures.push(format!("x = 0x{c:x}: x and -x both answer {got}"));
            }
        }
    }
    assert!(failures.is_empty(), "\n{}", failures.join("\n"));
}
