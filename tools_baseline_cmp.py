#!/usr/bin/env python3
"""Compare a nextest log with the stable_pass set of BASELINE.json."""
import json, re, sys
b = json.load(open('/root/.vp/BASELINE.json'))
sp = set(b['stable_pass'])
passed, failed = set(), set()
for l in open(sys.argv[1]):
    m = re.match(r'\s+(PASS|FAIL|SIGABRT|SIGSEGV|TIMEOUT|LEAK)\s+\[.*?\]\s+\(\s*\d+/\d+\)\s+(\S+)\s+(\S+)', l)
    if m:
        (passed if m.group(1) in ('PASS', 'LEAK') else failed).add(m.group(2) + '::' + m.group(3))
print('stable_pass', len(sp), 'passed', len(passed), 'failed', len(failed))
print('stable tests that FAILED:', sorted(failed & sp))
print('stable tests not seen passing:', sorted(sp - passed)[:20])
