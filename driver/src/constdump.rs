//! Compile-time constants: every non-generic `const` / associated const / in-body const whose value is plain data is evaluated by the
//! compiler's own const evaluator and dumped as raw little-endian memory (hex), plain integers, or strings.
use crate::hirdump::{dpath, span_loc};
use crate::json::J;
use rustc_hir::def::DefKind;
use rustc_middle::mir::ConstValue;
use rustc_middle::ty::{self, TyCtxt, TypeVisitableExt};

const MAX_BYTES: u64 = 1024;

pub fn dump<'tcx>(tcx: TyCtxt<'tcx>, krate: &str) -> String {
    let mut j = J::new();
    j.open_obj();
    j.kv_str("crate", krate);
    j.key("consts");
    j.open_arr();
    for def in tcx.hir_body_owners() {
        let did = def.to_def_id();
        let dk = tcx.def_kind(did);
        if !matches!(dk, DefKind::Const { .. } | DefKind::AssocConst { .. }) {
            continue;
        }
        if tcx.generics_of(did).requires_monomorphization(tcx) {
            continue;
        }
        let ty = tcx.type_of(did).instantiate_identity().skip_norm_wip();
        if ty.has_param() || ty.has_infer() || ty.references_error() {
            continue;
        }
        let Ok(val) = tcx.const_eval_poly(did) else { continue };
        let env = ty::TypingEnv::fully_monomorphized();
        let Ok(layout) = tcx.layout_of(env.as_query_input(ty)) else { continue };
        let size = layout.size.bytes();
        let (f, l, _) = span_loc(tcx, tcx.def_span(did));
        let mut hex: Option<String> = None;
        let mut text: Option<String> = None;
        match val {
            ConstValue::Scalar(s) => {
                if let Ok(i) = s.try_to_scalar_int() {
                    let v: u128 = i.to_bits_unchecked();
                    let n = i.size().bytes() as usize;
                    hex = Some(v.to_le_bytes()[..n].iter().map(|b| format!("{:02x}", b)).collect());
                }
            }
            ConstValue::ZeroSized => {
                hex = Some(String::new());
            }
            ConstValue::Indirect { alloc_id, offset } => {
                if size <= MAX_BYTES {
                    let alloc = tcx.global_alloc(alloc_id).unwrap_memory();
                    let a = alloc.inner();
                    let start = offset.bytes() as usize;
                    let end = start + size as usize;
                    if end <= a.len() && a.provenance().ptrs().is_empty() {
                        let bytes = a.inspect_with_uninit_and_ptr_outside_interpreter(start..end);
                        hex = Some(bytes.iter().map(|b| format!("{:02x}", b)).collect());
                    }
                }
            }
            ConstValue::Slice { alloc_id, meta } => {
                let alloc = tcx.global_alloc(alloc_id).unwrap_memory();
                let a = alloc.inner();
                let n = meta as usize;
                if n <= a.len() && n as u64 <= 4 * MAX_BYTES {
                    let bytes = a.inspect_with_uninit_and_ptr_outside_interpreter(0..n);
                    if ty.peel_refs().is_str() {
                        text = Some(String::from_utf8_lossy(bytes).to_string());
                    } else {
                        hex = Some(bytes.iter().map(|b| format!("{:02x}", b)).collect());
                    }
                }
            }
        }
        if hex.is_none() && text.is_none() {
            continue;
        }
        j.open_obj();
        j.kv_str("id", &dpath(tcx, did));
        j.kv_str("kind", if matches!(dk, DefKind::AssocConst { .. }) { "AssocConst" } else { "Const" });
        j.kv_str("ty", &ty.to_string());
        j.kv_str("file", &f);
        j.kv_num("line", l);
        j.kv_num("size", size as i64);
        if let Some(parent) = tcx.opt_parent(did) {
            if matches!(tcx.def_kind(parent), DefKind::Impl { .. }) {
                j.kv_str("impl_self", &tcx.type_of(parent).instantiate_identity().skip_norm_wip().to_string());
                if let Some(tr) = tcx.impl_opt_trait_ref(parent) {
                    j.kv_str("impl_trait", &dpath(tcx, tr.instantiate_identity().skip_norm_wip().def_id));
                }
            }
        }
        if let Some(h) = hex {
            j.kv_str("hex", &h);
        }
        if let Some(t) = text {
            j.kv_str("str", &t);
        }
        j.close_obj();
    }
    j.close_arr();
    j.close_obj();
    j.s
}
