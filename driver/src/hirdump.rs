//! HIR skeleton dump: every fn / assoc fn body as a JSON tree with resolved
//! callees, types of the interesting expressions, for-loops and `?` re-sugared,
//! closures inlined with their capture lists.  Plus ADTs, impls, traits.
use crate::json::J;
use rustc_hir as hir;
use rustc_hir::def::{DefKind, Res};
use rustc_hir::def_id::{DefId, LocalDefId};
use rustc_hir::{Expr, ExprKind, HirId, MatchSource, Pat, PatKind, QPath, StmtKind};
use rustc_middle::ty::{self, Ty, TyCtxt, TypeVisitableExt, TypeckResults};
use rustc_span::Span;
use std::collections::HashMap;

pub fn dpath<'tcx>(tcx: TyCtxt<'tcx>, d: DefId) -> String {
    tcx.def_path_str(d)
}

pub fn span_loc<'tcx>(tcx: TyCtxt<'tcx>, sp: Span) -> (String, i64, i64) {
    let sm = tcx.sess.source_map();
    let sp = sp.source_callsite();
    let lo = sm.lookup_char_pos(sp.lo());
    let hi = sm.lookup_char_pos(sp.hi());
    let f = match &lo.file.name {
        rustc_span::FileName::Real(r) => match r.local_path() {
            Some(p) => p.to_string_lossy().to_string(),
            None => format!("{:?}", lo.file.name),
        },
        other => format!("{:?}", other),
    };
    (f, lo.line as i64, hi.line as i64)
}

pub fn macro_chain(sp: Span) -> Vec<String> {
    let mut v = Vec::new();
    if !sp.from_expansion() {
        return v;
    }
    for ed in sp.macro_backtrace() {
        match ed.kind {
            rustc_span::ExpnKind::Macro(_, name) => v.push(name.to_string()),
            rustc_span::ExpnKind::Desugaring(k) => v.push(format!("desugar:{:?}", k)),
            rustc_span::ExpnKind::AstPass(_) => v.push("astpass".to_string()),
            rustc_span::ExpnKind::Root => {}
        }
    }
    v
}

pub fn vis_str<'tcx>(tcx: TyCtxt<'tcx>, d: DefId) -> String {
    match tcx.visibility(d) {
        ty::Visibility::Public => "pub".to_string(),
        ty::Visibility::Restricted(m) => {
            if m.is_crate_root() {
                "crate".to_string()
            } else {
                format!("in:{}", tcx.def_path_str(m))
            }
        }
    }
}

struct Cx<'tcx, 'a> {
    tcx: TyCtxt<'tcx>,
    tr: &'tcx TypeckResults<'tcx>,
    owner: LocalDefId,
    j: &'a mut J,
    locals: HashMap<HirId, i64>,
}

impl<'tcx, 'a> Cx<'tcx, 'a> {
    fn local_idx(&mut self, h: HirId) -> i64 {
        let n = self.locals.len() as i64;
        *self.locals.entry(h).or_insert(n)
    }

    fn ty_s(&self, t: Ty<'tcx>) -> String {
        t.to_string()
    }

    fn line(&self, sp: Span) -> i64 {
        let sm = self.tcx.sess.source_map();
        sm.lookup_char_pos(sp.source_callsite().lo()).line as i64
    }

    fn head(&mut self, k: &str, e_span: Span) {
        self.j.open_obj();
        self.j.kv_str("k", k);
        self.j.kv_num("l", self.line(e_span));
        if e_span.from_expansion() {
            let mc = macro_chain(e_span);
            if !mc.is_empty() {
                self.j.key("x");
                self.j.open_arr();
                for m in mc {
                    self.j.elem_str(&m);
                }
                self.j.close_arr();
            }
        }
    }

    fn resolve(&self, def_id: DefId, args: ty::GenericArgsRef<'tcx>) -> Option<String> {
        let tcx = self.tcx;
        if !matches!(tcx.def_kind(def_id), DefKind::Fn | DefKind::AssocFn) {
            return None;
        }
        if tcx.trait_of_assoc(def_id).is_none() {
            return None;
        }
        if args.len() != tcx.generics_of(def_id).count() {
            return None;
        }
        let args = tcx.erase_and_anonymize_regions(args);
        if args.has_infer() || args.has_escaping_bound_vars() {
            return None;
        }
        let env = ty::TypingEnv::post_analysis(tcx, self.owner.to_def_id());
        let args = match tcx.try_normalize_erasing_regions(env, ty::Unnormalized::new_wip(args)) {
            Ok(a) => a,
            Err(_) => return None,
        };
        match ty::Instance::try_resolve(tcx, env, def_id, args) {
            Ok(Some(inst)) => {
                let d = inst.def_id();
                if d != def_id {
                    Some(dpath(tcx, d))
                } else {
                    None
                }
            }
            _ => None,
        }
    }

    fn callee_info(&mut self, def_id: DefId, args: ty::GenericArgsRef<'tcx>) {
        let tcx = self.tcx;
        self.j.kv_str("f", &dpath(tcx, def_id));
        self.j.kv_str("dk", &format!("{:?}", tcx.def_kind(def_id)));
        if !args.is_empty() {
            self.j.key("ga");
            self.j.open_arr();
            for a in args.iter() {
                self.j.elem_str(&a.to_string());
            }
            self.j.close_arr();
        }
        if let Some(r) = self.resolve(def_id, args) {
            self.j.kv_str("rs", &r);
        }
    }

    fn qpath_res_def(&self, qp: &QPath<'tcx>, hid: HirId) -> Res {
        self.tr.qpath_res(qp, hid)
    }

    fn opt_expr(&mut self, key: &str, e: Option<&'tcx Expr<'tcx>>) {
        if let Some(e) = e {
            self.j.key(key);
            self.expr(e);
        }
    }

    fn exprs(&mut self, key: &str, es: &'tcx [Expr<'tcx>]) {
        self.j.key(key);
        self.j.open_arr();
        for e in es {
            self.j.comma();
            self.expr(e);
        }
        self.j.close_arr();
    }

    fn block(&mut self, b: &'tcx hir::Block<'tcx>) {
        self.head("block", b.span);
        self.j.key("ss");
        self.j.open_arr();
        for s in b.stmts {
            match s.kind {
                StmtKind::Let(l) => {
                    self.j.comma();
                    self.head("let", s.span);
                    self.j.key("pat");
                    self.pat(l.pat);
                    self.opt_expr("init", l.init);
                    if let Some(els) = l.els {
                        self.j.key("els");
                        self.block(els);
                    }
                    self.j.close_obj();
                }
                StmtKind::Item(_) => {}
                StmtKind::Expr(e) => {
                    self.j.comma();
                    self.head("stmt", s.span);
                    self.j.key("e");
                    self.expr(e);
                    self.j.close_obj();
                }
                StmtKind::Semi(e) => {
                    self.j.comma();
                    self.head("semi", s.span);
                    self.j.kv_str("t", &self.ty_s(self.tr.expr_ty(e)));
                    self.j.key("e");
                    self.expr(e);
                    self.j.close_obj();
                }
            }
        }
        self.j.close_arr();
        if let Some(e) = b.expr {
            self.j.key("e");
            self.expr(e);
        }
        self.j.close_obj();
    }

    fn pat(&mut self, p: &'tcx Pat<'tcx>) {
        self.j.open_obj();
        match p.kind {
            PatKind::Wild => self.j.kv_str("k", "wild"),
            PatKind::Missing => self.j.kv_str("k", "missing"),
            PatKind::Never => self.j.kv_str("k", "never"),
            PatKind::Binding(mode, hid, ident, sub) => {
                self.j.kv_str("k", "bind");
                self.j.kv_str("n", ident.name.as_str());
                let i = self.local_idx(hid);
                self.j.kv_num("i", i);
                self.j.kv_str("t", &self.ty_s(self.tr.node_type(p.hir_id)));
                self.j.kv_bool("mut", matches!(mode.1, hir::Mutability::Mut));
                self.j.kv_bool("byref", !matches!(mode.0, hir::ByRef::No));
                if let Some(s) = sub {
                    self.j.key("sub");
                    self.pat(s);
                }
            }
            PatKind::Struct(ref qp, fields, rest) => {
                self.j.kv_str("k", "struct");
                self.pat_path(qp, p.hir_id);
                self.j.kv_bool("rest", rest.is_some());
                self.j.key("fs");
                self.j.open_arr();
                for f in fields {
                    self.j.open_arr();
                    self.j.elem_str(f.ident.name.as_str());
                    self.j.comma();
                    self.pat(f.pat);
                    self.j.close_arr();
                }
                self.j.close_arr();
            }
            PatKind::TupleStruct(ref qp, subs, ddp) => {
                self.j.kv_str("k", "ts");
                self.pat_path(qp, p.hir_id);
                self.j.kv_bool("rest", ddp.as_opt_usize().is_some());
                self.pats("subs", subs);
            }
            PatKind::Or(subs) => {
                self.j.kv_str("k", "or");
                self.pats("subs", subs);
            }
            PatKind::Tuple(subs, ddp) => {
                self.j.kv_str("k", "tuple");
                self.j.kv_bool("rest", ddp.as_opt_usize().is_some());
                self.pats("subs", subs);
            }
            PatKind::Box(s) | PatKind::Deref(s) | PatKind::Ref(s, _, _) => {
                self.j.kv_str("k", "ref");
                self.j.key("sub");
                self.pat(s);
            }
            PatKind::Expr(pe) => match pe.kind {
                hir::PatExprKind::Lit { lit, negated } => {
                    self.j.kv_str("k", "lit");
                    self.j.kv_str(
                        "v",
                        &format!("{}{}", if negated { "-" } else { "" }, lit_str(&lit)),
                    );
                }
                hir::PatExprKind::Path(ref qp) => {
                    self.j.kv_str("k", "path");
                    self.pat_path(qp, pe.hir_id);
                }
            },
            PatKind::Guard(s, g) => {
                self.j.kv_str("k", "guard");
                self.j.key("sub");
                self.pat(s);
                self.j.key("g");
                self.expr(g);
            }
            PatKind::Range(..) => self.j.kv_str("k", "range"),
            PatKind::Slice(a, m, b) => {
                self.j.kv_str("k", "slice");
                self.pats("subs", a);
                if let Some(m) = m {
                    self.j.key("mid");
                    self.pat(m);
                }
                self.pats("post", b);
            }
            PatKind::Err(_) => self.j.kv_str("k", "err"),
        }
        self.j.close_obj();
    }

    fn pats(&mut self, key: &str, ps: &'tcx [Pat<'tcx>]) {
        self.j.key(key);
        self.j.open_arr();
        for p in ps {
            self.j.comma();
            self.pat(p);
        }
        self.j.close_arr();
    }

    fn pat_path(&mut self, qp: &QPath<'tcx>, hid: HirId) {
        let res = self.qpath_res_def(qp, hid);
        match res {
            Res::Def(dk, d) => {
                // For constructors report the variant / struct path.
                let d2 = match dk {
                    DefKind::Ctor(..) => self.tcx.parent(d),
                    _ => d,
                };
                self.j.kv_str("p", &dpath(self.tcx, d2));
                self.j.kv_str("dk", &format!("{:?}", self.tcx.def_kind(d2)));
            }
            Res::SelfTyAlias { .. } | Res::SelfTyParam { .. } | Res::SelfCtor(_) => {
                self.j.kv_str("p", "Self");
            }
            _ => self.j.kv_str("p", "?"),
        }
    }

    fn closure(&mut self, e: &'tcx Expr<'tcx>, c: &'tcx hir::Closure<'tcx>) {
        let tcx = self.tcx;
        self.head("closure", e.span);
        self.j.kv_str("id", &dpath(tcx, c.def_id.to_def_id()));
        self.j.kv_bool("move", matches!(c.capture_clause, hir::CaptureBy::Value { .. }));
        self.j.key("caps");
        self.j.open_arr();
        for cp in tcx.closure_captures(c.def_id) {
            self.j.open_obj();
            self.j.kv_str("v", cp.var_ident.name.as_str());
            self.j.kv_str("place", &cp.to_string(tcx));
            let by = match cp.info.capture_kind {
                ty::UpvarCapture::ByValue => "value",
                ty::UpvarCapture::ByUse => "use",
                ty::UpvarCapture::ByRef(bk) => match bk {
                    ty::BorrowKind::Immutable => "ref",
                    ty::BorrowKind::UniqueImmutable => "uniq",
                    ty::BorrowKind::Mutable => "mut",
                },
            };
            self.j.kv_str("by", by);
            self.j.kv_str("t", &self.ty_s(cp.place.ty()));
            if let hir::def::Res::Local(h) = hir_place_base(cp) {
                if let Some(i) = self.locals.get(&h) {
                    let i = *i;
                    self.j.kv_num("i", i);
                }
            }
            self.j.close_obj();
        }
        self.j.close_arr();
        let body = tcx.hir_body(c.body);
        self.j.key("params");
        self.j.open_arr();
        for p in body.params {
            self.j.comma();
            self.pat(p.pat);
        }
        self.j.close_arr();
        self.j.key("body");
        self.expr(body.value);
        self.j.close_obj();
    }

    fn try_for_loop(&mut self, e: &'tcx Expr<'tcx>, scrut: &'tcx Expr<'tcx>, arms: &'tcx [hir::Arm<'tcx>]) -> bool {
        // match IntoIterator::into_iter(head) { mut iter => loop { match next(&mut iter) { None => break, Some(pat) => body } } }
        let ExprKind::Call(_, [head]) = scrut.kind else { return false };
        let [arm] = arms else { return false };
        let ExprKind::Loop(blk, _, hir::LoopSource::ForLoop, _) = arm.body.kind else { return false };
        let inner = match (blk.stmts, blk.expr) {
            ([s], None) => match s.kind {
                StmtKind::Expr(x) | StmtKind::Semi(x) => x,
                _ => return false,
            },
            ([], Some(x)) => x,
            _ => return false,
        };
        let ExprKind::Match(_, iarms, MatchSource::ForLoopDesugar) = inner.kind else { return false };
        if iarms.len() != 2 {
            return false;
        }
        let some_arm = &iarms[1];
        let ipat = match some_arm.pat.kind {
            PatKind::TupleStruct(_, [ipat], _) => ipat,
            PatKind::Struct(_, [pf], _) => pf.pat,
            _ => return false,
        };
        self.head("for", e.span);
        self.j.kv_str("it", &self.ty_s(self.tr.expr_ty(head)));
        self.j.kv_str("itadj", &self.ty_s(self.tr.expr_ty_adjusted(head)));
        self.j.key("pat");
        self.pat(ipat);
        self.j.key("iter");
        self.expr(head);
        self.j.key("body");
        self.expr(some_arm.body);
        self.j.close_obj();
        true
    }

    fn expr(&mut self, e: &'tcx Expr<'tcx>) {
        let tcx = self.tcx;
        match e.kind {
            ExprKind::DropTemps(x) | ExprKind::Use(x, _) | ExprKind::Type(x, _) => {
                self.expr(x);
                return;
            }
            ExprKind::Block(b, _) => {
                self.block(b);
                return;
            }
            ExprKind::Closure(c) => {
                self.closure(e, c);
                return;
            }
            ExprKind::Match(scrut, arms, src) => {
                match src {
                    MatchSource::ForLoopDesugar => {
                        if self.try_for_loop(e, scrut, arms) {
                            return;
                        }
                    }
                    MatchSource::TryDesugar(_) => {
                        if let ExprKind::Call(_, [inner]) = scrut.kind {
                            self.head("try", e.span);
                            self.j.kv_str("t", &self.ty_s(self.tr.expr_ty(e)));
                            self.j.key("e");
                            self.expr(inner);
                            self.j.close_obj();
                            return;
                        }
                    }
                    _ => {}
                }
                self.head("match", e.span);
                self.j.kv_str("src", src.name());
                self.j.kv_str("st", &self.ty_s(self.tr.expr_ty(scrut)));
                self.j.key("e");
                self.expr(scrut);
                self.j.key("arms");
                self.j.open_arr();
                for a in arms {
                    self.j.open_obj();
                    self.j.kv_num("l", self.line(a.span));
                    self.j.key("pat");
                    self.pat(a.pat);
                    if let Some(g) = a.guard {
                        self.j.key("guard");
                        self.expr(g);
                    }
                    self.j.key("body");
                    self.expr(a.body);
                    self.j.close_obj();
                }
                self.j.close_arr();
                self.j.close_obj();
                return;
            }
            _ => {}
        }
        let kind_name = match e.kind {
            ExprKind::ConstBlock(_) => "constblock",
            ExprKind::Array(_) => "array",
            ExprKind::Call(..) => "call",
            ExprKind::MethodCall(..) => "mcall",
            ExprKind::Tup(_) => "tup",
            ExprKind::Binary(..) => "bin",
            ExprKind::Unary(..) => "un",
            ExprKind::Lit(_) => "lit",
            ExprKind::Cast(..) => "cast",
            ExprKind::Let(_) => "letx",
            ExprKind::If(..) => "if",
            ExprKind::Loop(..) => "loop",
            ExprKind::Assign(..) => "assign",
            ExprKind::AssignOp(..) => "assignop",
            ExprKind::Field(..) => "field",
            ExprKind::Index(..) => "index",
            ExprKind::Path(_) => "path",
            ExprKind::AddrOf(..) => "ref",
            ExprKind::Break(..) => "break",
            ExprKind::Continue(_) => "continue",
            ExprKind::Ret(_) => "ret",
            ExprKind::Struct(..) => "struct",
            ExprKind::Repeat(..) => "repeat",
            _ => "other",
        };
        // `path` to a local is renamed below
        if let ExprKind::Path(ref qp) = e.kind {
            let res = self.qpath_res_def(qp, e.hir_id);
            match res {
                Res::Local(h) => {
                    self.head("local", e.span);
                    let i = self.local_idx(h);
                    self.j.kv_str("n", tcx.hir_name(h).as_str());
                    self.j.kv_num("i", i);
                    self.j.kv_str("t", &self.ty_s(self.tr.expr_ty(e)));
                }
                Res::Def(dk, d) => {
                    self.head("path", e.span);
                    self.j.kv_str("p", &dpath(tcx, d));
                    self.j.kv_str("dk", &format!("{:?}", dk));
                    self.j.kv_str("t", &self.ty_s(self.tr.expr_ty(e)));
                    if matches!(dk, DefKind::Fn | DefKind::AssocFn) {
                        let args = self.tr.node_args(e.hir_id);
                        if let Some(r) = self.resolve(d, args) {
                            self.j.kv_str("rs", &r);
                        }
                    }
                }
                _ => {
                    self.head("path", e.span);
                    self.j.kv_str("p", "Self");
                    self.j.kv_str("t", &self.ty_s(self.tr.expr_ty(e)));
                }
            }
            self.j.close_obj();
            return;
        }
        self.head(kind_name, e.span);
        match e.kind {
            ExprKind::Array(es) | ExprKind::Tup(es) => {
                self.j.kv_str("t", &self.ty_s(self.tr.expr_ty(e)));
                self.exprs("es", es);
            }
            ExprKind::Call(f, args) => {
                self.j.kv_str("t", &self.ty_s(self.tr.expr_ty(e)));
                let mut done = false;
                if let ExprKind::Path(ref qp) = f.kind {
                    if let Res::Def(dk, d) = self.qpath_res_def(qp, f.hir_id) {
                        match dk {
                            DefKind::Fn | DefKind::AssocFn => {
                                let ga = self.tr.node_args(f.hir_id);
                                self.callee_info(d, ga);
                                done = true;
                            }
                            DefKind::Ctor(..) => {
                                let p = tcx.parent(d);
                                self.j.kv_str("f", &dpath(tcx, p));
                                self.j.kv_str("dk", "Ctor");
                                done = true;
                            }
                            _ => {}
                        }
                    } else if let Res::SelfCtor(_) = self.qpath_res_def(qp, f.hir_id) {
                        self.j.kv_str("f", "Self");
                        self.j.kv_str("dk", "Ctor");
                        done = true;
                    }
                }
                if !done {
                    self.j.key("fe");
                    self.expr(f);
                }
                self.exprs("args", args);
            }
            ExprKind::MethodCall(seg, recv, args, _) => {
                self.j.kv_str("t", &self.ty_s(self.tr.expr_ty(e)));
                self.j.kv_str("m", seg.ident.name.as_str());
                if let Some(d) = self.tr.type_dependent_def_id(e.hir_id) {
                    let ga = self.tr.node_args(e.hir_id);
                    self.callee_info(d, ga);
                }
                self.j.kv_str("rt", &self.ty_s(self.tr.expr_ty(recv)));
                self.j.key("recv");
                self.expr(recv);
                self.exprs("args", args);
            }
            ExprKind::Binary(op, a, b) => {
                self.j.kv_str("op", op.node.as_str());
                self.j.kv_str("t", &self.ty_s(self.tr.expr_ty(e)));
                if let Some(d) = self.tr.type_dependent_def_id(e.hir_id) {
                    self.j.kv_str("f", &dpath(tcx, d));
                }
                self.j.key("a");
                self.expr(a);
                self.j.key("b");
                self.expr(b);
            }
            ExprKind::Unary(op, a) => {
                self.j.kv_str("op", op.as_str());
                self.j.kv_str("t", &self.ty_s(self.tr.expr_ty(e)));
                self.j.key("e");
                self.expr(a);
            }
            ExprKind::Lit(l) => {
                self.j.kv_str("v", &lit_str(&l));
            }
            ExprKind::Cast(a, _) => {
                self.j.kv_str("t", &self.ty_s(self.tr.expr_ty(e)));
                self.j.key("e");
                self.expr(a);
            }
            ExprKind::Let(l) => {
                self.j.key("pat");
                self.pat(l.pat);
                self.j.key("init");
                self.expr(l.init);
            }
            ExprKind::If(c, a, b) => {
                self.j.key("c");
                self.expr(c);
                self.j.key("a");
                self.expr(a);
                self.opt_expr("b", b);
            }
            ExprKind::Loop(b, _, src, _) => {
                self.j.kv_str("src", src.name());
                self.j.key("body");
                self.block(b);
            }
            ExprKind::Assign(l, r, _) => {
                self.j.key("lhs");
                self.expr(l);
                self.j.key("rhs");
                self.expr(r);
            }
            ExprKind::AssignOp(op, l, r) => {
                self.j.kv_str("op", op.node.as_str());
                if let Some(d) = self.tr.type_dependent_def_id(e.hir_id) {
                    self.j.kv_str("f", &dpath(tcx, d));
                }
                self.j.key("lhs");
                self.expr(l);
                self.j.key("rhs");
                self.expr(r);
            }
            ExprKind::Field(b, id) => {
                self.j.kv_str("n", id.name.as_str());
                self.j.kv_str("t", &self.ty_s(self.tr.expr_ty(e)));
                self.j.kv_str("bt", &self.ty_s(self.tr.expr_ty_adjusted(b)));
                self.j.key("e");
                self.expr(b);
            }
            ExprKind::Index(b, i, _) => {
                self.j.kv_str("t", &self.ty_s(self.tr.expr_ty(e)));
                self.j.kv_str("bt", &self.ty_s(self.tr.expr_ty_adjusted(b)));
                self.j.kv_str("ixt", &self.ty_s(self.tr.expr_ty(i)));
                self.j.key("e");
                self.expr(b);
                self.j.key("i");
                self.expr(i);
            }
            ExprKind::AddrOf(_, m, a) => {
                self.j.kv_bool("mut", matches!(m, hir::Mutability::Mut));
                self.j.key("e");
                self.expr(a);
            }
            ExprKind::Break(_, a) => {
                self.opt_expr("e", a);
            }
            ExprKind::Ret(a) => {
                self.opt_expr("e", a);
            }
            ExprKind::Struct(qp, fields, tail) => {
                let t = self.tr.expr_ty(e);
                self.j.kv_str("t", &self.ty_s(t));
                if let ty::Adt(adt, _) = t.kind() {
                    self.j.kv_str("p", &dpath(tcx, adt.did()));
                    let res = self.qpath_res_def(qp, e.hir_id);
                    if let Res::Def(DefKind::Variant, vd) = res {
                        self.j.kv_str("v", tcx.item_name(vd).as_str());
                    }
                }
                self.j.key("fs");
                self.j.open_arr();
                for f in fields {
                    self.j.open_arr();
                    self.j.elem_str(f.ident.name.as_str());
                    self.j.comma();
                    self.expr(f.expr);
                    self.j.close_arr();
                }
                self.j.close_arr();
                if let hir::StructTailExpr::Base(b) = tail {
                    self.j.key("tail");
                    self.expr(b);
                }
            }
            ExprKind::Repeat(a, _) => {
                self.j.kv_str("t", &self.ty_s(self.tr.expr_ty(e)));
                self.j.key("e");
                self.expr(a);
            }
            ExprKind::ConstBlock(_) | ExprKind::Continue(_) => {}
            _ => {
                self.j.kv_str("d", &format!("{:?}", std::mem::discriminant(&e.kind)));
            }
        }
        self.j.close_obj();
    }
}

fn hir_place_base<'tcx>(cp: &ty::CapturedPlace<'tcx>) -> hir::def::Res {
    match cp.place.base {
        rustc_middle::hir::place::PlaceBase::Upvar(u) => hir::def::Res::Local(u.var_path.hir_id),
        rustc_middle::hir::place::PlaceBase::Local(h) => hir::def::Res::Local(h),
        _ => hir::def::Res::Err,
    }
}

fn lit_str(l: &hir::Lit) -> String {
    use rustc_ast::LitKind;
    match l.node {
        LitKind::Str(s, _) => format!("s:{}", s.as_str()),
        LitKind::ByteStr(ref b, _) => format!("b:{:?}", b.as_byte_str()),
        LitKind::CStr(..) => "cstr".to_string(),
        LitKind::Byte(b) => format!("u8:{}", b),
        LitKind::Char(c) => format!("c:{}", c),
        LitKind::Int(v, _) => format!("i:{}", v.get()),
        LitKind::Float(s, _) => format!("f:{}", s.as_str()),
        LitKind::Bool(b) => format!("bool:{}", b),
        LitKind::Err(_) => "err".to_string(),
    }
}

fn dump_fn<'tcx>(tcx: TyCtxt<'tcx>, j: &mut J, def: LocalDefId) {
    let did = def.to_def_id();
    let dk = tcx.def_kind(did);
    j.open_obj();
    j.kv_str("id", &dpath(tcx, did));
    j.kv_str("kind", &format!("{:?}", dk));
    j.kv_str("name", tcx.item_name(did).as_str());
    j.kv_str("vis", &vis_str(tcx, did));
    let (f, l, el) = span_loc(tcx, tcx.def_span(did));
    j.kv_str("file", &f);
    j.kv_num("line", l);
    let body = tcx.hir_body_owned_by(def);
    let (_, _, bel) = span_loc(tcx, body.value.span);
    j.kv_num("end", std::cmp::max(el, bel));
    if let Some(imp) = tcx.impl_of_assoc(did) {
        j.key("impl");
        j.open_obj();
        j.kv_str("self", &tcx.type_of(imp).instantiate_identity().skip_norm_wip().to_string());
        if let Some(tr) = tcx.impl_opt_trait_ref(imp) {
            let tr = tr.instantiate_identity().skip_norm_wip();
            j.kv_str("trait", &dpath(tcx, tr.def_id));
            j.kv_str("trait_ref", &tr.to_string());
        }
        j.close_obj();
    }
    if let Some(tr) = tcx.trait_of_assoc(did) {
        j.kv_str("trait_def", &dpath(tcx, tr));
    }
    let sig = tcx.fn_sig(did).instantiate_identity().skip_norm_wip().skip_binder();
    j.key("inputs");
    j.open_arr();
    for t in sig.inputs() {
        j.elem_str(&t.to_string());
    }
    j.close_arr();
    j.kv_str("output", &sig.output().to_string());
    // predicates
    j.key("preds");
    j.open_arr();
    for (p, _) in tcx.predicates_of(did).predicates {
        j.elem_str(&p.to_string());
    }
    if let Some(parent) = tcx.predicates_of(did).parent {
        for (p, _) in tcx.predicates_of(parent).predicates {
            j.elem_str(&p.to_string());
        }
    }
    j.close_arr();
    let tr = tcx.typeck(def);
    let mut cx = Cx { tcx, tr, owner: def, j, locals: HashMap::new() };
    cx.j.key("params");
    cx.j.open_arr();
    for p in body.params {
        cx.j.comma();
        cx.pat(p.pat);
    }
    cx.j.close_arr();
    cx.j.key("body");
    cx.expr(body.value);
    j.close_obj();
}

pub fn dump<'tcx>(tcx: TyCtxt<'tcx>, krate: &str) -> String {
    let mut j = J::new();
    j.open_obj();
    j.kv_str("crate", krate);
    j.key("fns");
    j.open_arr();
    for def in tcx.hir_body_owners() {
        let dk = tcx.def_kind(def.to_def_id());
        if !matches!(dk, DefKind::Fn | DefKind::AssocFn) {
            continue;
        }
        j.comma();
        dump_fn(tcx, &mut j, def);
    }
    j.close_arr();

    // ADTs, impls, traits
    j.key("adts");
    j.open_arr();
    let items = tcx.hir_crate_items(());
    for id in items.free_items() {
        let did = id.owner_id.to_def_id();
        let dk = tcx.def_kind(did);
        if !matches!(dk, DefKind::Struct | DefKind::Enum | DefKind::Union) {
            continue;
        }
        let adt = tcx.adt_def(did);
        j.open_obj();
        j.kv_str("id", &dpath(tcx, did));
        j.kv_str("kind", &format!("{:?}", dk));
        j.kv_str("vis", &vis_str(tcx, did));
        let (f, l, _) = span_loc(tcx, tcx.def_span(did));
        j.kv_str("file", &f);
        j.kv_num("line", l);
        j.key("variants");
        j.open_arr();
        for v in adt.variants() {
            j.open_obj();
            j.kv_str("name", v.name.as_str());
            j.kv_str("ctor", &format!("{:?}", v.ctor_kind()));
            j.key("fields");
            j.open_arr();
            for fd in v.fields.iter() {
                j.open_obj();
                j.kv_str("name", fd.name.as_str());
                j.kv_str("ty", &tcx.type_of(fd.did).instantiate_identity().skip_norm_wip().to_string());
                j.kv_str("vis", &match fd.vis {
                    ty::Visibility::Public => "pub".to_string(),
                    ty::Visibility::Restricted(m) => {
                        if m.is_crate_root() { "crate".to_string() } else { format!("in:{}", tcx.def_path_str(m)) }
                    }
                });
                j.close_obj();
            }
            j.close_arr();
            j.close_obj();
        }
        j.close_arr();
        j.close_obj();
    }
    j.close_arr();

    j.key("impls");
    j.open_arr();
    for id in items.free_items() {
        let did = id.owner_id.to_def_id();
        if !matches!(tcx.def_kind(did), DefKind::Impl { .. }) {
            continue;
        }
        j.open_obj();
        j.kv_str("self", &tcx.type_of(did).instantiate_identity().skip_norm_wip().to_string());
        if let Some(tr) = tcx.impl_opt_trait_ref(did) {
            let tr = tr.instantiate_identity().skip_norm_wip();
            j.kv_str("trait", &dpath(tcx, tr.def_id));
            j.kv_str("trait_ref", &tr.to_string());
        }
        let (f, l, _) = span_loc(tcx, tcx.def_span(did));
        j.kv_str("file", &f);
        j.kv_num("line", l);
        j.kv_bool("derived", tcx.is_automatically_derived(did));
        j.key("items");
        j.open_arr();
        for it in tcx.associated_items(did).in_definition_order() {
            j.open_arr();
            j.elem_str(it.opt_name().map(|s| s.to_string()).unwrap_or_default().as_str());
            j.elem_str(&format!("{:?}", it.tag()));
            j.close_arr();
        }
        j.close_arr();
        j.close_obj();
    }
    j.close_arr();

    j.key("traits");
    j.open_arr();
    for id in items.free_items() {
        let did = id.owner_id.to_def_id();
        if !matches!(tcx.def_kind(did), DefKind::Trait) {
            continue;
        }
        j.open_obj();
        j.kv_str("id", &dpath(tcx, did));
        j.key("items");
        j.open_arr();
        for it in tcx.associated_items(did).in_definition_order() {
            j.open_arr();
            j.elem_str(it.opt_name().map(|s| s.to_string()).unwrap_or_default().as_str());
            j.elem_str(&format!("{:?}", it.tag()));
            j.elem_str(if it.defaultness(tcx).has_value() { "default" } else { "required" });
            j.close_arr();
        }
        j.close_arr();
        j.close_obj();
    }
    j.close_arr();
    j.close_obj();
    j.s
}
