//! mzk-facts: rustc_private driver that dumps HIR skeletons and MIR facts of the
//! midnight-zk workspace crates as JSON.  Injected with RUSTC_WORKSPACE_WRAPPER.
//! Zero dependencies; JSON is written by hand.
#![feature(rustc_private)]
#![allow(clippy::all)]

extern crate rustc_abi;
extern crate rustc_ast;
extern crate rustc_driver;
extern crate rustc_hir;
extern crate rustc_interface;
extern crate rustc_middle;
extern crate rustc_session;
extern crate rustc_span;

mod constdump;
mod hirdump;
mod json;
mod mirdump;

use rustc_driver::{Callbacks, Compilation};
use rustc_interface::interface::Compiler;
use rustc_middle::ty::TyCtxt;

struct Cb {
    out_dir: String,
}

impl Callbacks for Cb {
    fn after_analysis<'tcx>(&mut self, _c: &Compiler, tcx: TyCtxt<'tcx>) -> Compilation {
        let krate = tcx.crate_name(rustc_hir::def_id::LOCAL_CRATE).to_string();
        if !krate.starts_with("midnight_") {
            return Compilation::Continue;
        }
        // A crate may be compiled in several configurations (lib, lib-test, ...);
        // the orchestrator runs `check --lib` only, but keep names distinct anyway.
        let is_test = tcx.sess.opts.test;
        let suffix = if is_test { ".test" } else { "" };
        use rustc_middle::ty::print::{with_no_trimmed_paths, with_no_visible_paths, with_resolve_crate_name};
        let hir = with_no_trimmed_paths!(with_no_visible_paths!(with_resolve_crate_name!(
            hirdump::dump(tcx, &krate)
        )));
        let mir = with_no_trimmed_paths!(with_no_visible_paths!(with_resolve_crate_name!(
            mirdump::dump(tcx, &krate)
        )));
        let consts = with_no_trimmed_paths!(with_no_visible_paths!(with_resolve_crate_name!(
            constdump::dump(tcx, &krate)
        )));
        let p0 = format!("{}/{}{}.consts.json", self.out_dir, krate, suffix);
        std::fs::write(&p0, consts).expect("write const facts");
        let p1 = format!("{}/{}{}.hir.json", self.out_dir, krate, suffix);
        let p2 = format!("{}/{}{}.mir.json", self.out_dir, krate, suffix);
        std::fs::write(&p1, hir).expect("write hir facts");
        std::fs::write(&p2, mir).expect("write mir facts");
        Compilation::Continue
    }
}

fn main() {
    let mut args: Vec<String> = std::env::args().collect();
    // RUSTC_WORKSPACE_WRAPPER protocol: argv[1] is the real rustc path.
    if args.len() > 1 && (args[1].ends_with("rustc") || args[1].contains("/rustc")) {
        args.remove(1);
    }
    let out_dir = std::env::var("MZK_FACTS_OUT").unwrap_or_default();
    let is_primary = args.iter().any(|a| a.starts_with("midnight_"))
        || args.windows(2).any(|w| w[0] == "--crate-name" && w[1].starts_with("midnight_"));
    if out_dir.is_empty() || !is_primary {
        // Behave exactly like rustc.
        struct Nop;
        impl Callbacks for Nop {}
        rustc_driver::run_compiler(&args, &mut Nop);
        return;
    }
    let mut cb = Cb { out_dir };
    rustc_driver::run_compiler(&args, &mut cb);
}
