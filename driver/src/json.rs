//! Minimal JSON writer.
pub struct J {
    pub s: String,
}

impl J {
    pub fn new() -> J {
        J { s: String::with_capacity(1 << 20) }
    }
    pub fn raw(&mut self, t: &str) {
        self.s.push_str(t);
    }
    pub fn str(&mut self, t: &str) {
        self.s.push('"');
        for c in t.chars() {
            match c {
                '"' => self.s.push_str("\\\""),
                '\\' => self.s.push_str("\\\\"),
                '\n' => self.s.push_str("\\n"),
                '\r' => self.s.push_str("\\r"),
                '\t' => self.s.push_str("\\t"),
                c if (c as u32) < 0x20 => self.s.push_str(&format!("\\u{:04x}", c as u32)),
                c => self.s.push(c),
            }
        }
        self.s.push('"');
    }
    /// `"key":` (with leading comma if needed)
    pub fn key(&mut self, k: &str) {
        self.comma();
        self.str(k);
        self.s.push(':');
    }
    pub fn comma(&mut self) {
        match self.s.as_bytes().last() {
            Some(b'{') | Some(b'[') | Some(b':') | Some(b',') | None => {}
            _ => self.s.push(','),
        }
    }
    pub fn kv_str(&mut self, k: &str, v: &str) {
        self.key(k);
        self.str(v);
    }
    pub fn kv_num(&mut self, k: &str, v: i64) {
        self.key(k);
        self.s.push_str(&v.to_string());
    }
    pub fn kv_bool(&mut self, k: &str, v: bool) {
        self.key(k);
        self.s.push_str(if v { "true" } else { "false" });
    }
    pub fn open_obj(&mut self) {
        self.comma();
        self.s.push('{');
    }
    pub fn close_obj(&mut self) {
        self.s.push('}');
    }
    pub fn open_arr(&mut self) {
        self.comma();
        self.s.push('[');
    }
    pub fn close_arr(&mut self) {
        self.s.push(']');
    }
    pub fn elem_str(&mut self, v: &str) {
        self.comma();
        self.str(v);
    }
    pub fn elem_num(&mut self, v: i64) {
        self.comma();
        self.s.push_str(&v.to_string());
    }
}
