//! MIR facts: per body CFG, calls with resolved callees, asserts, simplified
//! def-use statements and field projections.
use crate::hirdump::{dpath, macro_chain, span_loc};
use crate::json::J;
use rustc_hir::def::DefKind;
use rustc_middle::mir::{
    self, AggregateKind, AssertKind, Body, Operand, Place, ProjectionElem, Rvalue, StatementKind,
    TerminatorKind,
};
use rustc_middle::ty::{self, TyCtxt, TypeVisitableExt};

struct Mx<'tcx, 'a> {
    tcx: TyCtxt<'tcx>,
    body: &'a Body<'tcx>,
    owner: rustc_hir::def_id::DefId,
    j: &'a mut J,
}

impl<'tcx, 'a> Mx<'tcx, 'a> {
    fn line(&self, sp: rustc_span::Span) -> i64 {
        let sm = self.tcx.sess.source_map();
        sm.lookup_char_pos(sp.source_callsite().lo()).line as i64
    }

    fn place_fields(&self, p: &Place<'tcx>, out: &mut Vec<(String, String)>) {
        for (base, elem) in p.iter_projections() {
            if let ProjectionElem::Field(f, _) = elem {
                let pty = base.ty(self.body, self.tcx);
                if let ty::Adt(adt, _) = pty.ty.kind() {
                    let vi = pty.variant_index.unwrap_or(rustc_abi::FIRST_VARIANT);
                    if adt.is_enum() && pty.variant_index.is_none() {
                        continue;
                    }
                    let v = adt.variant(vi);
                    if let Some(fd) = v.fields.get(f) {
                        out.push((dpath(self.tcx, adt.did()), fd.name.to_string()));
                    }
                }
            }
        }
    }

    fn place_uses(&self, p: &Place<'tcx>, out: &mut Vec<i64>) {
        out.push(p.local.as_u32() as i64);
        for (_, elem) in p.iter_projections() {
            if let ProjectionElem::Index(l) = elem {
                out.push(l.as_u32() as i64);
            }
        }
    }

    fn operand(&mut self, o: &Operand<'tcx>) {
        self.j.comma();
        match o {
            Operand::Copy(p) | Operand::Move(p) => {
                if p.projection.is_empty() {
                    self.j.raw(&p.local.as_u32().to_string());
                } else {
                    self.j.open_obj();
                    self.j.kv_num("p", p.local.as_u32() as i64);
                    self.j.kv_str("proj", &format!("{:?}", p));
                    self.j.close_obj();
                }
            }
            Operand::Constant(c) => {
                self.j.open_obj();
                let s = format!("{}", c.const_);
                self.j.kv_str("c", &s);
                if let ty::FnDef(d, _) = c.const_.ty().kind() {
                    self.j.kv_str("fn", &dpath(self.tcx, *d));
                }
                self.j.close_obj();
            }
            #[allow(unreachable_patterns)]
            _ => {
                self.j.open_obj();
                self.j.kv_str("c", "?");
                self.j.close_obj();
            }
        }
    }

    fn op_uses(&self, o: &Operand<'tcx>, uses: &mut Vec<i64>, fr: &mut Vec<(String, String)>) {
        if let Operand::Copy(p) | Operand::Move(p) = o {
            self.place_uses(p, uses);
            self.place_fields(p, fr);
        }
    }

    fn resolve(&self, def_id: rustc_hir::def_id::DefId, args: ty::GenericArgsRef<'tcx>) -> Option<String> {
        let tcx = self.tcx;
        if !matches!(tcx.def_kind(def_id), DefKind::Fn | DefKind::AssocFn) {
            return None;
        }
        if tcx.trait_of_assoc(def_id).is_none() {
            return None;
        }
        if args.len() != tcx.generics_of(def_id).count() {
            return None;
        }
        let args = tcx.erase_and_anonymize_regions(args);
        if args.has_infer() || args.has_escaping_bound_vars() {
            return None;
        }
        let env = ty::TypingEnv::post_analysis(tcx, self.owner);
        let args = match tcx.try_normalize_erasing_regions(env, ty::Unnormalized::new_wip(args)) {
            Ok(a) => a,
            Err(_) => return None,
        };
        match ty::Instance::try_resolve(tcx, env, def_id, args) {
            Ok(Some(inst)) => {
                let d = inst.def_id();
                if d != def_id {
                    Some(dpath(tcx, d))
                } else {
                    None
                }
            }
            _ => None,
        }
    }

    fn span_info(&mut self, sp: rustc_span::Span) {
        self.j.kv_num("l", self.line(sp));
        if sp.from_expansion() {
            let mc = macro_chain(sp);
            if !mc.is_empty() {
                self.j.key("x");
                self.j.open_arr();
                for m in mc {
                    self.j.elem_str(&m);
                }
                self.j.close_arr();
            }
        }
    }

    fn stmt(&mut self, st: &mir::Statement<'tcx>) {
        let StatementKind::Assign(bx) = &st.kind else {
            if let StatementKind::SetDiscriminant { place, .. } = &st.kind {
                self.j.open_obj();
                self.j.kv_num("d", place.local.as_u32() as i64);
                self.j.kv_str("k", "SetDiscriminant");
                self.j.close_obj();
            }
            return;
        };
        let (dest, rv) = (&bx.0, &bx.1);
        let mut uses: Vec<i64> = Vec::new();
        let mut fr: Vec<(String, String)> = Vec::new();
        let mut fw: Vec<(String, String)> = Vec::new();
        let mut consts: Vec<String> = Vec::new();
        self.place_fields(dest, &mut fw);
        // Index locals in the destination are uses.
        for (_, elem) in dest.iter_projections() {
            if let ProjectionElem::Index(l) = elem {
                uses.push(l.as_u32() as i64);
            }
        }
        let mut agg: Option<String> = None;
        let kind: String = match rv {
            Rvalue::Use(o, _) => {
                self.op_uses(o, &mut uses, &mut fr);
                if let Operand::Constant(c) = o {
                    consts.push(format!("{}", c.const_));
                }
                "Use".into()
            }
            Rvalue::Repeat(o, _) => {
                self.op_uses(o, &mut uses, &mut fr);
                "Repeat".into()
            }
            Rvalue::Ref(_, bk, p) => {
                self.place_uses(p, &mut uses);
                self.place_fields(p, &mut fr);
                match bk {
                    mir::BorrowKind::Mut { .. } => "RefMut".into(),
                    _ => "Ref".into(),
                }
            }
            Rvalue::RawPtr(_, p) => {
                self.place_uses(p, &mut uses);
                self.place_fields(p, &mut fr);
                "RawPtr".into()
            }
            Rvalue::Cast(ck, o, _) => {
                self.op_uses(o, &mut uses, &mut fr);
                if let Operand::Constant(c) = o {
                    consts.push(format!("{}", c.const_));
                }
                format!("Cast:{:?}", ck).split('(').next().unwrap_or("Cast").to_string()
            }
            Rvalue::BinaryOp(op, ops) => {
                self.op_uses(&ops.0, &mut uses, &mut fr);
                self.op_uses(&ops.1, &mut uses, &mut fr);
                for o in [&ops.0, &ops.1] {
                    if let Operand::Constant(c) = o {
                        consts.push(format!("{}", c.const_));
                    }
                }
                format!("Bin:{:?}", op)
            }
            Rvalue::UnaryOp(op, o) => {
                self.op_uses(o, &mut uses, &mut fr);
                format!("Un:{:?}", op)
            }
            Rvalue::Discriminant(p) => {
                self.place_uses(p, &mut uses);
                self.place_fields(p, &mut fr);
                "Discriminant".into()
            }
            Rvalue::Aggregate(ak, ops) => {
                for o in ops.iter() {
                    self.op_uses(o, &mut uses, &mut fr);
                }
                match &**ak {
                    AggregateKind::Adt(d, vi, _, _, _) => {
                        let adt = self.tcx.adt_def(*d);
                        let v = adt.variant(*vi);
                        agg = Some(format!("{}#{}", dpath(self.tcx, *d), v.name));
                        "Agg:Adt".into()
                    }
                    AggregateKind::Closure(d, _) => {
                        agg = Some(dpath(self.tcx, *d));
                        "Agg:Closure".into()
                    }
                    AggregateKind::Tuple => "Agg:Tuple".into(),
                    AggregateKind::Array(_) => "Agg:Array".into(),
                    _ => "Agg:Other".into(),
                }
            }
            Rvalue::CopyForDeref(p) => {
                self.place_uses(p, &mut uses);
                self.place_fields(p, &mut fr);
                "CopyForDeref".into()
            }
            Rvalue::ThreadLocalRef(_) => "ThreadLocalRef".into(),
            Rvalue::WrapUnsafeBinder(o, _) => {
                self.op_uses(o, &mut uses, &mut fr);
                "WrapUnsafeBinder".into()
            }
            #[allow(unreachable_patterns)]
            _ => "Other".into(),
        };
        self.j.open_obj();
        self.j.kv_num("d", dest.local.as_u32() as i64);
        if !dest.projection.is_empty() {
            self.j.kv_str("dp", &format!("{:?}", dest));
        }
        self.j.kv_str("k", &kind);
        if !uses.is_empty() {
            self.j.key("u");
            self.j.open_arr();
            for u in &uses {
                self.j.elem_num(*u);
            }
            self.j.close_arr();
        }
        if let Some(a) = agg {
            self.j.kv_str("agg", &a);
        }
        if !consts.is_empty() {
            self.j.key("c");
            self.j.open_arr();
            for c in &consts {
                self.j.elem_str(c);
            }
            self.j.close_arr();
        }
        for (key, v) in [("fr", &fr), ("fw", &fw)] {
            if !v.is_empty() {
                self.j.key(key);
                self.j.open_arr();
                for (a, f) in v.iter() {
                    self.j.open_arr();
                    self.j.elem_str(a);
                    self.j.elem_str(f);
                    self.j.close_arr();
                }
                self.j.close_arr();
            }
        }
        self.j.kv_num("l", self.line(st.source_info.span));
        self.j.close_obj();
    }

    fn term(&mut self, t: &mir::Terminator<'tcx>) {
        let sp = t.source_info.span;
        self.j.open_obj();
        match &t.kind {
            TerminatorKind::Goto { target } => {
                self.j.kv_str("k", "goto");
                self.j.kv_num("t", target.as_u32() as i64);
            }
            TerminatorKind::SwitchInt { discr, targets } => {
                self.j.kv_str("k", "switch");
                self.j.key("on");
                self.operand(discr);
                self.j.key("vs");
                self.j.open_arr();
                for (v, _) in targets.iter() {
                    self.j.elem_str(&v.to_string());
                }
                self.j.close_arr();
                self.j.key("ts");
                self.j.open_arr();
                for (_, bb) in targets.iter() {
                    self.j.elem_num(bb.as_u32() as i64);
                }
                self.j.elem_num(targets.otherwise().as_u32() as i64);
                self.j.close_arr();
                self.span_info(sp);
            }
            TerminatorKind::UnwindResume => self.j.kv_str("k", "resume"),
            TerminatorKind::UnwindTerminate(_) => self.j.kv_str("k", "terminate"),
            TerminatorKind::Return => self.j.kv_str("k", "ret"),
            TerminatorKind::Unreachable => self.j.kv_str("k", "unreachable"),
            TerminatorKind::Drop { place, target, unwind, .. } => {
                self.j.kv_str("k", "drop");
                self.j.kv_num("p", place.local.as_u32() as i64);
                self.j.kv_num("t", target.as_u32() as i64);
                if let mir::UnwindAction::Cleanup(bb) = unwind {
                    self.j.kv_num("uw", bb.as_u32() as i64);
                }
            }
            TerminatorKind::Call { func, args, destination, target, unwind, .. } => {
                self.j.kv_str("k", "call");
                let fty = func.ty(self.body, self.tcx);
                match fty.kind() {
                    ty::FnDef(d, ga) => {
                        self.j.kv_str("f", &dpath(self.tcx, *d));
                        if !ga.is_empty() {
                            self.j.key("ga");
                            self.j.open_arr();
                            for a in ga.iter() {
                                self.j.elem_str(&a.to_string());
                            }
                            self.j.close_arr();
                        }
                        if let Some(r) = self.resolve(*d, ga) {
                            self.j.kv_str("rs", &r);
                        }
                    }
                    _ => {
                        self.j.kv_str("fty", &fty.to_string());
                        if let Operand::Copy(p) | Operand::Move(p) = func {
                            self.j.kv_num("fl", p.local.as_u32() as i64);
                        }
                    }
                }
                self.j.key("args");
                self.j.open_arr();
                for a in args.iter() {
                    self.operand(&a.node);
                }
                self.j.close_arr();
                self.j.kv_num("d", destination.local.as_u32() as i64);
                if !destination.projection.is_empty() {
                    self.j.kv_str("dp", &format!("{:?}", destination));
                }
                if let Some(t) = target {
                    self.j.kv_num("t", t.as_u32() as i64);
                }
                if let mir::UnwindAction::Cleanup(bb) = unwind {
                    self.j.kv_num("uw", bb.as_u32() as i64);
                }
                self.span_info(sp);
            }
            TerminatorKind::TailCall { .. } => self.j.kv_str("k", "tailcall"),
            TerminatorKind::Assert { cond, expected, msg, target, unwind } => {
                self.j.kv_str("k", "assert");
                let m = match &**msg {
                    AssertKind::BoundsCheck { .. } => "BoundsCheck".to_string(),
                    AssertKind::Overflow(op, _, _) => format!("Overflow:{:?}", op),
                    AssertKind::OverflowNeg(_) => "OverflowNeg".to_string(),
                    AssertKind::DivisionByZero(_) => "DivisionByZero".to_string(),
                    AssertKind::RemainderByZero(_) => "RemainderByZero".to_string(),
                    AssertKind::MisalignedPointerDereference { .. } => "Misaligned".to_string(),
                    AssertKind::NullPointerDereference => "NullPtr".to_string(),
                    _ => "Other".to_string(),
                };
                self.j.kv_str("m", &m);
                self.j.kv_bool("exp", *expected);
                self.j.key("c");
                self.operand(cond);
                // operands of the assert message (index / len / arithmetic operands)
                self.j.key("ops");
                self.j.open_arr();
                match &**msg {
                    AssertKind::BoundsCheck { len, index } => {
                        self.operand(index);
                        self.operand(len);
                    }
                    AssertKind::Overflow(_, a, b) => {
                        self.operand(a);
                        self.operand(b);
                    }
                    AssertKind::OverflowNeg(a)
                    | AssertKind::DivisionByZero(a)
                    | AssertKind::RemainderByZero(a) => {
                        self.operand(a);
                    }
                    _ => {}
                }
                self.j.close_arr();
                self.j.kv_num("t", target.as_u32() as i64);
                if let mir::UnwindAction::Cleanup(bb) = unwind {
                    self.j.kv_num("uw", bb.as_u32() as i64);
                }
                self.span_info(sp);
            }
            _ => self.j.kv_str("k", "other"),
        }
        self.j.close_obj();
    }
}

pub fn dump<'tcx>(tcx: TyCtxt<'tcx>, krate: &str) -> String {
    let mut j = J::new();
    j.open_obj();
    j.kv_str("crate", krate);
    j.key("bodies");
    j.open_arr();
    for def in tcx.hir_body_owners() {
        let did = def.to_def_id();
        let dk = tcx.def_kind(did);
        if !matches!(dk, DefKind::Fn | DefKind::AssocFn | DefKind::Closure) {
            continue;
        }
        if tcx.is_constructor(did) {
            continue;
        }
        let body: &Body<'tcx> = tcx.optimized_mir(did);
        j.open_obj();
        j.kv_str("id", &dpath(tcx, did));
        j.kv_str("kind", &format!("{:?}", dk));
        let (f, l, _) = span_loc(tcx, tcx.def_span(did));
        j.kv_str("file", &f);
        j.kv_num("line", l);
        j.kv_num("argc", body.arg_count as i64);
        j.key("locals");
        j.open_arr();
        let mut names: std::collections::HashMap<u32, String> = std::collections::HashMap::new();
        for vdi in &body.var_debug_info {
            if let mir::VarDebugInfoContents::Place(p) = &vdi.value {
                if p.projection.is_empty() {
                    names.entry(p.local.as_u32()).or_insert(vdi.name.to_string());
                }
            }
        }
        for (l, decl) in body.local_decls.iter_enumerated() {
            j.open_obj();
            j.kv_str("t", &decl.ty.to_string());
            if let Some(n) = names.get(&l.as_u32()) {
                j.kv_str("n", n);
            }
            j.close_obj();
        }
        j.close_arr();
        // upvar names for closures
        if matches!(dk, DefKind::Closure) {
            j.key("upvars");
            j.open_arr();
            for vdi in &body.var_debug_info {
                if let mir::VarDebugInfoContents::Place(p) = &vdi.value {
                    if !p.projection.is_empty() && p.local.as_u32() == 1 {
                        j.elem_str(&vdi.name.to_string());
                    }
                }
            }
            j.close_arr();
        }
        j.key("blocks");
        j.open_arr();
        {
            let mut mx = Mx { tcx, body, owner: did, j: &mut j };
            for (_bb, data) in body.basic_blocks.iter_enumerated() {
                mx.j.open_obj();
                if data.is_cleanup {
                    mx.j.kv_bool("cu", true);
                }
                mx.j.key("s");
                mx.j.open_arr();
                for st in &data.statements {
                    mx.stmt(st);
                }
                mx.j.close_arr();
                mx.j.key("t");
                mx.term(data.terminator());
                mx.j.close_obj();
            }
        }
        j.close_arr();
        j.close_obj();
    }
    j.close_arr();
    j.close_obj();
    j.s
}
