#!/usr/bin/env python3
"""Regenerates MANIFEST.json from analysis/manifest_data.py (single source of truth)."""
import json, os, sys
sys.path.insert(0, os.path.dirname(os.path.abspath(__file__)))
from analysis import manifest_data as md

checks = []
for pid, d in sorted(md.CLAIMED.items()):
    checks.append(dict(
        property_id=pid,
        quick_cmd=f'./check {pid} --tier quick',
        thorough_cmd=f'./check {pid} --tier thorough',
        evidence_file=f'evidence/{pid}.json',
        replay_cmd_template=f'./check {pid} --replay {{path}}',
        engine='mzk-static',
        level_claimed=dict(category='other', text=d['text'] + ' The complete, current rule list of this check (added since: value-dependence, sibling, who-may-call, compile-time-constant and '
                           'defect-specific rules, and the profile rules N1 — operations, literals and def-use shape of every function in the file scope of the property — '
                           'and N2 — no added narrowing) is in DESIGN.md §I.3 and in evidence.coverage.rules. Thorough tier = the same rules re-evaluated under the alternative '
                           'feature configuration + the checker-must-fire mutants (hand-written, reverted repairs and sub-agent seeds) + the behaviour-preserving edits '
                           '(must stay silent) of this property.',
                           design_ref=d.get('design_ref', 'DESIGN.md Part I §I.3 ' + pid + ' (rules as built); Part II §4 ' + pid + ' (rationale)')),
        level_note=d['note'],
        technique=d['technique'],
    ))
m = dict(
    version=1,
    setup_cmd='cd driver && CARGO_NET_OFFLINE=true cargo +nightly build --release --offline',
    hooks=dict(guard='none (static analysis: no source hooks)', enable='n/a — checks read /repo through the compiler front-end, nothing is instrumented',
               baseline_off_cmd='cd /repo && cargo test --workspace --no-fail-fast --offline', source_commits=[], add_only=True),
    engines=[dict(name='mzk-static', path='driver/ + analysis/', serves_properties=sorted(md.CLAIMED),
                  kind_free_text='rustc_private driver dumping HIR/typeck/MIR facts of the real build + repository-specific rule engines (Python) over those facts')],
    checks=checks,
    notes=md.NOTES,
    not_applicable=[dict(property_id=k, reason=v) for k, v in sorted(md.NOT_APPLICABLE.items())],
)
json.dump(m, open(os.path.join(os.path.dirname(os.path.abspath(__file__)), 'MANIFEST.json'), 'w'), indent=1)
print('MANIFEST.json:', len(checks), 'checks,', len(md.NOT_APPLICABLE), 'not applicable')
