#!/usr/bin/env python3
"""Behaviour-preserving edits (selftest/benign/): apply each to a scratch copy of /repo and require the named checks to stay silent (exit 0).
A CHECK-ERROR means the edited copy does not compile (a broken patch, not a verdict).  Usage: run_benign.py [--only substr]"""
import json, os, shutil, subprocess, sys, tempfile
HERE = os.path.dirname(os.path.abspath(__file__))
VERIF = os.path.dirname(HERE)
SCRATCH = os.environ.get('MZK_SCRATCH', '/var/tmp/vt')
cases = json.load(open(os.path.join(HERE, 'benign', 'cases.json')))['cases']
only = sys.argv[sys.argv.index('--only') + 1] if '--only' in sys.argv else None
bad = 0
for c in cases:
    if only and only not in c['patch']:
        continue
    d = tempfile.mkdtemp(prefix='benign.', dir=SCRATCH)
    try:
        subprocess.run(['rsync', '-a', '--exclude', 'target', '--exclude', '.git', '/repo/', d + '/'], check=True)
        p = subprocess.run(['patch', '-p1', '-s', '-d', d, '-i', os.path.join(HERE, 'benign', c['patch'])], capture_output=True, text=True)
        if p.returncode:
            print('PATCH-FAILED', c['patch'], p.stdout[-200:], p.stderr[-200:]); bad += 1; continue
        for prop in c['properties']:
            env = dict(os.environ, MZK_REPO=d, MZK_EVIDENCE_SUFFIX='.benign')
            r = subprocess.run([os.path.join(VERIF, 'check'), prop], capture_output=True, text=True, env=env, cwd=VERIF)
            out = r.stdout + r.stderr
            verdict = 'SILENT' if r.returncode == 0 else ('CHECK-ERROR' if 'CHECK-ERROR' in out else 'FALSE-ALARM')
            print(f'{verdict:12s} {prop} {c["patch"]}', flush=True)
            if verdict != 'SILENT':
                bad += 1
                print('    ' + '\n    '.join(l[:300] for l in out.splitlines() if l.startswith('  [') or 'CHECK-ERROR' in l)[:1500], flush=True)
    finally:
        shutil.rmtree(d, ignore_errors=True)
print('benign edits:', 'all silent' if not bad else f'{bad} problem(s)')
sys.exit(1 if bad else 0)
