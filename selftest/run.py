#!/usr/bin/env python3
"""Self-tests of the checkers ("the checker must fire"): apply each patch of cases.json to a scratch COPY of /repo (outside /repo and /verif),
run the named check against the copy (MZK_REPO), require exit 1 and the expected rule instance in the report, then delete the copy.
Usage: run.py [--jobs N] [--only substr]"""
import json, os, shutil, subprocess, sys, tempfile, concurrent.futures as cf
HERE = os.path.dirname(os.path.abspath(__file__))
VERIF = os.path.dirname(HERE)
SCRATCH = os.environ.get('MZK_SCRATCH', '/var/tmp/vt')


def run_case(c):
    os.makedirs(SCRATCH, exist_ok=True)
    d = tempfile.mkdtemp(prefix='selftest.', dir=SCRATCH)
    try:
        subprocess.run(['rsync', '-a', '--exclude', 'target', '--exclude', '.git', '/repo/', d + '/'], check=True)
        pf = c['patch'] if os.path.isabs(c['patch']) else os.path.join(HERE, 'patches', c['patch'])
        p = subprocess.run(['patch', '-p1', '-s', '-d', d, '-i', pf], capture_output=True, text=True)
        if p.returncode != 0:
            return c, 'PATCH-FAILED', p.stdout[-300:] + p.stderr[-300:]
        env = dict(os.environ, MZK_REPO=d, MZK_EVIDENCE_SUFFIX='.selftest')
        # tier 'thorough': the change is visible under an alternative feature configuration only (the nested run skips the suites: MZK_REPO is set)
        r = subprocess.run([os.path.join(VERIF, 'check'), c['property']] + (['--tier', 'thorough'] if c.get('tier') == 'thorough' else []), capture_output=True, text=True, env=env, cwd=VERIF)
        out = r.stdout + r.stderr
        if 'CHECK-ERROR' in out:
            return c, 'CHECK-ERROR', out[-600:]
        fired = r.returncode == 1 and c['expect'] in out
        return c, 'FIRED' if fired else ('WRONG-INSTANCE' if r.returncode == 1 else 'MISSED'), out[-500:] if not fired else ''
    finally:
        shutil.rmtree(d, ignore_errors=True)


def main():
    jobs = 3
    only = None
    a = sys.argv[1:]
    if '--jobs' in a:
        jobs = int(a[a.index('--jobs') + 1])
    if '--only' in a:
        only = a[a.index('--only') + 1]
    cases = load_cases(None)
    if only:
        cases = [c for c in cases if only in c['patch'] or only == c['property']]
    return run_all(cases, jobs)


def load_benign(prop=None):
    """behaviour-preserving edits: (patch path, property) pairs that must stay silent"""
    bp = os.path.join(HERE, 'benign', 'cases.json')
    out = []
    if os.path.exists(bp):
        for c in json.load(open(bp))['cases']:
            for p in c['properties']:
                if prop is None or p == prop:
                    out.append(dict(patch=os.path.join(HERE, 'benign', c['patch']), property=p))
    return out


def run_benign_case(c):
    os.makedirs(SCRATCH, exist_ok=True)
    d = tempfile.mkdtemp(prefix='benign.', dir=SCRATCH)
    try:
        subprocess.run(['rsync', '-a', '--exclude', 'target', '--exclude', '.git', '/repo/', d + '/'], check=True)
        p = subprocess.run(['patch', '-p1', '-s', '-d', d, '-i', c['patch']], capture_output=True, text=True)
        if p.returncode != 0:
            return c, 'PATCH-FAILED', p.stdout[-300:] + p.stderr[-300:]
        env = dict(os.environ, MZK_REPO=d, MZK_EVIDENCE_SUFFIX='.benign')
        r = subprocess.run([os.path.join(VERIF, 'check'), c['property']], capture_output=True, text=True, env=env, cwd=VERIF)
        out = r.stdout + r.stderr
        if r.returncode == 0:
            return c, 'SILENT', ''
        return c, ('CHECK-ERROR' if 'CHECK-ERROR' in out else 'FALSE-ALARM'), out[-600:]
    finally:
        shutil.rmtree(d, ignore_errors=True)


def load_cases(prop=None):
    cases = json.load(open(os.path.join(HERE, 'cases.json')))['cases']
    # the seeded changes written by independent sub-agents (seeded/<id>/patch.diff) are part of the suite: expectation = first rule that reports them
    sd = os.path.join(VERIF, 'seeded')
    for pid in sorted(os.listdir(sd)) if os.path.isdir(sd) else []:
        mp = os.path.join(sd, pid, 'meta.json')
        if os.path.exists(mp):
            m = json.load(open(mp))
            if m.get('reported_by') and m['reported_by'] != 'MISSED':
                cases.append(dict(patch=os.path.join(sd, pid, 'patch.diff'), property=m['property'], expect='[' + m['reported_by'].split(',')[0] + ']', tier=m.get('tier', 'quick')))
    if prop:
        cases = [c for c in cases if c['property'] == prop]
    return cases


def run_all(cases, jobs):
    bad = 0
    results = []
    with cf.ThreadPoolExecutor(max_workers=jobs) as ex:
        for c, verdict, detail in ex.map(run_case, cases):
            print(f"{verdict:15s} {c['property']} {c['patch']}  (expect `{c['expect']}`)", flush=True)
            if verdict != 'FIRED':
                bad += 1
                print('    ' + detail.replace('\n', '\n    ')[-700:], flush=True)
            results.append(dict(patch=c['patch'], property=c['property'], verdict=verdict))
    json.dump(results, open(os.path.join(HERE, 'last_results.json'), 'w'), indent=1)
    print(f'{len(cases) - bad}/{len(cases)} self-tests fired')
    return 1 if bad else 0


if __name__ == '__main__':
    sys.exit(main())
