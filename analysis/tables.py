"""Frozen repository-specific tables.  Every row was confirmed by reading the code; one line of reason each."""

# ConstraintSystem fields deliberately outside the pinned (hashed) view.
C03_PINNED_EXCLUSIONS = {
    'unblinded_advice_columns': 'prover-side blinding choice; does not change the relation checked by the verifier',
    'num_advice_queries': 'derived counter of advice_queries (which is pinned)',
    'general_column_annotations': 'debug metadata (HashMap of names); must stay out of the hashed view (C17 determinism)',
}

# Bodies that own a proof transcript and call prepare() but are not acceptance decisions.
C03_PREPARE_OWNER_EXEMPT = {
    'midnight_aggregator::light_aggregator::LightAggregator::aggregate_proofs::{closure}':
        'prover side of aggregation: inner proofs are re-run only to derive the accumulator (an invalid inner proof is returned as Err); '
        'acceptance is decided by the in-circuit verifier and by LightAggregator::verify',
}

# (function | kind | detail) -> reason the site cannot fire for any batch
C15_PANIC_TRIAGE = {
}

# key = 'fn|kind|detail|labels' -> reason the flow is harmless
C16_TAINT_TRIAGE = {
    'midnight_proofs::plonk::verifier::verify_algebraic_constraints|index|alloc::vec::Vec[Range]|integer read from proof':
        'l_i_s is built three statements earlier from max_instance_len = max over all instance columns, so '
        'offset + instances.len() <= l_i_s.len() for every column by construction (max() is a lower bound the analysis drops)',
    'midnight_proofs::utils::arithmetic::compute_inner_product|assert|assert_eq!(!(*left_val == *right_val))|integer read from proof':
        'only reached with b = l_i_s[offset..offset + a.len()]: both slices have a.len() elements by construction',
    'midnight_proofs::plonk::VerifyingKey::from_parts|assert-on-checked|assert!(!(*k <= PrimeField::S))|int decoded from bytes in VerifyingKey::read_from_cs':
        'same condition as the caller\'s escaping test `k as u32 > F::S` in read_from_cs (pinned by C16.R2 read_from_cs:k-guard)',
    'midnight_proofs::poly::domain::EvaluationDomain::new|assert-on-checked|assert!(!(extended_k <= PrimeField::S))|int decoded from bytes in VerifyingKey::read_from_cs':
        'read_from_cs repeats the extended_k computation and rejects extended_k > S before the call (pinned by C16.R2 read_from_cs:extended-k-guard)',
    'midnight_proofs::poly::domain::EvaluationDomain::new|assert-on-checked|assert_eq!(!(*left_val == *right_val))|int decoded from bytes in VerifyingKey::read_from_cs':
        'algebraic fact: extended_omega^n has order exactly 2^(extended_k-k) for every k <= extended_k <= S, so the loop collects that many values',
    'midnight_aggregator::inner_product_argument::ipa_verify|assert-on-checked|assert!(!bases1.len().is_power_of_two())|integer read from proof':
        'LightAggregator::verify resizes both base vectors to bases1.len().next_power_of_two() immediately before the call',
    'midnight_aggregator::inner_product_argument::inner_product|assert-on-checked|assert_eq!(!(*left_val == *right_val))|integer read from proof':
        'called on the two halves / equally resized vectors inside ipa_verify: equal lengths follow from the power-of-two resize in the caller',
}

# ZKIR operation pairs whose off-circuit side is a method rather than `<op>_offcircuit`
C18_MANUAL_PAIRS = [
    ('midnight_zkir::instructions::operations::into_bytes::<impl midnight_zkir::types::IrValue>::into_bytes',
     'midnight_zkir::instructions::operations::into_bytes::into_bytes_incircuit'),
    ('midnight_zkir::instructions::operations::from_bytes::<impl midnight_zkir::types::IrValue>::from_bytes',
     'midnight_zkir::instructions::operations::from_bytes::from_bytes_incircuit'),
    ('midnight_zkir::instructions::operations::publish::<impl midnight_zkir::types::CircuitValue>::as_public_input',
     'midnight_zkir::instructions::operations::publish::publish_incircuit'),
]

C18_DOMAIN_SPECIAL = {
    'inner_product_incircuit': ('same-as-mul', 'off-circuit types every product through mul_offcircuit; in-circuit dispatches on the first pair'),
    'load_incircuit': ('get_t', 'both Load arms fetch every witness value through get_t(.., t, ..) which applies IrValue::check_type(t) before either implementation runs'),
}
C18_DELEGATION_EXEMPT = {
    'Publish': 'off-circuit publishing records the value; its encoding happens in format_instance via CircuitValue::as_public_input, '
               'which R1 shows to have an arm for all six types, as has publish_incircuit',
}
C18_PARTIAL_EXEMPT_FNS = set()
C18_PARTIAL_EXEMPT_SITES = {
    'utils::big_to_fe:BigUint %': 'the divisor is utils::modulus::<F>(), the (non-zero) field modulus parsed from PrimeField::MODULUS',
}

C18_TAINT_TRIAGE = {
    'midnight_proofs::circuit::value::Value::transpose_vec|assert|assert_eq!(!(*left_val == *right_val))|IrType::Bytes.0':
        'only reached from load_incircuit with values that get_t already checked against t = Bytes(n) (IrValue::check_type compares the length with n)',
    'midnight_zkir::instructions::operations::from_bytes::from_bytes_incircuit|index-untrusted-len|alloc::vec::Vec[usize]|IrType::Bytes.0':
        'load_incircuit(.., t = JubjubPoint, &[one value]) returns exactly one value (the Bytes arm, where the label originates, is not taken)',
    'midnight_zkir::utils::insert_many|assert|assert_eq!(!(*left_val == *right_val))|IrType::Bytes.0':
        'Load produces one value per output name by construction (chunks(n) of n * outputs.len() bytes); all other operations have a fixed output arity pinned by C18.R2',
}

# ---------------------------------------------------------------- schedule engine (C01/C14/C20)
SCHED_FIELD_ALIAS = {
    # one commitment / polynomial per permutation column
    'permutation::VerifyingKey.commitments': 'permutation::Argument.columns',
    'permutation::ProvingKey.polys': 'permutation::Argument.columns',
    'permutation::ProvingKey.permutations': 'permutation::Argument.columns',
    # Msm keeps parallel vectors (Msm::new asserts bases.len() == scalars.len())
    'msm::Msm.scalars': 'msm::Msm.bases',
}
SCHED_COUNT_ALIAS = {
    # documented invariant of ConstraintSystem: "Should have same length as num_advice_columns / num_challenges"
    'circuit::ConstraintSystem.num_advice_columns': 'circuit::ConstraintSystem.advice_column_phase',
    'circuit::ConstraintSystem.num_challenges': 'circuit::ConstraintSystem.challenge_phase',
}
SCHED_PASSTHROUGH = {'midnight_proofs::poly::batch_invert_rational'}
SCHED_DOM_EQUIV = {
    # h(X) is truncated to (n-1)*get_quotient_poly_degree() coefficients and cut by chunks_exact(n-1)
    'chunks(call(EvaluationDomain::extended_to_coeff))': 'call(EvaluationDomain::get_quotient_poly_degree)',
    # ipa_prove asserts scalars.len() == bases1.len() == bases2.len() at entry; the verifier has no scalars
    'param:scalars': 'param:bases1',
    # ParamsKZG keeps 2^k monomial and 2^k Lagrange bases (constructor invariant; the reader derives n = 1 << k from the k it read)
    'params::ParamsKZG.g': 'PARAMS_N',
    'params::ParamsKZG.g_lagrange': 'PARAMS_N',
    'range((i:1 << len<READ>))': 'PARAMS_N',
}


def golden_plonk():
    """Golden Fiat–Shamir schedule (prover view), written from the protocol: halo2 multipoint PLONK + vk representative,
    committed instances, length-prefixed plain instances, trash argument.  NOT copied from either implementation."""
    S, Pt = 'F', 'Commitment'
    def op(k, t): return ('op', k, t, 'golden')
    def loop(d, *body): return ('loop', d, ('seq', list(body)))
    CS = 'circuit::ConstraintSystem.'
    PH = 'call(ConstraintSystem::phases)'
    return ('seq', [
        op('common', S),                                                     # vk representative
        loop('PROOFS',
             loop('COMMITTED_COLS', op('common', Pt)),
             loop('PLAIN_COLS', op('common', S), loop('INST_VALUES', op('common', S)))),
        loop(PH,
             loop('PROOFS', loop(f'filter({CS}advice_column_phase,(item<{PH}> == item<{CS}advice_column_phase>))', op('write', Pt))),
             loop(f'filter({CS}challenge_phase,(item<{PH}> == item<{CS}challenge_phase>))', op('squeeze', S))),
        op('squeeze', S),                                                    # theta
        loop('PROOFS', loop(CS + 'lookups', op('write', Pt), op('write', Pt))),
        op('squeeze', S), op('squeeze', S),                                  # beta, gamma
        loop('PROOFS', loop('chunks(permutation::Argument.columns)', op('write', Pt))),
        loop('PROOFS', loop(CS + 'lookups', op('write', Pt))),
        op('squeeze', S),                                                    # trash challenge
        loop('PROOFS', loop(CS + 'trashcans', op('write', Pt))),
        op('write', Pt),                                                     # vanishing random poly
        op('squeeze', S),                                                    # y
        loop('call(EvaluationDomain::get_quotient_poly_degree)', op('write', Pt)),
        op('squeeze', S),                                                    # x
        loop('PROOFS', loop(f'filter({CS}instance_queries,(L:midnight_proofs::plonk::circuit::Column.index() < len<COMMITTED_COLS>))', op('write', S))),
        loop('PROOFS', loop(CS + 'advice_queries', op('write', S))),
        loop(CS + 'fixed_queries', op('write', S)),
        op('write', S),                                                      # random_eval
        loop('permutation::Argument.columns', op('write', S)),
        loop('PROOFS', loop('chunks(permutation::Argument.columns)', op('write', S), op('write', S),
                            ('alt', '(ITER.len() > i:0)', [op('write', S), ('seq', [])]))),
        loop('PROOFS', loop(CS + 'lookups', *[op('write', S)] * 5)),
        loop('PROOFS', loop(CS + 'trashcans', op('write', S))),
        op('squeeze', S), op('squeeze', S),                                  # x1, x2
        op('write', Pt),                                                     # f commitment
        op('squeeze', S),                                                    # x3
        loop('range(L:alloc::vec::Vec.len())', op('write', S)),              # one evaluation per point set
        op('squeeze', S),                                                    # x4
        op('write', Pt),                                                     # pi
    ])

# ---------------------------------------------------------------- C17
_PL = 'midnight_proofs::plonk::'
C17_PAIRS = [
    (_PL + 'VerifyingKey::write', _PL + 'VerifyingKey::read_from_cs'),
    (_PL + 'permutation::VerifyingKey::write', _PL + 'permutation::VerifyingKey::read'),
    (_PL + 'ProvingKey::write', _PL + 'ProvingKey::read'),
    (_PL + 'permutation::ProvingKey::write', _PL + 'permutation::ProvingKey::read'),
    ('midnight_proofs::poly::Polynomial::write', 'midnight_proofs::poly::Polynomial::read'),
    ('midnight_proofs::utils::helpers::write_polynomial_slice', 'midnight_proofs::utils::helpers::read_polynomial_vec'),
    ('<C as midnight_proofs::utils::helpers::ProcessedSerdeObject>::write', '<C as midnight_proofs::utils::helpers::ProcessedSerdeObject>::read'),
    ('midnight_proofs::poly::kzg::params::ParamsKZG::write_custom', 'midnight_proofs::poly::kzg::params::ParamsKZG::read_custom'),
    ('midnight_proofs::poly::kzg::params::ParamsVerifierKZG::write', 'midnight_proofs::poly::kzg::params::ParamsVerifierKZG::read'),
    ('midnight_zk_stdlib::ZkStdLibArch::write', 'midnight_zk_stdlib::ZkStdLibArch::read'),
    ('midnight_zk_stdlib::MidnightVK::write', 'midnight_zk_stdlib::MidnightVK::read'),
    ('midnight_zk_stdlib::MidnightPK::write', 'midnight_zk_stdlib::MidnightPK::read'),
    ('<midnight_zkir::zkir::ZkirRelation as midnight_zk_stdlib::Relation>::write_relation',
     '<midnight_zkir::zkir::ZkirRelation as midnight_zk_stdlib::Relation>::read_relation'),
]
_FP = 'midnight_proofs::circuit::floor_planner::'
C17_HASH_ITER_OK = {
    '<' + _FP + 'v1::V1 as midnight_proofs::plonk::circuit::FloorPlanner>::synthesize|HashMap::values':
        'column_allocations.values().map(..).max(): a commutative reduction',
    _FP + 'v1::strategy::slot_in::{closure#0}|HashSet::iter':
        'region.columns() is collected into a Vec and sort_unstable()-ed before use (the source comments on it)',
    _FP + 'v1::strategy::slot_in_biggest_advice_first::{closure#0}|HashSet::iter':
        'sort key counts the advice columns of the set: filter(..).count() is order-insensitive',
    '<' + _FP + 'single_pass::SingleChipLayouter as midnight_proofs::circuit::Layouter>::assign_region|<std::collections::hash::set::HashSet as core::iter::traits::collect::IntoIterator>::into_iter':
        'first loop takes a max over the columns, second inserts region_start + rows under each column key: both order-insensitive',
    '<' + _FP + 'single_pass::SingleChipLayouter as midnight_proofs::circuit::Layouter>::assign_region|<&std::collections::hash::set::HashSet as core::iter::traits::collect::IntoIterator>::into_iter':
        'region_start = max over the region columns of their current usage: a commutative reduction',
    '<' + _FP + 'single_pass::SingleChipLayouter as midnight_proofs::circuit::Layouter>::assign_table|HashMap::keys':
        'pushes the table columns into self.table_columns, which is only queried with contains()',
    '<' + _FP + 'single_pass::SingleChipLayouter as midnight_proofs::circuit::Layouter>::assign_table|<std::collections::hash::map::HashMap as core::iter::traits::collect::IntoIterator>::into_iter':
        'fill_from_row per table column: each call writes only its own column',
    _FP + 'v1::AssignmentPass::assign_table|HashMap::keys': 'same as single_pass assign_table: membership list only',
    _FP + 'v1::AssignmentPass::assign_table|<std::collections::hash::map::HashMap as core::iter::traits::collect::IntoIterator>::into_iter':
        'fill_from_row per table column: each call writes only its own column',
    'midnight_proofs::circuit::table_layouter::compute_table_lengths|HashMap::iter':
        'checks every column and folds the lengths for equality: the Ok value is order-insensitive (only which error is reported first may vary)',
    'midnight_proofs::dev::cost_model::cost_model_options|HashSet::iter':
        'development cost model (all()/max over region columns), not part of key generation; reachable only through class-hierarchy fan-out',
    'midnight_circuits::verifier::kzg::construct_intermediate_sets|HashMap::iter':
        'builds the inverse map point_index -> point: every insertion is addressed by the stored index (the source comments that key order is irrelevant)',
    '<midnight_circuits::map::cpu::MapMt as core::iter::traits::collect::IntoIterator>::into_iter|<std::collections::hash::map::HashMap as core::iter::traits::collect::IntoIterator>::into_iter':
        'CPU-side helper container exposing its own iteration; the edge is a class-hierarchy over-approximation of an unresolved IntoIterator::into_iter, it is not called during key generation',
}
C17_NONDET_OK = {}

# ---------------------------------------------------------------- C10 / C11 CHECKED decoders: (decoder, [validators (alternatives as list)], what they enforce)
_C = 'midnight_curves::'
_FQ, _FP = _C + 'bls12_381::fq::Fq', _C + 'bls12_381::fp::Fp'
# leaf functions that compare a candidate against the field modulus (C10.R2)
C10_VALIDATORS = [
    _C + 'bls12_381::fp::is_valid',
    _C + 'bls12_381::fp::is_valid_u64',
    _C + 'bls12_381::fq::is_valid',
    _C + 'curve25519::fp::Fp::is_less_than_modulus',
    _C + 'jubjub::fr::Fr::from_bytes',
]
C10_DECODERS = [
    (_FQ + '::from_bytes_le', ['blst_scalar_fr_check'], 'scalar < r'),
    (_FQ + '::from_bytes_be', ['blst_scalar_fr_check'], 'scalar < r'),
    (_FQ + '::from_u64s_le', ['blst_scalar_fr_check'], 'scalar < r'),
    ('<' + _FQ + ' as ff::PrimeField>::from_repr', ['blst_scalar_fr_check'], 'scalar < r'),
    ('<' + _FQ + ' as ' + _C + 'serde_traits::SerdeObject>::from_raw_bytes', [['::is_less_than_modulus', 'blst_scalar_fr_check', '::is_valid']], 'Montgomery limbs < r (RawBytes format is documented to check this)'),
    ('<' + _FQ + ' as ' + _C + 'serde_traits::SerdeObject>::read_raw', [['SerdeObject>::from_raw_bytes']], 'delegates to the checked from_raw_bytes'),
    (_FP + '::from_bytes_le', ['::is_valid'], 'element < p'),
    (_FP + '::from_bytes_be', ['::is_valid'], 'element < p'),
    (_FP + '::from_u64s_le', ['::is_valid_u64'], 'element < p'),
    ('<' + _FP + ' as ff::PrimeField>::from_repr', ['::is_valid'], 'element < p'),
    ('<' + _FP + ' as ' + _C + 'serde_traits::SerdeObject>::from_raw_bytes', [['::is_less_than_modulus', '::is_valid', '::is_valid_u64']], 'Montgomery limbs < p (RawBytes format is documented to check this)'),
    ('<' + _FP + ' as ' + _C + 'serde_traits::SerdeObject>::read_raw', [['SerdeObject>::from_raw_bytes']], 'delegates to the checked from_raw_bytes'),
    (_C + 'bls12_381::g2::<impl ff::PrimeField for ' + _C + 'bls12_381::fp2::Fp2>::from_repr', ['::is_valid'], 'both coefficients < p'),
    (_C + 'jubjub::fr::Fr::from_bytes', [_C + 'arithmetic::sbb'], 'borrow chain against the modulus'),
    ('<' + _C + 'jubjub::fr::Fr as ff::PrimeField>::from_repr', ['jubjub::fr::Fr::from_bytes'], 'delegates to the checked from_bytes'),
    (_C + 'curve25519::fp::Fp::from_bytes', ['::is_less_than_modulus'], 'element < p'),
    ('<' + _C + 'curve25519::fp::Fp as ff::PrimeField>::from_repr', ['::is_less_than_modulus'], 'element < p'),
    ('<' + _C + 'curve25519::fp::Fp as ' + _C + 'serde_traits::SerdeObject>::from_raw_bytes', ['::is_less_than_modulus'], 'limbs < p'),
    (_C + 'k256::base_field::Fp::from_bytes', ['k256::arithmetic::field::FieldElement::from_bytes'], 'k256 crate canonical decoder'),
    ('<' + _C + 'k256::base_field::Fp as ff::PrimeField>::from_repr', ['<k256::arithmetic::field::FieldElement as ff::PrimeField>::from_repr'], 'k256 crate canonical decoder'),
]
_G1A, _G1P = _C + 'bls12_381::g1::G1Affine', _C + 'bls12_381::g1::G1Projective'
_G2A, _G2P = _C + 'bls12_381::g2::G2Affine', _C + 'bls12_381::g2::G2Projective'
C11_DECODERS = [
    (_G1A + '::from_compressed', ['::is_on_curve', '::is_torsion_free'], 'on curve and in the prime-order subgroup'),
    (_G1P + '::from_compressed', ['::is_on_curve', '::is_torsion_free'], 'on curve and in the prime-order subgroup'),
    ('<' + _G1A + ' as group::GroupEncoding>::from_bytes', ['G1Affine::from_compressed', '::is_torsion_free'], 'checked compressed decoder'),
    ('<' + _G1P + ' as group::GroupEncoding>::from_bytes', ['G1Affine::from_compressed', '::is_torsion_free'], 'checked compressed decoder'),
    (_G1A + '::from_uncompressed', ['::is_on_curve'], 'on curve'),
    ('<' + _G1A + ' as ' + _C + 'serde_traits::SerdeObject>::from_raw_bytes', ['::is_on_curve'], 'on curve'),
    ('<' + _G1A + ' as ' + _C + 'serde_traits::SerdeObject>::read_raw', ['::is_on_curve'], 'on curve'),
    ('<' + _G1A + ' as ' + _C + 'curve::CurveAffine>::from_xy', ['::is_on_curve'], 'on curve'),
    ('<' + _G1P + ' as ' + _C + 'curve::CurveExt>::new_jacobian', ['::is_on_curve'], 'on curve'),
    (_G2A + '::from_compressed', ['::is_on_curve', '::is_torsion_free'], 'on curve and in the prime-order subgroup'),
    (_G2P + '::from_compressed', ['::is_on_curve', '::is_torsion_free'], 'on curve and in the prime-order subgroup'),
    ('<' + _G2A + ' as group::GroupEncoding>::from_bytes', ['G2Affine::from_compressed', '::is_torsion_free'], 'checked compressed decoder'),
    ('<' + _G2P + ' as group::GroupEncoding>::from_bytes', ['G2Affine::from_compressed', '::is_torsion_free'], 'checked compressed decoder'),
    (_G2A + '::from_uncompressed', ['::is_on_curve', '::is_torsion_free'], 'on curve and in the prime-order subgroup'),
    ('<' + _G2A + ' as ' + _C + 'serde_traits::SerdeObject>::read_raw', ['::is_on_curve'], 'on curve'),
    ('<' + _G2A + ' as ' + _C + 'curve::CurveAffine>::from_xy', ['::is_on_curve'], 'on curve'),
    ('<' + _G2P + ' as ' + _C + 'curve::CurveExt>::new_jacobian', ['::is_on_curve'], 'on curve'),
    (_C + 'jubjub::curve::JubjubAffine::from_bytes', ['JubjubAffine::from_bytes_inner', 'blst_scalar_fr_check'], 'canonical v coordinate and ZIP-216 sign handling'),
    ('<' + _C + 'jubjub::curve::JubjubSubgroup as group::GroupEncoding>::from_bytes', ['::is_torsion_free', 'blst_scalar_fr_check'], 'prime-order subgroup and canonical coordinate'),
    ('<' + _C + 'jubjub::curve::JubjubExtended as group::cofactor::CofactorGroup>::into_subgroup', ['::is_torsion_free'], 'prime-order subgroup'),
    ('<' + _C + 'curve25519::affine::Curve25519Affine as group::GroupEncoding>::from_bytes', ['CompressedEdwardsY::decompress', '::is_less_than_modulus'], 'dalek decompression and canonical y'),
    ('<' + _C + 'curve25519::curve::Curve25519 as group::GroupEncoding>::from_bytes', ['CompressedEdwardsY::decompress'], 'dalek decompression'),
    ('<' + _C + 'k256::curve::K256Affine as group::GroupEncoding>::from_bytes', ['<k256::arithmetic::affine::AffinePoint as group::GroupEncoding>::from_bytes'], 'k256 crate checked decoder'),
    (_C + 'k256::curve::K256Affine::from_xy', ['FromEncodedPoint>::from_encoded_point'], 'k256 crate on-curve check'),
]
# functions of g1.rs / g2.rs that delegate to blst point routines and have no namesake in the sibling group (C11.R3)
C11_ONE_SIDED = {
    'midnight_curves::bls12_381::g1::G1Projective::is_on_curve': 'G1 exposes is_on_curve inherently; G2 through CurveExt (next row)',
    '<midnight_curves::bls12_381::g2::G2Projective as midnight_curves::curve::CurveExt>::is_on_curve': 'G2 exposes is_on_curve through CurveExt; G1 inherently (previous row)',
}

C11_TWINS = [
    (_G1A + '::from_compressed', _G1A + '::from_compressed_unchecked', ['::is_on_curve', '::is_torsion_free']),
    (_G1A + '::from_uncompressed', _G1A + '::from_uncompressed_unchecked', ['::is_on_curve']),
    (_G2A + '::from_compressed', _G2A + '::from_compressed_unchecked', ['::is_on_curve', '::is_torsion_free']),
    (_G2A + '::from_uncompressed', _G2A + '::from_uncompressed_unchecked', ['::is_on_curve', '::is_torsion_free']),
]

# ---------------------------------------------------------------- C09
C09_VALUE_ESCAPE_CALLERS = [
    'midnight_proofs::circuit::value::',                      # Value's own combinators (map_with_result, transpose, error_if_known_and ...)
    '<midnight_proofs::circuit::value::',
    '<midnight_proofs::plonk::keygen::Assembly as midnight_proofs::plonk::circuit::Assignment>::',
    '<midnight_proofs::plonk::prover::WitnessCollection as midnight_proofs::plonk::circuit::Assignment>::',
    '<midnight_proofs::dev::MockProver as midnight_proofs::plonk::circuit::Assignment>::',
    'midnight_proofs::dev::',
    '<midnight_proofs::dev::',
    'midnight_proofs::circuit::',
    '<midnight_proofs::circuit::',
]
C09_E2_EXCEPTIONS = {
    'midnight_circuits::verifier::transcript_gadget::TranscriptGadget::init_with_proof|capture:proof_bytes':
        dict(containment='proof-bytes', reason='copies the proof bytes out of the Value into the reader; the reader feeds only read_point/read_scalar whose results are assigned as witnesses'),
    'midnight_circuits::verifier::msm::AssignedMsm::constrain_as_public_input_with_committed_scalars|capture:a':
        dict(containment='unused', reason='dead debugging code: the leaked scalar is never read'),
    'midnight_circuits::verifier::msm::AssignedMsm::constrain_as_public_input_with_committed_scalars|write:a':
        dict(containment='unused', reason='dead debugging code: the leaked scalar is never read'),
    'midnight_circuits::ecc::foreign::ecc_chip::ForeignEccChip::multi_select|capture:selector_idx':
        dict(containment='index-only', consumers=('::fill_dynamic_lookup_row',), reason='documented hack: the witness index only selects which table point supplies the *values* witnessed next to the lookup (enable_lookup = true assigns fresh cells, no copy constraint)'),
    'midnight_circuits::ecc::foreign::ecc_chip::ForeignEccChip::multi_select|write:selector_idx':
        dict(containment='index-only', consumers=('::fill_dynamic_lookup_row',), reason='see capture:selector_idx'),
    'midnight_circuits::ecc::foreign::ecc_chip::ForeignEccChip::k_out_of_n_points|capture:unwrapped_selected_idxs':
        dict(containment='iter-index', consumers=('::fill_dynamic_lookup_row',), reason='same hack as multi_select: indices only select the values witnessed next to the lookup'),
    'midnight_circuits::ecc::foreign::ecc_chip::ForeignEccChip::k_out_of_n_points|write:unwrapped_selected_idxs':
        dict(containment='iter-index', consumers=('::fill_dynamic_lookup_row',), reason='see capture:unwrapped_selected_idxs'),
    '<midnight_circuits::map::map_gadget::MapGadget as midnight_circuits::instructions::map::MapInstructions>::init|capture:init_map':
        dict(containment='cpu-state', types=['map::cpu::MapMt'], reason='off-circuit Merkle-map state kept next to the assigned root; only feeds later witness values'),
    '<midnight_circuits::map::map_gadget::MapGadget as midnight_circuits::instructions::map::MapInstructions>::init|write:init_map':
        dict(containment='cpu-state', types=['map::cpu::MapMt'], reason='see capture:init_map'),
    'midnight_circuits::map::map_gadget::MapGadget::update_state|capture:state':
        dict(containment='cpu-state', types=['map_gadget::State', 'map::cpu::MapMt'], reason='off-circuit Merkle-map state; only feeds later witness values'),
}

# ---------------------------------------------------------------- C08
C08_NO_DIRECT_PII = {
    'midnight_circuits::verifier::msm::AssignedMsm': 'exposed only as part of AssignedAccumulator (VerifierGadget impl), through AssignedMsm::{in_circuit_as_public_input, constrain_as_public_input}',
}

# ---------------------------------------------------------------- D-lints
_NC = 'midnight_circuits::field::native::native_chip::NativeChip'
D1_TABLE = {
    '<' + _NC + ' as midnight_circuits::instructions::assignments::AssignmentInstructions>::assign|assign element':
        'free-witness entry point: AssignmentInstructions::assign is the deliberate way to introduce an unconstrained private input',
    '<' + _NC + ' as midnight_circuits::instructions::assignments::AssignmentInstructions>::assign_many|assign':
        'free-witness entry point (batched assign)',
    'midnight_circuits::hash::ripemd160::ripemd160_chip::RipeMD160Chip::assign_left_rotation|*':
        'Region helper without its own selector: its only caller left_rotate enables q_rot at the same offsets in the same region closure',
}
D3_TABLE = {
    'midnight_circuits::ecc::foreign::ecc_chip::ForeignEccChip::load_multi_select_table|discarded-result':
        'fill_dynamic_lookup_row(.., enable_lookup = false) copies the table point into the row: the row itself is the effect, the returned cells are not needed',
    'midnight_circuits::hash::poseidon::poseidon_chip::PoseidonChip::partial_round|let-underscore':
        'intermediary advice cells of a partial round are constrained by position through the additive-selector gate enabled on that row (the construct is a C09 finding for another reason)',
    'midnight_circuits::hash::sha256::sha256_chip::Sha256Chip::assign_sprdd_11_11_10|discarded-result':
        'assign_plain_and_spreaded enables the spread-table lookup on its own row; the decomposition gate reads the cells by position',
    'midnight_circuits::hash::sha512::sha512_chip::Sha512Chip::assign_sprdd_13x4_12|discarded-result':
        'assign_plain_and_spreaded enables the spread-table lookup on its own row; the decomposition gate reads the cells by position',
    'midnight_circuits::hash::sha256::sha256_chip::Sha256Chip::prepare_A|unused-binding':
        '`_zeros`: the zero limb is range-checked by the lookup enabled in assign_sprdd and read by the gate by position',
    'midnight_circuits::hash::sha256::sha256_chip::Sha256Chip::assign_add_mod_2_32|unused-binding':
        '`_carry`: the carry is range-checked by its assignment helper and consumed by the addition gate by position',
    'midnight_circuits::hash::sha512::sha512_chip::Sha512Chip::assign_add_mod_2_64|unused-binding':
        '`_carry`: the carry is range-checked by its assignment helper and consumed by the addition gate by position',
}

_D_COMMON = ('Constraint-flow lints over HIR/MIR of the files of this property: D1 every witnessed advice cell lies under an activated constraint at a matching '
             'offset; D3 no assigned-cell value is computed and then ignored in gadget-level code; D4 invariant-carrying assigned types and *_unsafe escape '
             'hatches are used only in the frozen who-may-construct table; D5 every (function, check) pair that is unconditional on the reference tree stays '
             'on every success path (D5b: per-element checks stay inside their loop and the loop domain is not narrowed); D6 parallel tuple components are combined '
             'component-wise; D7 declared integer bounds reach their checks by value; D8 every constraint-emitting call keeps the inputs it consumed; D9 loop-carried '
             'state is refreshed on every branch; D10 shortcut returns stay guarded by every operand; D11 equality over zip also compares lengths; D12 no dead '
             'last-element test. These are necessary conditions for "no unconstrained hint / no dropped or re-routed constraint"; tables under rules/ are mined '
             'from the reference tree and only read at run time. ')
D_EXPLANATION = {
    'C04': _D_COMMON + 'Plus V1 (padding_flag start domain, repaired defect) and V2 (div_rem wrap-around guard, known finding). NOT decided: that the arithmetic identity, coefficients and decomposition arithmetic are right, and completeness for all inputs — a changed coefficient is invisible here.',
    'C05': _D_COMMON + 'NOT decided: CRT bound arithmetic, limb-bound bookkeeping values, correctness of quotients/carries.',
    'C06': _D_COMMON + 'Plus L1 (radix recomposition of big-integer digits, repaired defect in mul_by_constant). NOT decided: the group-law algebra and the exceptional cases of incomplete addition.',
    'C07': _D_COMMON + 'Plus T1 (lazy table flags) and S1 (in-circuit and off-circuit Poseidon sponges have the same control skeleton). NOT decided: equality with SHA-2 / RIPEMD / Keccak / BLAKE2 / Poseidon as functions, round constants (third-party Keccak/BLAKE2b chips are outside the repository; only the wrappers are analysed).',
    'C19': _D_COMMON + 'Plus R1: four structural guards of RawAutomaton for languages included in {epsilon} (repaired defects). NOT decided: language equivalence of compiled automata in general, determinisation/minimisation, shipped serialized automata, base64 as a function.',
}
D_FLOORS = {
    'C04': dict(advice=24, gadget_fns=150, d4=30, mustcall=40),
    'C05': dict(advice=5, gadget_fns=60, d4=20, mustcall=20),
    'C06': dict(advice=20, gadget_fns=60, d4=20, mustcall=30),
    'C07': dict(advice=45, gadget_fns=60, d4=1, mustcall=5),
    'C19': dict(advice=3, gadget_fns=15, d4=3, mustcall=4),
}


def _c07_extra(ck, w):
    """E4-style rule for C07: every ZkStdLib method that uses a table-bearing hash chip raises the flag under which MidnightCircuit::synthesize loads its table."""
    from .core import walk, peel, callee
    from .engines import hirq
    ck.rule('C07.T1', 'lazy table loading: (chip field, used_* flag) pairs are read off MidnightCircuit::synthesize; every ZkStdLib method that reads such a chip '
                      'field also sets the paired flag, otherwise the chip\'s lookup table is never loaded and its lookups are vacuous / unsatisfiable')
    syn = [f for f in w.all_fns(['zk_stdlib']) if f['name'] == 'synthesize' and 'MidnightCircuit' in (f.get('impl') or {}).get('self', '')]
    if not syn:
        ck.bad('C07.T1', 'synthesize:anchor', 'MidnightCircuit::synthesize not found (anchor)')
        return
    pairs = {}
    for n in walk(syn[0]['body']):
        if n.get('k') == 'if' and peel(n['c']).get('k') == 'letx':
            chip = [x['n'] for x in walk(peel(n['c'])['init']) if x.get('k') == 'field' and x['n'].endswith(('_chip', '_gadget'))]
            flags = [x['n'] for x in walk(n['a']) if x.get('k') == 'field' and x['n'].startswith('used_')]
            loads = [c for c in hirq.calls(n['a']) if c.get('m') in ('load', 'load_table')]
            if chip and flags and loads:
                pairs[chip[0]] = flags[0]
    ck.floor('C07.T1', '(chip, flag) pairs in synthesize', len(pairs), 4)
    n = 0
    for f in w.all_fns(['zk_stdlib']):
        if 'ZkStdLib' not in (f.get('impl') or {}).get('self', '') or f['name'] in ('configure', 'new', 'synthesize'):
            continue
        if (f.get('impl') or {}).get('trait'):
            continue
        reads = {x['n'] for x in walk(f['body']) if x.get('k') == 'field'}
        sets = {x['n'] for a in walk(f['body']) if a.get('k') == 'assign' for x in walk(a['lhs']) if x.get('k') == 'field'}
        for chip, flag in pairs.items():
            if chip in reads:
                n += 1
                ck.record('C07.T1', f'{f["name"]}:{chip}->{flag}', flag in sets, f'sets {flag}',
                          f'ZkStdLib::{f["name"]} uses {chip} but does not set {flag}: MidnightCircuit::synthesize will not load the chip\'s table', hirq.fn_loc(f))
    ck.floor('C07.T1', 'chip-using ZkStdLib methods', n, 4)


D_EXTRA = {'C07': _c07_extra}

_FCSUB = '<midnight_circuits::field::foreign::field_chip::FieldChip as midnight_circuits::instructions::arithmetic::ArithInstructions>::sub'
D6_TABLE = {
    _FCSUB + '|xi_bounds.0~yi_bounds.1': 'interval subtraction: lower(x - y) = lower(x) - upper(y)',
    _FCSUB + '|xi_bounds.1~yi_bounds.0': 'interval subtraction: upper(x - y) = upper(x) - lower(y)',
}


_FC = 'midnight_circuits::field::foreign::field_chip::FieldChip'
C05_NORMALIZED_PARAMS = {
    # function -> AssignedField parameters that must be normalised before any limb-wise use ("same residue => same representation")
    '<' + _FC + ' as midnight_circuits::instructions::public_input::PublicInputInstructions>::as_public_input': ['assigned'],
    '<' + _FC + ' as midnight_circuits::instructions::assertions::AssertionInstructions>::assert_equal': ['x', 'y'],
    '<' + _FC + ' as midnight_circuits::instructions::assertions::AssertionInstructions>::assert_equal_to_fixed': ['x'],
    '<' + _FC + ' as midnight_circuits::instructions::zero::ZeroInstructions>::is_zero': ['x'],
    '<' + _FC + ' as midnight_circuits::instructions::arithmetic::ArithInstructions>::div': ['y'],
    _FC + '::assign_mul': ['x', 'y'],
}


def _c05_extra(ck, w):
    from .core import walk, peel, callee, pat_bindings
    from .engines import hirq
    ck.rule('C05.M2', 'normalisation discipline: in the emulated-field operations that compare, expose or multiply representations, every listed AssignedField '
                      'parameter is passed through FieldChip::normalize and its limbs are never read directly (two representations of one residue must be '
                      'treated identically)')
    for nid, names in C05_NORMALIZED_PARAMS.items():
        f = w.fn(nid)
        params = {b['n']: b['i'] for p_ in f['params'] for b in pat_bindings(p_)}
        normed, direct = set(), set()
        for c in hirq.calls(f['body']):
            if (callee(c) or '').endswith('FieldChip::normalize'):
                for a in c.get('args', []):
                    r = peel(a)
                    if r.get('k') == 'local':
                        normed.add(r['i'])
        for n in walk(f['body']):
            if n.get('k') == 'field' and n['n'] in ('limb_values', 'limb_bounds'):
                r = peel(n['e'])
                if r.get('k') == 'local':
                    direct.add(r['i'])
        for nm in names:
            i = params.get(nm)
            ck.record('C05.M2', f'{nid}|{nm}', i is not None and i in normed and i not in direct, f'`{nm}` is normalised before use',
                      f'{nid}: parameter `{nm}` is {"not passed to normalize" if i not in normed else "read limb-wise without normalisation"}: '
                      f'a non-canonical representation of the same residue is treated as a different value', hirq.fn_loc(f))


D_EXTRA['C05'] = _c05_extra


# zip-equality sites without a length test that are fine (engines/ziplint.py)
ZIP_EQ_OK = {
    '<midnight_curves::bn256::fq::Fq as subtle::ConstantTimeEq>::ct_eq|zip:self~other': 'both sides are the [u64; 4] limbs of one type (dev-curves)',
    '<midnight_curves::bn256::fr::Fr as subtle::ConstantTimeEq>::ct_eq|zip:self~other': 'both sides are the [u64; 4] limbs of one type (dev-curves)',
    '<midnight_curves::curve25519::fp::Fp as subtle::ConstantTimeEq>::ct_eq|zip:self~other': 'both sides are the [u64; 4] limbs of one type',
    'midnight_circuits::ecc::foreign::ecc_chip::ForeignEccChip::k_out_of_n_points|zip:idxs~idxs': 'adjacent pairs of one vector (zip with skip(1))',
    'midnight_circuits::field::decomposition::chip::P2RDecompositionConfig::new|zip:native_config~pow2range_config': 'configuration sanity assert over column lists; prefix comparison intended (pow2range uses the first columns)',
    '<midnight_circuits::field::foreign::field_chip::AssignedField as core::cmp::PartialEq>::eq|zip:self~other': 'limb vectors of one emulation parameter set have the same length by construction',
    'midnight_circuits::field::foreign::field_chip::AssignedField::is_well_formed|zip:self~field_chip::well_formed_log2_b': 'bounds table is generated from the same parameter set as the limbs',
    'midnight_circuits::hash::poseidon::poseidon_chip::PoseidonChip::permutation|zip:state~self': 'fixed-width state against the configured columns (debug assertion)',
}
