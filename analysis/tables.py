"""Frozen repository-specific tables.  Every row was confirmed by reading the code; one line of reason each."""

# ConstraintSystem fields deliberately outside the pinned (hashed) view.
C03_PINNED_EXCLUSIONS = {
    'unblinded_advice_columns': 'prover-side blinding choice; does not change the relation checked by the verifier',
    'num_advice_queries': 'derived counter of advice_queries (which is pinned)',
    'general_column_annotations': 'debug metadata (HashMap of names); must stay out of the hashed view (C17 determinism)',
}

# Bodies that own a proof transcript and call prepare() but are not acceptance decisions.
C03_PREPARE_OWNER_EXEMPT = {
    'midnight_aggregator::light_aggregator::LightAggregator::aggregate_proofs::{closure#0}':
        'prover side of aggregation: inner proofs are re-run only to derive the accumulator (it asserts, documented "Panics"); '
        'acceptance is decided by the in-circuit verifier and by LightAggregator::verify',
}
