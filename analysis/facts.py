"""Fact extraction + cache.  Facts are always derived from /repo's *current* working tree:
the cache key is a hash over every source/manifest file plus the driver binary."""
import fcntl, hashlib, json, marshal, os, shutil, subprocess, sys, tempfile, time

VERIF = os.path.dirname(os.path.dirname(os.path.abspath(__file__)))
REPO = os.environ.get("MZK_REPO", "/repo")
DRIVER = os.path.join(VERIF, "driver", "target", "release", "mzk-facts")
CACHE = os.path.join(VERIF, ".cache", "facts")
CRATES = ["curves", "proofs", "circuits", "zk_stdlib", "zkir", "aggregator"]

CONFIGS = {
    # name -> extra cargo args
    "default": ["--workspace", "--lib"],
    "truncated": ["--workspace", "--lib", "--features", "midnight-proofs/truncated-challenges"],
    "devcurves": ["-p", "midnight-curves", "-p", "midnight-proofs", "--lib", "--features", "midnight-curves/dev-curves,midnight-proofs/dev-curves"],
}


class CheckError(Exception):
    pass


def _source_files():
    r = subprocess.run(["git", "-C", REPO, "ls-files", "-co", "--exclude-standard"], capture_output=True, text=True)
    if r.returncode == 0 and os.path.exists(os.path.join(REPO, ".git")):
        out = r.stdout.split("\n")
    else:
        # plain directory copy (self-tests): walk it, skipping build output
        out = []
        for root, dirs, files in os.walk(REPO):
            dirs[:] = [d for d in dirs if d not in ("target", ".git")]
            for f in files:
                out.append(os.path.relpath(os.path.join(root, f), REPO))
    keep = []
    for f in out:
        if not f:
            continue
        b = os.path.basename(f)
        if f.endswith(".rs") or b in ("Cargo.toml", "Cargo.lock", "rust-toolchain.toml", "build.rs") \
           or f.endswith(".toml"):
            keep.append(f)
    keep.sort()
    return keep


def ensure_driver():
    """(re)build the fact driver when its binary is missing or older than its sources (fresh restore: driver/target is not committed)"""
    src = [os.path.join(VERIF, "driver", "Cargo.toml")] + [os.path.join(VERIF, "driver", "src", f) for f in os.listdir(os.path.join(VERIF, "driver", "src"))]
    newest = max(os.path.getmtime(f) for f in src)
    if os.path.exists(DRIVER) and os.path.getmtime(DRIVER) >= newest:
        return
    os.makedirs(CACHE, exist_ok=True)
    lock = open(os.path.join(CACHE, "driver-build.lock"), "w")
    fcntl.flock(lock, fcntl.LOCK_EX)
    try:
        if os.path.exists(DRIVER) and os.path.getmtime(DRIVER) >= newest:
            return
        env = dict(os.environ, CARGO_NET_OFFLINE="true")
        env.pop("RUSTC_WORKSPACE_WRAPPER", None)
        r = subprocess.run(["cargo", "+nightly", "build", "--release", "--offline"], cwd=os.path.join(VERIF, "driver"), env=env, capture_output=True, text=True)
        if r.returncode != 0 or not os.path.exists(DRIVER):
            raise CheckError("building the fact driver failed (MANIFEST.setup_cmd):\n" + "\n".join(r.stderr.splitlines()[-30:]))
        os.utime(DRIVER, None)
    finally:
        fcntl.flock(lock, fcntl.LOCK_UN)
        lock.close()


def tree_hash():
    ensure_driver()
    h = hashlib.sha256()
    for f in _source_files():
        p = os.path.join(REPO, f)
        try:
            with open(p, "rb") as fh:
                data = fh.read()
        except OSError:
            continue
        h.update(f.encode()); h.update(b"\0"); h.update(hashlib.sha256(data).digest())
    try:
        with open(DRIVER, "rb") as fh:
            h.update(hashlib.sha256(fh.read()).digest())
    except OSError:
        raise CheckError("driver binary missing: run MANIFEST.setup_cmd (cd driver && cargo +nightly build --release --offline)")
    return h.hexdigest()[:24]


def _sysroot():
    return subprocess.run(["rustc", "+nightly", "--print", "sysroot"], capture_output=True, text=True,
                          check=True, cwd=VERIF).stdout.strip()


def _extract(config, dest):
    scratch_root = os.environ.get("MZK_SCRATCH", "/var/tmp/vt")
    os.makedirs(scratch_root, exist_ok=True)
    tmp = tempfile.mkdtemp(prefix="facts.", dir=scratch_root)
    try:
        facts = os.path.join(tmp, "facts"); os.makedirs(facts)
        env = dict(os.environ)
        env.update({
            "LD_LIBRARY_PATH": _sysroot() + "/lib",
            "RUSTFLAGS": "-Zmir-opt-level=0 -Awarnings",
            "RUSTC_WORKSPACE_WRAPPER": DRIVER,
            "MZK_FACTS_OUT": facts,
            "CARGO_TARGET_DIR": os.path.join(tmp, "target"),
            "CARGO_NET_OFFLINE": "true",
        })
        env.pop("RUSTC_WRAPPER", None)
        cmd = ["cargo", "+nightly", "check", "--offline"] + CONFIGS[config]
        t0 = time.time()
        r = subprocess.run(cmd, cwd=REPO, env=env, capture_output=True, text=True)
        if r.returncode != 0:
            tail = "\n".join(r.stderr.splitlines()[-40:])
            raise CheckError(f"cargo check of /repo failed under the facts driver (config {config}):\n{tail}")
        got = sorted(os.listdir(facts))
        if not got:
            raise CheckError("driver produced no fact files (wrapper skipped?)")
        os.makedirs(dest + ".part", exist_ok=True)
        for f in got:
            shutil.move(os.path.join(facts, f), os.path.join(dest + ".part", f))
        with open(os.path.join(dest + ".part", "META.json"), "w") as fh:
            json.dump({"config": config, "extract_s": round(time.time() - t0, 1), "files": got,
                       "cmd": " ".join(cmd)}, fh)
        os.rename(dest + ".part", dest)
    finally:
        shutil.rmtree(tmp, ignore_errors=True)


def _prune(keep):
    try:
        ents = [os.path.join(CACHE, e) for e in os.listdir(CACHE) if not e.endswith(".lock")]
    except OSError:
        return
    ents = [e for e in ents if os.path.isdir(e) and e not in keep]
    ents.sort(key=lambda e: os.path.getmtime(e))
    for e in ents[:-6]:
        shutil.rmtree(e, ignore_errors=True)


def ensure(config="default"):
    """Return directory with fact files for the current tree + config."""
    os.makedirs(CACHE, exist_ok=True)
    h = tree_hash()
    dest = os.path.join(CACHE, f"{h}-{config}")
    lock = open(os.path.join(CACHE, "extract.lock"), "w")
    fcntl.flock(lock, fcntl.LOCK_EX)
    try:
        if not os.path.isdir(dest):
            shutil.rmtree(dest + ".part", ignore_errors=True)
            _extract(config, dest)
            _prune({dest})
        else:
            os.utime(dest, None)
    finally:
        fcntl.flock(lock, fcntl.LOCK_UN)
        lock.close()
    return dest, h


def load(dirpath, crate, kind):
    """kind: 'hir' | 'mir'.  Uses a marshal side-cache for speed."""
    src = os.path.join(dirpath, f"midnight_{crate}.{kind}.json")
    if not os.path.exists(src):
        raise CheckError(f"fact file missing: {src}")
    m = src + ".marshal"
    if os.path.exists(m):
        try:
            with open(m, "rb") as fh:
                return marshal.load(fh)
        except Exception:
            pass
    with open(src) as fh:
        data = json.load(fh)
    try:
        tmpn = m + f".{os.getpid()}"
        with open(tmpn, "wb") as fh:
            marshal.dump(data, fh)
        os.rename(tmpn, m)
    except Exception:
        pass
    return data
