"""Check bookkeeping: rule instances, violations, known findings, evidence, exit codes."""
import json, os, sys, time, hashlib
from . import facts
from .core import World, AnchorMissing

VERIF = facts.VERIF
KNOWN = os.path.join(VERIF, 'known_findings.json')


class Check:
    def __init__(self, prop, tier, seed=0, config='default'):
        self.prop = prop
        self.config = config
        self.tier = tier
        self.seed = seed
        self.t0 = time.time()
        self.instances = []       # dicts: rule,key,ok,what,loc,nontrivial
        self.notes = []
        self.assumptions = []
        self.rules = {}           # rule id -> description
        self.analysed = {}        # free-form counters
        self._worlds = {}
        self.explanation = ''

    # ------------------------------------------------------------------ worlds
    def world(self, config=None):
        config = config or self.config
        if config not in self._worlds:
            self._worlds[config] = World(config)
        return self._worlds[config]

    # ------------------------------------------------------------------ recording
    def rule(self, rid, desc):
        self.rules[rid] = desc

    def ok(self, rule, key, what='', loc=None, nontrivial=True, **extra):
        self.instances.append(dict(rule=rule, key=key, ok=True, what=what, loc=loc, nontrivial=nontrivial, **extra))

    def bad(self, rule, key, what, loc=None, **extra):
        self.instances.append(dict(rule=rule, key=key, ok=False, what=what, loc=loc, nontrivial=True, **extra))

    def record(self, rule, key, cond, what_ok='', what_bad='', loc=None, **extra):
        if cond:
            self.ok(rule, key, what_ok, loc, **extra)
        else:
            self.bad(rule, key, what_bad or what_ok, loc, **extra)
        return cond

    def floor(self, rule, name, count, minimum):
        """Fail closed if an enumeration shrinks below the hand-confirmed count."""
        self.analysed[f'{rule}:{name}'] = count
        if count < minimum:
            self.bad(rule, f'floor:{name}', f'enumerated {count} {name}, hand-confirmed floor is {minimum}: '
                     f'the rule would pass vacuously (rule precondition, not a property violation per se)')
        else:
            self.ok(rule, f'floor:{name}', f'{count} {name} (floor {minimum})', nontrivial=False)

    def count(self, name, n):
        self.analysed[name] = n

    def guarded(self, rule, key, fn):
        """Run fn; convert a missing anchor into a fail-closed violation."""
        try:
            return fn()
        except AnchorMissing as e:
            self.bad(rule, key + ':anchor', f'anchor missing — {e} (rule precondition: needs triage)')
            return None

    # ------------------------------------------------------------------ finishing
    def finish(self):
        known = []
        if os.path.exists(KNOWN):
            known = json.load(open(KNOWN)).get('findings', [])
        known_keys = {(k['property'], k['rule'], k['key']): k for k in known if k.get('status') == 'finding'}
        viol, knownhits = [], []
        seen = set()
        for i in self.instances:
            if i['ok']:
                continue
            kk = (self.prop, i['rule'], i['key'])
            if kk in seen:
                continue
            seen.add(kk)
            if kk in known_keys:
                knownhits.append((i, known_keys[kk]))
            else:
                viol.append(i)
        rdir = os.path.join(VERIF, 'evidence', 'replay')
        os.makedirs(rdir, exist_ok=True)
        for n, (i, k) in enumerate(knownhits):
            print(f"KNOWN-FINDING: property={self.prop} {i['rule']} {i['key']}: {k.get('what', i['what'])}")
        for n, i in enumerate(viol):
            h = hashlib.sha1((i['rule'] + '|' + i['key']).encode()).hexdigest()[:10]
            rp = os.path.join(rdir, f'{self.prop}-{h}.json')
            with open(rp, 'w') as fh:
                json.dump(dict(property=self.prop, rule=i['rule'], rule_text=self.rules.get(i['rule'], ''),
                               key=i['key'], what=i['what'], loc=i.get('loc'),
                               extra={k: v for k, v in i.items() if k not in ('rule', 'key', 'what', 'loc', 'ok', 'nontrivial')}),
                          fh, indent=1, default=str)
            loc = f" at {i['loc']}" if i.get('loc') else ''
            print(f"  [{i['rule']}] {i['key']}{loc}: {i['what']}")
            print(f"VIOLATION property={self.prop} replay={rp}")
        self.write_evidence(len(viol), len(knownhits))
        total = len(self.instances)
        nbad = len(viol)
        print(f"{self.prop}: {total} rule instances evaluated, {nbad} violation(s), {len(knownhits)} known finding(s), "
              f"{time.time() - self.t0:.1f}s [{self.tier}]")
        return 1 if viol else 0

    def write_evidence(self, nviol, nknown):
        insts = self.instances
        distinct = {(i['rule'], i['key']) for i in insts if i.get('nontrivial')}
        by_rule = {}
        for i in insts:
            d = by_rule.setdefault(i['rule'], dict(instances=0, violations=0))
            d['instances'] += 1
            if not i['ok']:
                d['violations'] += 1
        # samples: up to 3 per rule, violations first
        samples = []
        per = {}
        for i in sorted(insts, key=lambda x: x['ok']):
            if per.get(i['rule'], 0) >= 3:
                continue
            per[i['rule']] = per.get(i['rule'], 0) + 1
            samples.append(dict(rule=i['rule'], key=i['key'], verdict='holds' if i['ok'] else 'VIOLATED',
                                what=i['what'][:300], loc=i.get('loc')))
        w = next(iter(self._worlds.values()), None)
        ev = dict(
            property_id=self.prop, tier=self.tier, seed=self.seed, level='other',
            coverage=dict(
                explanation=self.explanation,
                evaluations=len(insts),
                distinct_nontrivial=len(distinct),
                rule='one evaluation = one rule instance (a construct of /repo: function, call site, field, match arm, '
                     'schedule node, write/read pair...) checked against the rule named in its id; non-trivial = the '
                     'instance carried a non-empty obligation (floors and bookkeeping excluded); distinct by (rule, key)',
                rules=self.rules,
                by_rule=by_rule,
                analysed=self.analysed,
                samples=samples,
                exhaustive=True,
                known_findings_hit=nknown,
                notes=self.notes,
            ),
            assumptions=self.assumptions + [
                'analysed build: nightly rustc front-end (HIR/typeck/MIR, mir-opt-level=0) of /repo\'s current working tree, '
                'workspace-default feature unification, lib targets only (cfg(test) code excluded)',
                'external crates are call-graph leaves (assumed total unless listed as partial)',
                f'facts: {", ".join("%s@%s" % (c, ww.tree_hash) for c, ww in self._worlds.items())}',
            ],
            wall_s=round(time.time() - self.t0, 2),
            violations=nviol,
        )
        os.makedirs(os.path.join(VERIF, 'evidence'), exist_ok=True)
        p = os.path.join(VERIF, 'evidence', f'{self.prop}{os.environ.get("MZK_EVIDENCE_SUFFIX", "")}.json')
        with open(p + '.tmp', 'w') as fh:
            json.dump(ev, fh, indent=1, default=str)
        os.rename(p + '.tmp', p)
