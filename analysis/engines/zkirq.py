"""ZKIR sibling-table helpers: canonical match-arm domains."""
from ..core import walk, norm, callee, pat_bindings, expr_str, peel, children


def variant_name(p):
    return (p or '?').rsplit('::', 1)[-1]


def canon_pat(p, names):
    """canonical string of a pattern with enum variants by bare name; bindings are recorded in `names` (idx -> $k)"""
    k = p.get('k')
    if k == 'bind':
        names.setdefault(p['i'], f'${len(names)}')
        if 'sub' in p:
            return canon_pat(p['sub'], names)
        return '_'
    if k == 'wild':
        return '_'
    if k == 'ts':
        subs = [canon_pat(s, names) for s in p.get('subs', [])]
        inner = ','.join(subs)
        vn = variant_name(p.get('p'))
        return vn if all(s == '_' for s in subs) else f'{vn}({inner})'
    if k == 'struct':
        return variant_name(p.get('p'))
    if k == 'path':
        return variant_name(p.get('p'))
    if k == 'tuple':
        return '(' + ', '.join(canon_pat(s, names) for s in p.get('subs', [])) + ')'
    if k == 'or':
        return ' | '.join(sorted(canon_pat(s, names) for s in p.get('subs', [])))
    if k == 'ref':
        return canon_pat(p['sub'], names)
    if k == 'lit':
        return p.get('v', '?')
    return k or '?'


def canon_expr(e, names, d=0):
    k = e.get('k')
    if d > 8:
        return '..'
    if k == 'local':
        return names.get(e['i'], e['n'])
    if k == 'lit':
        return e.get('v', '')
    if k == 'mcall':
        return canon_expr(e['recv'], names, d + 1) + '.' + e['m'] + '(' + ','.join(canon_expr(a, names, d + 1) for a in e.get('args', [])) + ')'
    if k == 'bin':
        a, b = canon_expr(e['a'], names, d + 1), canon_expr(e['b'], names, d + 1)
        if e['op'] in ('==', '!=', '&&', '||') and b < a:
            a, b = b, a
        return f'({a} {e["op"]} {b})'
    if k in ('ref', 'un'):
        return canon_expr(e['e'], names, d + 1)
    if k == 'field':
        return canon_expr(e['e'], names, d + 1) + '.' + e['n']
    if k == 'path':
        return variant_name(e.get('p'))
    if k == 'call':
        return variant_name(e.get('f')) + '(' + ','.join(canon_expr(a, names, d + 1) for a in e.get('args', [])) + ')'
    if k == 'cast':
        return canon_expr(e['e'], names, d + 1)
    return k or '?'


def is_catch_all(p):
    k = p.get('k')
    if k == 'wild':
        return True
    if k == 'bind' and 'sub' not in p:
        return True
    if k == 'tuple':
        return all(is_catch_all(s) for s in p.get('subs', []))
    return False


def builds_unsupported(body):
    for x in walk(body):
        if x.get('k') in ('call', 'path') and (norm(x.get('f') or x.get('p') or '')).endswith('Error::Unsupported'):
            return True
    return False


def top_matches(body, scrut_pred=None):
    """match expressions (source-level) in a body, outermost first"""
    out = []
    for n in walk(body, into_closures=False):
        if n.get('k') == 'match' and n.get('src') == 'match':
            if scrut_pred is None or scrut_pred(n):
                out.append(n)
    return out


def domain(match_node):
    """set of canonical accepted patterns of a match (explicit arms that do not build Error::Unsupported)"""
    acc = set()
    for a in match_node['arms']:
        if is_catch_all(a['pat']):
            continue
        names = {}
        s = canon_pat(a['pat'], names)
        if 'guard' in a:
            s += ' if ' + canon_expr(a['guard'], names)
        if builds_unsupported(a['body']) and not any(x.get('k') in ('mcall',) for x in walk(a['body'])):
            continue
        acc.add(s)
    return acc
