"""Must-call / guard / dominance rules over MIR CFGs."""
from ..core import (successors, dominators, dominates, reach_from, return_blocks, mir_callee, norm)


def is_err_exit(blk):
    """Block that produces the function's error result: `_0 = Err(..)` or `?`'s from_residual into _0."""
    for s in blk['s']:
        if s.get('d') == 0 and 'dp' not in s and s.get('k') == 'Agg:Adt' and s.get('agg', '').endswith('Result#Err'):
            return True
        if s.get('d') == 0 and 'dp' not in s and s.get('k') == 'Agg:Adt' and s.get('agg', '').endswith('Option#None'):
            return True
    t = blk['t']
    if t.get('k') == 'call' and t.get('d') == 0 and 'from_residual' in (t.get('f') or ''):
        return True
    return False


# Functions that do not exist on the reference tree (NEW helpers, see core.inline_new_helpers): {id: [MIR bodies]}, filled by World.mir_index().
# A call of a new helper counts as a call satisfying `pred` when the helper itself calls such a callee on every success path: extracting a helper
# does not hide the calls it contains from the must-call / dominance rules.
NEW_HELPERS = {}
_ACTIVE = []


def _helper_must_call(c, pred):
    bodies = NEW_HELPERS.get(c)
    if not bodies or c in _ACTIVE or len(_ACTIVE) >= 3:
        return False
    _ACTIVE.append(c)
    try:
        return all(must_call(b, pred)[0] for b in bodies)
    finally:
        _ACTIVE.pop()


def call_blocks(body, pred):
    """[(bb, term)] for call terminators whose normalised callee satisfies pred(callee, term) (or is a new helper that must-calls such a callee)."""
    out = []
    for i, blk in enumerate(body['blocks']):
        t = blk['t']
        if t.get('k') == 'call':
            c = mir_callee(t)
            if c is not None and (pred(c, t) or (NEW_HELPERS and _helper_must_call(c, pred))):
                out.append((i, t))
    return out


def success_reachable_avoiding(body, blocked):
    """Return blocks reachable from entry when `blocked` blocks and error exits are removed."""
    succ = successors(body)
    blk_all = set(blocked) | {i for i, b in enumerate(body['blocks']) if is_err_exit(b)}
    seen = reach_from(succ, 0, blk_all)
    return [r for r in return_blocks(body) if r in seen]


def must_call(body, pred):
    """Every success path from entry to Return passes a call satisfying pred.
    Returns (holds, witnesses) where witnesses are the matching call blocks."""
    sites = call_blocks(body, pred)
    if not sites:
        return False, []
    bad = success_reachable_avoiding(body, [i for i, _ in sites])
    return (not bad), sites


def must_call_closure(world, pred_direct, max_iter=20):
    """Set of body ids that on every success path call something satisfying pred_direct,
    directly or through a callee that itself must-calls (least fixpoint)."""
    midx = world.mir_index()
    have = set()
    for _ in range(max_iter):
        changed = False
        for nid, b in midx.items():
            if nid in have:
                continue
            ok, _ = must_call(b, lambda c, t: pred_direct(c, t) or c in have)
            if ok:
                have.add(nid)
                changed = True
        if not changed:
            break
    return have


def dominated_by_call(body, target_bb, pred):
    """Is target_bb dominated by (the successor edge of) a call satisfying pred?"""
    succ = successors(body)
    idom = dominators(succ)
    for i, t in call_blocks(body, pred):
        if i != target_bb and dominates(idom, i, target_bb):
            return True
    return False


def calls_after(body, first_pred, second_pred):
    """For every call site matching first_pred: every success path from it to Return passes a
    second_pred call.  Returns list of (bb_first, ok)."""
    succ = successors(body)
    errs = {i for i, b in enumerate(body['blocks']) if is_err_exit(b)}
    seconds = {i for i, _ in call_blocks(body, second_pred)}
    res = []
    rets = set(return_blocks(body))
    for i, t in call_blocks(body, first_pred):
        if 't' not in t:
            continue
        seen = reach_from(succ, t['t'], errs | seconds)
        res.append((i, t, not (seen & rets)))
    return res


def guard_between(body, guard_pred, target_bb):
    """GUARD rule: some SwitchInt block B dominates target_bb such that one successor arm of B
    cannot reach target_bb and leads to an error exit, and guard_pred(B, blk) accepts it
    (e.g. the switch operand derives from a comparison involving the guarded value)."""
    succ = successors(body)
    idom = dominators(succ)
    out = []
    for i, blk in enumerate(body['blocks']):
        t = blk['t']
        if t.get('k') != 'switch':
            continue
        if not dominates(idom, i, target_bb) or i == target_bb:
            continue
        arms = t['ts']
        escaping = []
        for a in arms:
            seen = reach_from(succ, a)
            if target_bb not in seen:
                # arm leaves; does it hit an error exit?
                if any(is_err_exit(body['blocks'][x]) for x in seen):
                    escaping.append(a)
        if escaping and guard_pred(i, blk):
            out.append(i)
    return out


def local_def_chain(body, local, depth=6):
    """Backward slice (set of locals, set of call callees, consts, field reads) defining `local`."""
    defs = {}
    for bi, blk in enumerate(body['blocks']):
        for s in blk['s']:
            defs.setdefault(s['d'], []).append(('s', s))
        t = blk['t']
        if t.get('k') == 'call':
            defs.setdefault(t['d'], []).append(('c', t))
    seen_locals, callees, fields, consts = set(), set(), set(), set()
    frontier = [(local, 0)]
    while frontier:
        l, d = frontier.pop()
        if l in seen_locals or d > depth:
            continue
        seen_locals.add(l)
        for kind, x in defs.get(l, []):
            if kind == 's':
                for u in x.get('u', []):
                    frontier.append((u, d + 1))
                for fr in x.get('fr', []):
                    fields.add((norm(fr[0]), fr[1]))
                for c in x.get('c', []):
                    consts.add(c)
            else:
                callees.add(mir_callee(x))
                for a in x.get('args', []):
                    if isinstance(a, int):
                        frontier.append((a, d + 1))
                    elif isinstance(a, dict) and 'p' in a:
                        frontier.append((a['p'], d + 1))
                    elif isinstance(a, dict) and 'c' in a:
                        consts.add(a['c'])
    return seen_locals, callees, fields, consts
