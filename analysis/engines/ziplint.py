"""zip-truncated comparisons (HIR).

`a.iter().zip(b.iter()).all(|(x, y)| x == y)` decides equality of the common prefix only: `zip` stops at the shorter side.
Used as an equality / identity test of two variable-length collections it must come with a length agreement test in the same
function.  Sites over fixed-size arrays or limb vectors of one type are tabled (tables.ZIP_EQ_OK)."""
from ..core import walk, peel, callee, last_seg, expr_str


def _root(e):
    e = peel(e)
    while e.get('k') in ('mcall', 'field', 'index', 'try', 'cast'):
        e = peel(e['recv'] if e.get('k') == 'mcall' else e['e'])
    return expr_str(e)[:40], (e.get('t') or '')


def sites(f):
    """[(node, rendered roots (a, b), has length agreement test)] for zip chains consumed by all/any with an equality-like closure"""
    lens = set()
    for n in walk(f['body']):
        if n.get('k') == 'mcall' and n.get('m') == 'len':
            lens.add(_root(n['recv'])[0])
    out = []
    for n in walk(f['body']):
        if n.get('k') != 'mcall' or n.get('m') not in ('all', 'any'):
            continue
        e, zips = peel(n['recv']), []
        while e.get('k') == 'mcall':
            if e['m'] == 'zip':
                zips.append(e)
            e = peel(e['recv'])
        clos = [peel(x) for x in n.get('args', []) if peel(x).get('k') == 'closure']
        eq = any((x.get('k') == 'bin' and x.get('op') in ('==', '!=')) or
                 (x.get('k') in ('call', 'mcall') and ((x.get('m') in ('eq', 'ne', 'ct_eq')) or last_seg(callee(x) or '') in ('eq', 'ne', 'ct_eq', 'ptr_eq')))
                 for c in clos for x in walk(c['body']))
        if not eq:
            continue
        for z in zips:
            if not z.get('args'):
                continue
            a, b = _root(z['recv']), _root(z['args'][0])
            fixed = all(t.lstrip('&').startswith('[') and ';' in t for t in (a[1], b[1]))
            out.append((n, (a[0], b[0]), (a[0] in lens and b[0] in lens) or fixed))
    return out


def check(ck, w, rule, crates, file_pred, table, floor=0):
    from . import hirq
    n_sites = 0
    for f in w.all_fns(crates):
        if '::tests' in f['_nid'] or '/tests' in f['file'] or not file_pred(f['file']):
            continue
        for node, (a, b), lenok in sites(f):
            n_sites += 1
            key = f'{f["_xid"]}|zip:{a}~{b}'
            tab = table.get(f'{f["_nid"]}|zip:{a}~{b}')
            if tab:
                ck.ok(rule, key, 'tabled: ' + tab, hirq.fn_loc(f, node))
            else:
                ck.record(rule, key, lenok, 'lengths are compared in the same function (or both sides are fixed-size arrays)',
                          f'{f["_nid"]}: equality of `{a}` and `{b}` is decided over `zip`, which stops at the shorter side, and the function never compares their '
                          f'lengths: a collection equals every extension of itself', hirq.fn_loc(f, node))
    ck.floor(rule, 'zip-equality sites', n_sites, floor)
