"""COVER helpers: fields read (MIR projections) in the call closure of a set of bodies."""
from ..core import norm
from . import reach


def fields_read(world, roots, scope_pred=None, max_bodies=4000):
    """{(adt, field)} read in the bodies reachable from roots (restricted to scope_pred(nid))"""
    par = reach.closure(world, roots, stop=(lambda nid: not scope_pred(nid)) if scope_pred else (lambda nid: False))
    out = set()
    n = 0
    for nid in par:
        b = world.mir_index().get(nid)
        if b is None:
            continue
        if scope_pred and not scope_pred(nid) and nid not in roots:
            continue
        n += 1
        for blk in b['blocks']:
            for s in blk['s']:
                for a, f in s.get('fr', []):
                    out.add((norm(a), f))
            t = blk['t']
            for a in t.get('args', []) if t.get('k') == 'call' else []:
                pass
    return out, n
