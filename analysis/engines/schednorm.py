"""Normalisation and comparison of schedule trees (DESIGN §3.B Normalisation / Decision)."""
import re
from .sched import seq, is_eps, EPS, fmt_dom


class Norm:
    def __init__(self, classify_item, dom_equiv=None, concat=None, count_alias=None, drop_common_key=None):
        self.classify_item = classify_item
        self.dom_equiv = dom_equiv or {}        # fmt_dom string -> canonical name
        self.concat = concat or {}              # D -> (D1, D2): D is D1 followed by D2, split by `index<D> < len<D1>`
        self.count_alias = count_alias or {}

    # ---------------------------------------------------------------- domains / keys
    def dom(self, d):
        s = fmt_dom(d) if not isinstance(d, str) else d
        for _ in range(4):
            s2 = self.key(s)
            if s2 == s:
                break
            s = s2
        s = self.simplify_filter(s)
        if not s.startswith('read(') and 'read(' in s:
            # an integer read from the stream inside a compound bound: location-free for the alias table
            s = re.sub(r'read\([^)]*\)', 'READ', s)
        return self.dom_equiv.get(s, s)

    def simplify_filter(self, s):
        # filter(D, coll<filter(D', K)>.contains(index<D''>)) == filter(D', K) when D, D', D'' are the same domain:
        # membership of the index in the filtered index set is the filter condition itself
        if not s.startswith('filter('):
            return s
        inner = s[len('filter('):-1]
        parts = split_top(inner)
        if len(parts) != 2:
            return s
        d, k = parts
        m = re.match(r'^coll<(filter\(.*\))>\.contains\(index<(.*)>\)$', k)
        if m:
            inner2 = split_top(m.group(1)[len('filter('):-1])
            if len(inner2) == 2 and inner2[0] == d and m.group(2) == d:
                return f'filter({d},{inner2[1]})'
        return s

    def key(self, k):
        s = k
        # counts that alias a collection length
        for a, b in self.count_alias.items():
            s = re.sub(re.escape(a) + r'(?![\w])', b, s)
        for a, b in self.dom_equiv.items():
            if a in s and a != s:
                s = re.sub(re.escape(a) + r'(?![\w])', b, s)
        # membership in a filtered index set is the filter condition itself
        m = re.search(r'filter\((.*),coll<filter\((.*)>\.contains\(index<', s)
        s = re.sub(r'^!!', '', s)
        return s

    # ---------------------------------------------------------------- tree rewriting
    def norm(self, t):
        k = t[0]
        if k == 'seq':
            return self.fuse(seq([self.norm(x) for x in t[1]]))
        if k == 'op':
            if len(t) > 4 and t[4] is not None:
                return ('op', t[1], self.classify_item(t[2]), t[3], ('len', self.dom(t[4][1])))
            return ('op', t[1], self.classify_item(t[2]), t[3])
        if k == 'loop':
            d = t[1]
            dn = self.dom(d) if not (isinstance(d, tuple) and d[0] == 'const') else None
            # prefix split (on the raw body, before filters are formed)
            for D, (D1, D2) in self.concat.items():
                if dn == D:
                    key = f'(index<{D}> < len<{D1}>)'
                    if self.mentions(t[2], key):
                        a = self.norm(self.assume(t[2], key, True))
                        b = self.norm(self.assume(t[2], key, False))
                        return self.fuse(seq([('loop', D1, a) if not is_eps(a) else EPS, ('loop', D2, b) if not is_eps(b) else EPS]))
            body = self.norm(t[2])
            if is_eps(body):
                return EPS
            if isinstance(d, tuple) and d[0] == 'const':
                tag = f'index<const({d[1]})>'
                if self.mentions_sub(t[2], tag):
                    return self.fuse(seq([self.norm(self.subst(t[2], tag, f'i:{i}')) for i in range(d[1])]))
                return self.fuse(seq([body] * d[1]))
            # Loop(d, Alt(k, X, eps)) -> Loop(filter(d,k), X)
            if body[0] == 'alt' and len(body[2]) == 2:
                k0, (x, y) = body[1], body[2]
                if is_eps(y) and not is_eps(x):
                    return ('loop', self.filtered(dn, k0), x)
                if is_eps(x) and not is_eps(y):
                    return ('loop', self.filtered(dn, '!' + k0), y)
            return ('loop', dn, body)
        if k == 'alt':
            key = self.key(t[1])
            bs = [self.norm(b) for b in t[2]]
            if key.startswith('!') and len(bs) == 2:
                key, bs = key[1:], [bs[1], bs[0]]
            if all(is_eps(b) for b in bs):
                return EPS
            if all(b == bs[0] for b in bs):
                return bs[0]
            return ('alt', key, bs)
        return t

    def filtered(self, dn, key):
        key = self.key(key)
        # filter(D, coll<filter(D', K)>.contains(index<D>))  ==  filter(D', K)   when D and D' are the same domain
        m = re.match(r'^coll<filter\((.*),(\(.*\))\)>\.contains\(index<(.*)>\)$', key)
        if m and self.dom(m.group(1)) == self.dom(m.group(3)) == dn:
            return f'filter({dn},{m.group(2)})'
        return f'filter({dn},{key})'

    def fuse(self, t):
        """merge adjacent alts on the same key and adjacent loops over the same filtered domain is NOT done (order matters)"""
        if t[0] != 'seq':
            return t
        out = []
        for x in t[1]:
            if out and x[0] == 'alt' and out[-1][0] == 'alt' and x[1] == out[-1][1] and len(x[2]) == len(out[-1][2]):
                prev = out.pop()
                out.append(('alt', x[1], [seq([a, b]) for a, b in zip(prev[2], x[2])]))
            else:
                out.append(x)
        return seq(out)

    def mentions_sub(self, t, sub):
        if t[0] == 'alt':
            return sub in t[1] or any(self.mentions_sub(b, sub) for b in t[2])
        if t[0] == 'seq':
            return any(self.mentions_sub(x, sub) for x in t[1])
        if t[0] == 'loop':
            return sub in fmt_dom(t[1]) or self.mentions_sub(t[2], sub)
        return False

    def subst(self, t, a, b):
        if t[0] == 'alt':
            key = t[1].replace(a, b)
            v = eval_key(key)
            bs = [self.subst(x, a, b) for x in t[2]]
            if v is not None and len(bs) == 2:
                return bs[0] if v else bs[1]
            return ('alt', key, bs)
        if t[0] == 'seq':
            return seq([self.subst(x, a, b) for x in t[1]])
        if t[0] == 'loop':
            return ('loop', t[1], self.subst(t[2], a, b))
        return t

    def mentions(self, t, key):
        if t[0] == 'alt':
            if self.key(t[1]).lstrip('!') == key:
                return True
            return any(self.mentions(b, key) for b in t[2])
        if t[0] == 'seq':
            return any(self.mentions(x, key) for x in t[1])
        if t[0] == 'loop':
            return self.mentions(t[2], key)
        return False

    def assume(self, t, key, val):
        if t[0] == 'alt':
            k = self.key(t[1])
            neg = k.startswith('!')
            if k.lstrip('!') == key and len(t[2]) == 2:
                take_first = (val != neg)
                return self.assume(t[2][0] if take_first else t[2][1], key, val)
            return ('alt', t[1], [self.assume(b, key, val) for b in t[2]])
        if t[0] == 'seq':
            return seq([self.assume(x, key, val) for x in t[1]])
        if t[0] == 'loop':
            return ('loop', t[1], self.assume(t[2], key, val))
        return t


def eval_key(k):
    """evaluate closed integer comparisons such as `(i:0 < i:1)` / `!(i:1 < i:1)`"""
    neg = False
    while k.startswith('!'):
        neg = not neg
        k = k[1:]
    m = re.match(r'^\(i:(\d+) (<|<=|>|>=|==|!=) i:(\d+)\)$', k)
    if not m:
        return None
    a, op, b = int(m.group(1)), m.group(2), int(m.group(3))
    v = {'<': a < b, '<=': a <= b, '>': a > b, '>=': a >= b, '==': a == b, '!=': a != b}[op]
    return (not v) if neg else v


def split_top(s):
    out, depth, cur = [], 0, ''
    for ch in s:
        if ch in '(<':
            depth += 1
        elif ch in ')>':
            depth -= 1
        if ch == ',' and depth == 0:
            out.append(cur); cur = ''
        else:
            cur += ch
    out.append(cur)
    return out


def enum_keys(t, out=None):
    out = set() if out is None else out
    if t[0] == 'alt':
        if t[1].startswith('match ') and '{' not in t[1]:
            out.add((t[1], len(t[2])))
        for b in t[2]:
            enum_keys(b, out)
    elif t[0] == 'seq':
        for x in t[1]:
            enum_keys(x, out)
    elif t[0] == 'loop':
        enum_keys(t[2], out)
    return out


def specialise_enum(t, key, i):
    """the schedule under the assumption that the enum-keyed alternative `key` takes its i-th variant everywhere"""
    if t[0] == 'alt':
        if t[1] == key and i < len(t[2]):
            return specialise_enum(t[2][i], key, i)
        bs = [specialise_enum(b, key, i) for b in t[2]]
        if all(is_eps(b) for b in bs):
            return EPS
        if all(b == bs[0] for b in bs):
            return bs[0]
        return ('alt', t[1], bs)
    if t[0] == 'seq':
        return seq([specialise_enum(x, key, i) for x in t[1]])
    if t[0] == 'loop':
        b = specialise_enum(t[2], key, i)
        return ('loop', t[1], b) if not is_eps(b) else EPS
    return t


def length_prefix(t):
    """Rename length-prefixed domains: an integer operation carrying ('len', D) names D as LP#i (i = order of appearance); every
    later loop over D is renamed.  Makes `write len; for x in xs {write x}` and `n = read; for _ in 0..n {read}` comparable."""
    names = {}
    counter = [-1]
    used = set()

    def doms(t):
        if t[0] == 'loop':
            used.add(t[1])
            doms(t[2])
        elif t[0] == 'seq':
            for x in t[1]:
                doms(x)
        elif t[0] == 'alt':
            for b in t[2]:
                doms(b)
    doms(t)

    def go(t):
        k = t[0]
        if k == 'op':
            if len(t) > 4 and t[4] is not None and t[4][1] in used:
                d = t[4][1]
                # every length-carrying operation opens a new length-prefixed section (two instances of one ADT share field names)
                counter[0] += 1
                names[d] = f'LP#{counter[0]}'
                return ('op', t[1], t[2] + ':len(' + names[d] + ')', t[3])
            return ('op', t[1], t[2], t[3])
        if k == 'seq':
            return ('seq', [go(x) for x in t[1]])
        if k == 'loop':
            d = names.get(t[1], t[1])
            return ('loop', d, go(t[2]))
        if k == 'alt':
            return ('alt', t[1], [go(b) for b in t[2]])
        return t
    return go(t)


DUAL = {'write': 'read', 'read': 'read', 'common': 'common', 'squeeze': 'squeeze'}


def dualize(t):
    if t[0] == 'op':
        return ('op', DUAL.get(t[1], t[1]), *t[2:])
    if t[0] == 'seq':
        return ('seq', [dualize(x) for x in t[1]])
    if t[0] == 'loop':
        return ('loop', t[1], dualize(t[2]))
    if t[0] == 'alt':
        return ('alt', t[1], [dualize(b) for b in t[2]])
    return t


def flat(t):
    return t[1] if t[0] == 'seq' else [t]


def describe(x):
    if x is None:
        return '(end of schedule)'
    if x[0] == 'op':
        return f'{x[1]} {x[2]} [{x[3]}]'
    if x[0] == 'loop':
        return f'LOOP {x[1]} {{ {first_op(x[2])} … }}'
    if x[0] == 'alt':
        return f'ALT {x[1]}'
    return str(x)


def first_op(t):
    for x in flat(t):
        if x[0] == 'op':
            return f'{x[1]} {x[2]} [{x[3]}]'
        if x[0] in ('loop',):
            return first_op(x[2])
        if x[0] == 'alt':
            for b in x[2]:
                r = first_op(b)
                if r:
                    return r
    return ''


def compare(a, b, path='', na='A', nb='B'):
    """first structural difference between two normalised trees, or None"""
    la, lb = flat(a), flat(b)
    for i in range(max(len(la), len(lb))):
        x = la[i] if i < len(la) else None
        y = lb[i] if i < len(lb) else None
        here = f'{path}/{i}'
        if x is None or y is None:
            return f'at {here}: {na} has {describe(x)} but {nb} has {describe(y)}'
        if x[0] != y[0]:
            return f'at {here}: {na} has {describe(x)} but {nb} has {describe(y)}'
        if x[0] == 'op':
            if (x[1], x[2]) != (y[1], y[2]):
                return f'at {here}: {na} has {describe(x)} but {nb} has {describe(y)}'
        elif x[0] == 'loop':
            if x[1] != y[1]:
                return f'at {here}: loop domains differ: {na} iterates {x[1]} ({first_op(x[2])}) but {nb} iterates {y[1]} ({first_op(y[2])})'
            r = compare(x[2], y[2], here + f'/LOOP {x[1]}', na, nb)
            if r:
                return r
        elif x[0] == 'alt':
            if x[1] != y[1] or len(x[2]) != len(y[2]):
                return f'at {here}: conditions differ: {na} branches on `{x[1]}` but {nb} on `{y[1]}`'
            for j, (p, q) in enumerate(zip(x[2], y[2])):
                r = compare(p, q, here + f'/ALT {x[1]}#{j}', na, nb)
                if r:
                    return r
        elif x != y:
            return f'at {here}: {na} has {x} but {nb} has {y}'
    return None


def count_ops(t):
    if t[0] == 'op':
        return 1
    if t[0] == 'seq':
        return sum(count_ops(x) for x in t[1])
    if t[0] == 'loop':
        return count_ops(t[2])
    if t[0] == 'alt':
        return sum(count_ops(b) for b in t[2])
    return 0


def find_opaque(t, out=None):
    out = [] if out is None else out
    if t[0] == 'opaque':
        out.append(t[1])
    elif t[0] == 'seq':
        for x in t[1]:
            find_opaque(x, out)
    elif t[0] == 'loop':
        if isinstance(t[1], tuple) and t[1] and t[1][0] == 'unknown':
            out.append(f'unclassified loop domain {t[1]}')
        find_opaque(t[2], out)
    elif t[0] == 'alt':
        for b in t[2]:
            find_opaque(b, out)
    return out
