"""Defining equations of published field constants, decided on the values the COMPILER computed for them (const evaluation, dumped by the driver as raw
memory): nothing of the analysed program is run.  The representation of an element is calibrated on the type's own `ONE`:  value(x) = raw(x) / raw(ONE)
mod p  holds for the canonical representation (raw(ONE) = 1) and for every Montgomery representation (raw(ONE) = R mod p) alike."""
import json, os
from .. import facts


def load(world, crate='curves'):
    p = os.path.join(world.dir, f'midnight_{crate}.consts.json')
    if not os.path.exists(p):
        raise facts.CheckError(f'fact file missing: {p}')
    with open(p) as fh:
        return json.load(fh)['consts']


def le(hexs):
    return int.from_bytes(bytes.fromhex(hexs), 'little')


class FieldConsts:
    def __init__(self, ty):
        self.ty = ty
        self.c = {}
        self.loc = {}

    def raw(self, name):
        v = self.c.get(name)
        return None if v is None or 'hex' not in v else le(v['hex'])


def prime_fields(consts):
    """{type: FieldConsts} for the types that publish ff::PrimeField constants"""
    out = {}
    for c in consts:
        if c.get('impl_trait') in ('ff::PrimeField', 'ff::Field', 'ff::WithSmallOrderMulGroup') and c.get('impl_self'):
            fc = out.setdefault(c['impl_self'], FieldConsts(c['impl_self']))
            name = c['id'].rsplit('::', 1)[-1]
            fc.c[name] = c
            fc.loc[name] = f"{c['file']}:{c['line']}"
    return out


def equations(fc):
    """[(key, ok or None (not decidable), detail)] for one prime field; None entries say why an equation could not be evaluated"""
    res = []
    ms = fc.c.get('MODULUS', {}).get('str')
    if not ms:
        return [('representation', None, 'no MODULUS string constant: not a prime field with published modulus (extension field or opaque wrapper)')]
    p = int(ms, 16)
    one = fc.raw('ONE')
    size = fc.c.get('ONE', {}).get('size', 0)
    limbs = 8 * ((p.bit_length() + 63) // 64)
    if one is None or size != limbs or one % p == 0:
        return [('representation', None, f'elements are not plain limb arrays ({size} bytes for a {p.bit_length()}-bit modulus): representation not calibrated')]
    inv_one = pow(one, -1, p)

    def val(name):
        r = fc.raw(name)
        return None if r is None else (r * inv_one) % p

    def num(name):
        r = fc.raw(name)
        return r

    def eq(key, cond, detail):
        res.append((key, bool(cond), detail))
    eq('ZERO', fc.raw('ZERO') == 0, 'ZERO is the all-zero element')
    if num('NUM_BITS') is not None:
        eq('NUM_BITS', num('NUM_BITS') == p.bit_length(), f'NUM_BITS = {num("NUM_BITS")}, bit length of the modulus = {p.bit_length()}')
    if num('CAPACITY') is not None and num('NUM_BITS') is not None:
        eq('CAPACITY', num('CAPACITY') == p.bit_length() - 1, f'CAPACITY = {num("CAPACITY")}, NUM_BITS - 1 = {p.bit_length() - 1}')
    if val('TWO_INV') is not None:
        eq('TWO_INV', (2 * val('TWO_INV')) % p == 1, '2 * TWO_INV = 1')
    s = num('S')
    g = val('MULTIPLICATIVE_GENERATOR')
    if s is not None:
        t = (p - 1) >> s
        eq('S', (p - 1) % (1 << s) == 0 and t % 2 == 1, f'p - 1 = 2^S * t with t odd (S = {s}; the two-adicity of p - 1 is {((p - 1) & -(p - 1)).bit_length() - 1})')
        r = val('ROOT_OF_UNITY')
        if r is not None:
            eq('ROOT_OF_UNITY', pow(r, 1 << s, p) == 1 and (s == 0 or pow(r, 1 << (s - 1), p) == p - 1), 'ROOT_OF_UNITY is a primitive 2^S-th root of unity')
            ri = val('ROOT_OF_UNITY_INV')
            if ri is not None:
                eq('ROOT_OF_UNITY_INV', (r * ri) % p == 1, 'ROOT_OF_UNITY * ROOT_OF_UNITY_INV = 1')
            if g is not None:
                eq('ROOT_OF_UNITY~GENERATOR', r == pow(g, (p - 1) >> s, p) or s == 0, 'ROOT_OF_UNITY = GENERATOR^t')
        if val('DELTA') is not None and g is not None:
            eq('DELTA', val('DELTA') == pow(g, 1 << s, p), 'DELTA = GENERATOR^(2^S)')
    if g is not None:
        eq('MULTIPLICATIVE_GENERATOR', pow(g, (p - 1) // 2, p) == p - 1, 'the generator is a quadratic non-residue (necessary for generating the multiplicative group)')
    z = val('ZETA')
    if z is not None:
        eq('ZETA', pow(z, 3, p) == 1 and z != 1, 'ZETA is a primitive cube root of unity')
    return res


def module_equations(consts, fields):
    """Montgomery and modulus constants kept next to a prime field type (same module): [(const id, key, ok, detail, loc)].
    The module of a type `a::b::T` is `a::b`; constants are matched by their conventional names."""
    out = []
    mod_p = {}
    for t, fc in fields.items():
        ms = fc.c.get('MODULUS', {}).get('str')
        one = fc.c.get('ONE', {})
        if ms and '::' in t and 'hex' in one:
            p = int(ms, 16)
            if one.get('size') == 8 * ((p.bit_length() + 63) // 64):
                mod_p[t.rsplit('::', 1)[0]] = (p, one['size'], t)
    for c in consts:
        if c.get('impl_trait') or 'hex' not in c:
            continue
        cid = c['id']
        name = cid.rsplit('::', 1)[-1]
        owner = cid.rsplit('::', 1)[0]
        # module-level constant  a::b::NAME  or inherent associated constant  a::b::T::NAME
        key = owner if owner in mod_p else (owner.rsplit('::', 1)[0] if owner.rsplit('::', 1)[0] in mod_p and owner == mod_p[owner.rsplit('::', 1)[0]][2] else None)
        if key is None:
            continue
        p, size, t = mod_p[key]
        raw = le(c['hex'])
        R = pow(2, 8 * size, p)
        loc = f"{c['file']}:{c['line']}"

        def add(ok, detail):
            out.append((cid, name, bool(ok), detail, loc))
        if name in ('MODULUS', 'MODULUS_LIMBS', 'MODULUS_LIMBS_32', 'MODULUS_REPR') and c['size'] == size:
            add(raw == p, f'{name} holds the modulus published as PrimeField::MODULUS')
        elif name == 'INV' and c['size'] == 8:
            add(raw == (-pow(p, -1, 1 << 64)) % (1 << 64), 'INV = -p^-1 mod 2^64')
        elif name == 'R' and c['size'] == size:
            add(raw == R, f'R = 2^{8 * size} mod p')
        elif name in ('R2', 'R2_LIMBS') and c['size'] == size:
            add(raw == R * R % p, f'R2 = 2^{16 * size} mod p')
        elif name == 'R3' and c['size'] == size:
            add(raw == R * R * R % p, f'R3 = 2^{24 * size} mod p')
        elif name == 'ZETA_BASE' and c['size'] == size:
            v = raw * pow(R, -1, p) % p
            add(pow(v, 3, p) == 1 and v != 1, 'ZETA_BASE is a primitive cube root of unity')
        elif name == 'T_SQRT' and c['size'] == size:
            v = raw * pow(R, -1, p) % p
            add(p % 8 == 5 and v == pow(2, (p - 5) // 8, p), 'T_SQRT = 2^((p - 5)/8) mod p (square roots for p = 5 mod 8, as documented at the constant)')
    return out
