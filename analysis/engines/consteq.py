"""Defining equations of published field constants, decided on the values the COMPILER computed for them (const evaluation, dumped by the driver as raw
memory): nothing of the analysed program is run.  The representation of an element is calibrated on the type's own `ONE`:  value(x) = raw(x) / raw(ONE)
mod p  holds for the canonical representation (raw(ONE) = 1) and for every Montgomery representation (raw(ONE) = R mod p) alike."""
import json, os
from .. import facts


def load(world, crate='curves'):
    p = os.path.join(world.dir, f'midnight_{crate}.consts.json')
    if not os.path.exists(p):
        raise facts.CheckError(f'fact file missing: {p}')
    with open(p) as fh:
        return json.load(fh)['consts']


def le(hexs):
    return int.from_bytes(bytes.fromhex(hexs), 'little')


class FieldConsts:
    def __init__(self, ty):
        self.ty = ty
        self.c = {}
        self.loc = {}

    def raw(self, name):
        v = self.c.get(name)
        return None if v is None or 'hex' not in v else le(v['hex'])


def prime_fields(consts):
    """{type: FieldConsts} for the types that publish ff::PrimeField constants"""
    out = {}
    for c in consts:
        if c.get('impl_trait') in ('ff::PrimeField', 'ff::Field', 'ff::WithSmallOrderMulGroup') and c.get('impl_self'):
            fc = out.setdefault(c['impl_self'], FieldConsts(c['impl_self']))
            name = c['id'].rsplit('::', 1)[-1]
            fc.c[name] = c
            fc.loc[name] = f"{c['file']}:{c['line']}"
    return out


def equations(fc):
    """[(key, ok or None (not decidable), detail)] for one prime field; None entries say why an equation could not be evaluated"""
    res = []
    ms = fc.c.get('MODULUS', {}).get('str')
    if not ms:
        return [('representation', None, 'no MODULUS string constant: not a prime field with published modulus (extension field or opaque wrapper)')]
    p = int(ms, 16)
    one = fc.raw('ONE')
    size = fc.c.get('ONE', {}).get('size', 0)
    limbs = 8 * ((p.bit_length() + 63) // 64)
    if one is None or size != limbs or one % p == 0:
        return [('representation', None, f'elements are not plain limb arrays ({size} bytes for a {p.bit_length()}-bit modulus): representation not calibrated')]
    inv_one = pow(one, -1, p)

    def val(name):
        r = fc.raw(name)
        return None if r is None else (r * inv_one) % p

    def num(name):
        r = fc.raw(name)
        return r

    def eq(key, cond, detail):
        res.append((key, bool(cond), detail))
    eq('ZERO', fc.raw('ZERO') == 0, 'ZERO is the all-zero element')
    if num('NUM_BITS') is not None:
        eq('NUM_BITS', num('NUM_BITS') == p.bit_length(), f'NUM_BITS = {num("NUM_BITS")}, bit length of the modulus = {p.bit_length()}')
    if num('CAPACITY') is not None and num('NUM_BITS') is not None:
        eq('CAPACITY', num('CAPACITY') == p.bit_length() - 1, f'CAPACITY = {num("CAPACITY")}, NUM_BITS - 1 = {p.bit_length() - 1}')
    if val('TWO_INV') is not None:
        eq('TWO_INV', (2 * val('TWO_INV')) % p == 1, '2 * TWO_INV = 1')
    s = num('S')
    g = val('MULTIPLICATIVE_GENERATOR')
    if s is not None:
        t = (p - 1) >> s
        eq('S', (p - 1) % (1 << s) == 0 and t % 2 == 1, f'p - 1 = 2^S * t with t odd (S = {s}; the two-adicity of p - 1 is {((p - 1) & -(p - 1)).bit_length() - 1})')
        r = val('ROOT_OF_UNITY')
        if r is not None:
            eq('ROOT_OF_UNITY', pow(r, 1 << s, p) == 1 and (s == 0 or pow(r, 1 << (s - 1), p) == p - 1), 'ROOT_OF_UNITY is a primitive 2^S-th root of unity')
            ri = val('ROOT_OF_UNITY_INV')
            if ri is not None:
                eq('ROOT_OF_UNITY_INV', (r * ri) % p == 1, 'ROOT_OF_UNITY * ROOT_OF_UNITY_INV = 1')
            if g is not None:
                eq('ROOT_OF_UNITY~GENERATOR', r == pow(g, (p - 1) >> s, p) or s == 0, 'ROOT_OF_UNITY = GENERATOR^t')
        if val('DELTA') is not None and g is not None:
            eq('DELTA', val('DELTA') == pow(g, 1 << s, p), 'DELTA = GENERATOR^(2^S)')
    if g is not None:
        eq('MULTIPLICATIVE_GENERATOR', pow(g, (p - 1) // 2, p) == p - 1, 'the generator is a quadratic non-residue (necessary for generating the multiplicative group)')
    z = val('ZETA')
    if z is not None:
        eq('ZETA', pow(z, 3, p) == 1 and z != 1, 'ZETA is a primitive cube root of unity')
    return res


def module_equations(consts, fields):
    """Montgomery and modulus constants kept next to a prime field type (same module): [(const id, key, ok, detail, loc)].
    The module of a type `a::b::T` is `a::b`; constants are matched by their conventional names."""
    out = []
    mod_p = {}
    for t, fc in fields.items():
        ms = fc.c.get('MODULUS', {}).get('str')
        one = fc.c.get('ONE', {})
        if ms and '::' in t and 'hex' in one:
            p = int(ms, 16)
            if one.get('size') == 8 * ((p.bit_length() + 63) // 64):
                mod_p[t.rsplit('::', 1)[0]] = (p, one['size'], t)
    for c in consts:
        if c.get('impl_trait') or 'hex' not in c:
            continue
        cid = c['id']
        name = cid.rsplit('::', 1)[-1]
        owner = cid.rsplit('::', 1)[0]
        # module-level constant  a::b::NAME  or inherent associated constant  a::b::T::NAME
        key = owner if owner in mod_p else (owner.rsplit('::', 1)[0] if owner.rsplit('::', 1)[0] in mod_p and owner == mod_p[owner.rsplit('::', 1)[0]][2] else None)
        if key is None:
            continue
        p, size, t = mod_p[key]
        raw = le(c['hex'])
        R = pow(2, 8 * size, p)
        loc = f"{c['file']}:{c['line']}"

        def add(ok, detail):
            out.append((cid, name, bool(ok), detail, loc))
        if name in ('MODULUS', 'MODULUS_LIMBS', 'MODULUS_LIMBS_32', 'MODULUS_REPR') and c['size'] == size:
            add(raw == p, f'{name} holds the modulus published as PrimeField::MODULUS')
        elif name == 'INV' and c['size'] == 8:
            add(raw == (-pow(p, -1, 1 << 64)) % (1 << 64), 'INV = -p^-1 mod 2^64')
        elif name == 'R' and c['size'] == size:
            add(raw == R, f'R = 2^{8 * size} mod p')
        elif name in ('R2', 'R2_LIMBS') and c['size'] == size:
            add(raw == R * R % p, f'R2 = 2^{16 * size} mod p')
        elif name == 'R3' and c['size'] == size:
            add(raw == R * R * R % p, f'R3 = 2^{24 * size} mod p')
        elif name == 'ZETA_BASE' and c['size'] == size:
            v = raw * pow(R, -1, p) % p
            add(pow(v, 3, p) == 1 and v != 1, 'ZETA_BASE is a primitive cube root of unity')
        elif name == 'T_SQRT' and c['size'] == size:
            v = raw * pow(R, -1, p) % p
            add(p % 8 == 5 and v == pow(2, (p - 5) // 8, p), 'T_SQRT = 2^((p - 5)/8) mod p (square roots for p = 5 mod 8, as documented at the constant)')
    return out


# --------------------------------------------------------------------------- hash-function constants (FIPS 180-4, RIPEMD-160)
def _primes(n):
    out, c = [], 2
    while len(out) < n:
        if all(c % q for q in out if q * q <= c):
            out.append(c)
        c += 1
    return out


def _iroot(x, k):
    lo, hi = 0, 1 << (x.bit_length() // k + 2)
    while lo < hi:
        mid = (lo + hi + 1) // 2
        if mid ** k <= x:
            lo = mid
        else:
            hi = mid - 1
    return lo


def words(hexs, w):
    b = bytes.fromhex(hexs)
    return [int.from_bytes(b[i:i + w], 'little') for i in range(0, len(b), w)]


def sha2_equations(consts):
    """[(const id, ok, detail, loc)]: round constants = fractional parts of the cube roots of the first primes, IV = of their square roots"""
    out = []
    for c in consts:
        if 'hex' not in c:
            continue
        cid = c['id']
        loc = f"{c['file']}:{c['line']}"
        for fam, w, nk in (('sha256', 4, 64), ('sha512', 8, 80)):
            if f'::hash::{fam}::' not in cid:
                continue
            if cid.endswith('::ROUND_CONSTANTS') and c['size'] == w * nk:
                exp = [_iroot(p << (24 * w), 3) % (1 << (8 * w)) for p in _primes(nk)]
                out.append((cid, words(c['hex'], w) == exp, f'K[i] = first {8 * w} bits of the fractional part of the cube root of the i-th prime ({nk} words)', loc))
            if cid.endswith('::IV') and c['size'] == w * 8:
                exp = [_iroot(p << (16 * w), 2) % (1 << (8 * w)) for p in _primes(8)]
                out.append((cid, words(c['hex'], w) == exp, f'IV[i] = first {8 * w} bits of the fractional part of the square root of the i-th prime', loc))
    return out


def ripemd_equations(consts):
    by = {c['id'].rsplit('::', 1)[-1]: c for c in consts if '::hash::ripemd160::ripemd160_chip::' in c['id'] and 'hex' in c}
    out = []

    def loc(n):
        return f"{by[n]['file']}:{by[n]['line']}"
    if 'K' in by:
        exp = [0] + [_iroot(n << 60, 2) for n in (2, 3, 5, 7)]
        out.append((by['K']['id'], words(by['K']['hex'], 4) == exp, 'K = 0, floor(2^30 * sqrt(2, 3, 5, 7))', loc('K')))
    if 'K_PRIME' in by:
        exp = [_iroot(n << 90, 3) for n in (2, 3, 5, 7)] + [0]
        out.append((by['K_PRIME']['id'], words(by['K_PRIME']['hex'], 4) == exp, "K' = floor(2^30 * cbrt(2, 3, 5, 7)), 0", loc('K_PRIME')))
    if 'IV' in by:
        out.append((by['IV']['id'], by['IV']['hex'] == '0123456789abcdeffedcba9876543210f0e1d2c3', 'IV = 67452301 efcdab89 98badcfe 10325476 c3d2e1f0', loc('IV')))
    rho = [7, 4, 13, 1, 10, 6, 15, 3, 12, 0, 9, 5, 2, 14, 11, 8]
    if 'R' in by and by['R']['size'] == 80:
        r = list(bytes.fromhex(by['R']['hex']))
        exp, cur = [], list(range(16))
        for _ in range(5):
            exp += cur
            cur = [rho[i] for i in cur]
        out.append((by['R']['id'], r == exp, 'left message-word selection: identity, rho, rho^2, rho^3, rho^4', loc('R')))
    if 'R_PRIME' in by and by['R_PRIME']['size'] == 80:
        r = list(bytes.fromhex(by['R_PRIME']['hex']))
        exp, cur = [], [(9 * i + 5) % 16 for i in range(16)]
        for _ in range(5):
            exp += cur
            cur = [rho[i] for i in cur]
        out.append((by['R_PRIME']['id'], r == exp, 'right message-word selection: pi, rho pi, ..., rho^4 pi with pi(i) = 9i + 5 mod 16', loc('R_PRIME')))
    if all(k in by for k in ('R', 'R_PRIME', 'S', 'S_PRIME')) and all(by[k]['size'] == 80 for k in ('R', 'R_PRIME', 'S', 'S_PRIME')):
        R, RP, S, SP = (list(bytes.fromhex(by[k]['hex'])) for k in ('R', 'R_PRIME', 'S', 'S_PRIME'))
        ok = True
        for k in range(5):
            T = {}
            for j in range(16):
                T[R[16 * k + j]] = S[16 * k + j]
            ok = ok and len(T) == 16 and all(SP[16 * k + j] == T[RP[16 * k + j]] for j in range(16))
        out.append((by['S_PRIME']['id'], ok, "the rotation amount depends on the round and on the message word only: s'(j) = T[round][r'(j)] with T read off s and r", loc('S_PRIME')))
    return out


def base64_equations(consts):
    out = []
    alpha = 'ABCDEFGHIJKLMNOPQRSTUVWXYZabcdefghijklmnopqrstuvwxyz0123456789+/'
    for c in consts:
        if c['id'].endswith('::parsing::table::BASE64_TABLE') and 'hex' in c and c['size'] == 512:
            b = bytes.fromhex(c['hex'])
            ent = [(int.from_bytes(b[8 * i:8 * i + 4], 'little'), b[8 * i + 4]) for i in range(64)]
            out.append((c['id'], ent == [(ord(ch), i) for i, ch in enumerate(alpha)], 'entry i = (i-th character of the standard alphabet A-Z a-z 0-9 + /, i)', f"{c['file']}:{c['line']}"))
    return out


# --------------------------------------------------------------------------- curve parameters
KNOWN_SUBGROUP_ORDERS = {       # mathematical constants (group orders of the prime-order subgroups)
    'midnight_curves::k256::curve::K256': 0xFFFFFFFFFFFFFFFFFFFFFFFFFFFFFFFEBAAEDCE6AF48A03BBFD25E8CD0364141,
    'midnight_curves::curve25519::curve::Curve25519': (1 << 252) + 27742317777372353535851937790883648493,
}


def curve_equations(curves_consts, circuits_consts):
    """agreement of the curve parameters used in-circuit (CircuitCurve / EdwardsCurve / WeierstrassCurve constants of the circuits crate) with the
    parameters of the curve implementation (curves crate), and the curve equations' coefficients themselves"""
    out = []
    fields = prime_fields(curves_consts)
    cc = {c['id']: c for c in curves_consts if 'hex' in c}
    ci = {c['id']: c for c in circuits_consts if 'hex' in c}

    def field_val(fname, hexs):
        fc = fields.get(fname)
        if fc is None or 'MODULUS' not in fc.c or fc.raw('ONE') is None:
            return None, None
        p = int(fc.c['MODULUS']['str'], 16)
        return (le(hexs) * pow(fc.raw('ONE'), -1, p)) % p, p

    def loc(c):
        return f"{c['file']}:{c['line']}"
    pairs = [
        ('<midnight_curves::jubjub::curve::JubjubExtended as midnight_circuits::ecc::curves::EdwardsCurve>::D', 'midnight_curves::jubjub::curve::EDWARDS_D'),
        ('<midnight_curves::curve25519::curve::Curve25519 as midnight_circuits::ecc::curves::EdwardsCurve>::D', 'midnight_curves::curve25519::curve::CURVE_D'),
        ('<midnight_curves::curve25519::curve::Curve25519 as midnight_circuits::ecc::curves::EdwardsCurve>::A', 'midnight_curves::curve25519::curve::CURVE_A'),
        ('<midnight_curves::bls12_381::g1::G1Projective as midnight_circuits::ecc::curves::WeierstrassCurve>::B', 'midnight_curves::bls12_381::g1::B'),
        ('<midnight_curves::bls12_381::g1::G1Projective as midnight_circuits::ecc::curves::WeierstrassCurve>::A', 'midnight_curves::bls12_381::g1::A'),
    ]
    for a, b in pairs:
        if a in ci and b in cc:
            out.append((a, ci[a]['hex'] == cc[b]['hex'], f'the in-circuit parameter equals {b.rsplit("::", 2)[-2]}::{b.rsplit("::", 1)[-1]} of the curve implementation', loc(ci[a])))
    FQ = 'midnight_curves::bls12_381::fq::Fq'
    FP25519 = 'midnight_curves::curve25519::fp::Fp'
    FP381 = 'midnight_curves::bls12_381::fp::Fp'
    # coefficients of the curve equations
    eqs = [
        ('midnight_curves::jubjub::curve::EDWARDS_D', cc, FQ, lambda v, p: (v * 10241 + 10240) % p == 0, 'd = -10240/10241 (Jubjub)'),
        ('<midnight_curves::jubjub::curve::JubjubExtended as midnight_circuits::ecc::curves::EdwardsCurve>::A', ci, FQ, lambda v, p: v == p - 1, 'a = -1 (Jubjub)'),
        ('midnight_curves::curve25519::curve::CURVE_D', cc, FP25519, lambda v, p: (v * 121666 + 121665) % p == 0, 'd = -121665/121666 (Curve25519)'),
        ('midnight_curves::curve25519::curve::CURVE_A', cc, FP25519, lambda v, p: v == p - 1, 'a = -1 (Curve25519)'),
        ('midnight_curves::bls12_381::g1::B', cc, FP381, lambda v, p: v == 4, 'b = 4 (BLS12-381 G1)'),
        ('midnight_curves::bls12_381::g1::A', cc, FP381, lambda v, p: v == 0, 'a = 0 (BLS12-381 G1)'),
    ]
    for cid, table, fname, pred, what in eqs:
        if cid in table:
            v, p = field_val(fname, table[cid]['hex'])
            if v is not None:
                out.append((cid, pred(v, p), what, loc(table[cid])))
    if 'midnight_curves::jubjub::curve::EDWARDS_D' in cc and 'midnight_curves::jubjub::curve::EDWARDS_D2' in cc:
        d, p = field_val(FQ, cc['midnight_curves::jubjub::curve::EDWARDS_D']['hex'])
        d2, _ = field_val(FQ, cc['midnight_curves::jubjub::curve::EDWARDS_D2']['hex'])
        if d is not None:
            out.append(('midnight_curves::jubjub::curve::EDWARDS_D2', d2 == 2 * d % p, 'EDWARDS_D2 = 2 * EDWARDS_D', loc(cc['midnight_curves::jubjub::curve::EDWARDS_D2'])))
    # size of the prime-order subgroup
    orders = dict(KNOWN_SUBGROUP_ORDERS)
    for cname, fname in (('midnight_curves::jubjub::curve::JubjubExtended', 'midnight_curves::jubjub::fr::Fr'), ('midnight_curves::bls12_381::g1::G1Projective', FQ)):
        fc = fields.get(fname)
        if fc is not None and 'MODULUS' in fc.c:
            orders[cname] = int(fc.c['MODULUS']['str'], 16)
    for cname, r in orders.items():
        k = f'<{cname} as midnight_circuits::ecc::curves::CircuitCurve>::NUM_BITS_SUBGROUP'
        if k in ci:
            out.append((k, le(ci[k]['hex']) == r.bit_length(), f'NUM_BITS_SUBGROUP = bit length of the order of the prime-order subgroup ({r.bit_length()})', loc(ci[k])))
    fb = 'midnight_curves::jubjub::curve::FR_MODULUS_BYTES'
    if fb in cc and 'midnight_curves::jubjub::curve::JubjubExtended' in orders:
        out.append((fb, le(cc[fb]['hex']) == orders['midnight_curves::jubjub::curve::JubjubExtended'], 'FR_MODULUS_BYTES = little-endian bytes of the Jubjub scalar modulus', loc(cc[fb])))
    return out
