"""HIR query helpers."""
import re
from ..core import walk, norm, callee, peel, children, pat_bindings, expr_str


def ty_adt(t):
    """strip refs/mut/lifetimes from a printed type and normalise: '&'a mut foo::Bar<F>' -> 'foo::Bar'"""
    if t is None:
        return None
    s = t.strip()
    while True:
        m = re.match(r"^&('\w+ )?(mut )?", s)
        if m and m.group(0):
            s = s[m.end():]
            continue
        break
    return norm(s)


def field_reads(node, into_closures=True):
    """set of (adt, field) for every field expression in node"""
    out = set()
    for n in walk(node, into_closures):
        if n.get('k') == 'field':
            out.add((ty_adt(n.get('bt')), n['n']))
    return out


def calls(node, into_closures=True):
    for n in walk(node, into_closures):
        if n.get('k') in ('call', 'mcall') and ('f' in n):
            yield n


def calls_to(node, pred, into_closures=True):
    return [n for n in calls(node, into_closures) if pred(callee(n))]


def locals_used(node):
    """set of local indices referenced in node"""
    return {n['i'] for n in walk(node) if n.get('k') == 'local'}


def local_names_used(node):
    return {n['n'] for n in walk(node) if n.get('k') == 'local'}


def struct_lits(node, adt_nid):
    return [n for n in walk(node) if n.get('k') == 'struct' and norm(n.get('p', '')) == adt_nid]


def recv_root(n):
    """root local/field of a receiver chain: transcript / self.buffer / ..."""
    n = peel(n)
    while n.get('k') in ('field', 'index', 'mcall', 'try') :
        if n['k'] == 'mcall':
            n = peel(n['recv'])
        else:
            n = peel(n['e'])
    return n


def fn_loc(f, n=None):
    if n is not None and 'l' in n:
        return f"{f['file']}:{n['l']}"
    return f"{f['file']}:{f['line']}"
