"""CHECKED(decoder, validators): the checked decoder's call closure contains every listed validator, the validator's result is live,
and failures are returned (no unwrap / expect / panic in the decoder's own bodies)."""
from ..core import norm, short, mir_callee, last_seg
from . import reach, panics, mustcall as mc


def result_used(body, bb, term):
    """is the destination local of this call read by any later statement / terminator (not only dropped)?"""
    d = term.get('d')
    for blk in body['blocks']:
        for s in blk['s']:
            if d in s.get('u', []):
                return True
        t = blk['t']
        if t is term:
            continue
        k = t.get('k')
        if k == 'call':
            for a in t.get('args', []):
                if a == d or (isinstance(a, dict) and a.get('p') == d):
                    return True
        elif k == 'switch':
            on = t.get('on')
            if on == d or (isinstance(on, dict) and on.get('p') == d):
                return True
        elif k == 'assert':
            c = t.get('c')
            if c == d or (isinstance(c, dict) and c.get('p') == d):
                return True
        elif k == 'ret' and d == 0:
            return True
    return d == 0


def check_rows(ck, w, rule, rows):
    cg = w.callgraph()
    n = 0
    for dec, validators, why in rows:
        b = w.mir_body(dec, required=False)
        if b is None:
            ck.bad(rule, f'{dec}:anchor', f'checked decoder {dec} not found (anchor)')
            continue
        par = cg.reachable([dec])
        for v in validators:
            n += 1
            alts = v if isinstance(v, (list, tuple)) else [v]
            hit = [x for x in par if any(x == a or x.endswith(a) for a in alts)]
            ck.record(rule, f'{dec}|{alts[0]}', bool(hit), f'reaches {short(hit[0]) if hit else alts[0]} ({why})',
                      f'checked decoder {dec} no longer reaches {" / ".join(alts)}: {why} is not enforced, it behaves like its unchecked twin', reach.loc(b))
            # liveness of the validator's result at its call sites inside the closure
            dead = []
            for x in par:
                bx = w.mir_index().get(x)
                if bx is None:
                    continue
                for bi, t in mc.call_blocks(bx, lambda c, t: any(c == a or c.endswith(a) for a in alts)):
                    if not result_used(bx, bi, t):
                        dead.append((x, t))
            if hit:
                ck.record(rule, f'{dec}|{alts[0]}:live', not dead, 'validator result is used',
                          f'{dec}: the result of {alts[0]} is computed and dropped at {[short(x) for x, _ in dead]}', reach.loc(b))
        own = [x for x in par if x == dec or x.startswith(dec + '::{closure')]
        bad = []
        for x in own:
            bx = w.mir_body(x)
            tests = bool(mc.call_blocks(bx, lambda c, t: c.endswith(('CtOption::is_some', 'CtOption::is_none', 'Option::is_some', 'Option::is_none'))))
            for s in panics.sites(bx):
                # conversions of constant-length slices (`bytes[0..8].try_into().unwrap()`) yield Result and are infallible: only
                # unwraps of decoded *options* and explicit panics count; an unwrap behind an is_some()/is_none() test is accepted
                if s['kind'] == 'panic' or (s['kind'] == 'unwrap' and s['detail'].startswith(('CtOption::', 'Option::')) and not tests):
                    bad.append((x, s))
        if bad:
            key = f'{dec}|no-unwrap'
            ck.bad(rule, key, f'checked decoder {dec} unwraps/panics instead of returning the failure: {[(short(x), s["detail"]) for x, s in bad]}', reach.loc(b))
        else:
            ck.ok(rule, f'{dec}|no-unwrap', 'failures are returned, not unwrapped')
    return n
