"""Rounding direction of an integer-logarithm computation (HIR): does a local hold ceil(log2 y) or floor(log2 y)?

Recognised idioms
  ceil-loop : `while (1 << L) < y { L += 1 }`                        (smallest L with 2^L >= y)
  ceil-npot : `y.next_power_of_two().trailing_zeros()` / `.ilog2()`
  floor-log : `y.ilog2()`, `BITS - 1 - y.leading_zeros()`, `y.ilog(2)`  with no next_power_of_two in the slice
"""
from ..core import walk, peel, pat_bindings

FLOOR_METHODS = {'ilog2', 'checked_ilog2', 'ilog', 'checked_ilog', 'leading_zeros', 'log2'}


def locals_in(n):
    return {x['i'] for x in walk(n) if x.get('k') == 'local'}


def definitions(f, lid):
    """expressions assigned to the local (initialiser, assignments, compound assignments)"""
    out = []
    for n in walk(f['body']):
        if n.get('k') in ('let', 'letx') and 'init' in n and any(b['i'] == lid for b in pat_bindings(n['pat'])):
            out.append(n['init'])
        if n.get('k') in ('assign', 'assignop'):
            l = peel(n['lhs'])
            if l.get('k') == 'local' and l['i'] == lid:
                out.append(n['rhs'])
    return out


def slice_exprs(f, lid, depth=3):
    seen, todo, exprs = set(), [(lid, 0)], []
    while todo:
        l, d = todo.pop()
        if l in seen or d > depth:
            continue
        seen.add(l)
        for e in definitions(f, l):
            exprs.append(e)
            for j in locals_in(e):
                todo.append((j, d + 1))
    return exprs


def log_form(f, lid):
    for n in walk(f['body']):
        if n.get('k') == 'loop' and n.get('src') == 'while':
            b = n['body']
            iff = b.get('e') if b.get('k') == 'block' else None
            if not iff or iff.get('k') != 'if':
                continue
            c = peel(iff['c'])
            if c.get('k') == 'bin' and c.get('op') == '<':
                lhs_shift = [x for x in walk(c['a']) if x.get('k') == 'bin' and x.get('op') == '<<' and lid in locals_in(x['b'])]
                incr = [x for x in walk(iff['a']) if x.get('k') == 'assignop' and x.get('op') == '+=' and peel(x['lhs']).get('i') == lid
                        and peel(x['rhs']).get('v') == 'i:1']
                if lhs_shift and incr:
                    return 'ceil-loop', f'while (1 << L) < y {{ L += 1 }} at line {n.get("l")}'
    exprs = slice_exprs(f, lid)
    meths = {x.get('m') for e in exprs for x in walk(e) if x.get('k') == 'mcall'}
    if 'next_power_of_two' in meths and (meths & {'trailing_zeros', 'ilog2'}):
        return 'ceil-npot', 'next_power_of_two() then bit position'
    fl = sorted(meths & FLOOR_METHODS)
    if fl:
        return 'floor-log', f'{fl} without next_power_of_two'
    return 'unknown', f'methods used: {sorted(m for m in meths if m)}'


def compared_with(f, path_suffix):
    """locals compared (<, <=, >, >=) with a path ending in `path_suffix` anywhere in f: [(local id, name, node)]"""
    out = []
    for n in walk(f['body']):
        if n.get('k') == 'bin' and n.get('op') in ('<', '<=', '>', '>='):
            for a, b in ((n['a'], n['b']), (n['b'], n['a'])):
                pa = peel(a)
                while pa.get('k') == 'cast':
                    pa = peel(pa['e'])
                if pa.get('k') == 'path' and (pa.get('p') or '').endswith(path_suffix):
                    for x in walk(b):
                        if x.get('k') == 'local':
                            out.append((x['i'], x['n'], n))
    return out
