"""Effect-schedule extraction from HIR with domain (shape) inference (DESIGN §3.B).

Schedule trees:
  ('seq', [..]) | ('op', kind, item, loc) | ('loop', dom, body) | ('alt', key, [branches]) | ('opaque', why) | ('abort',)
Abstract values (for loop domains):
  ('coll', dom, elem) | ('len', dom) | ('tup', [..]) | ('adt', {field: A}) | ('item', dom) | None
Workspace callees that receive the carrier are inlined with their arguments' abstract values.
"""
import re
from ..core import walk, norm, callee, callee_decl, children, peel, expr_str, pat_bindings, short, pat_str
from . import hirq

EPS = ('seq', [])


def seq(items):
    out = []
    for i in items:
        if i is None:
            continue
        if i[0] == 'seq':
            out.extend(i[1])
        else:
            out.append(i)
    if len(out) == 1:
        return out[0]
    return ('seq', out)


def is_eps(t):
    return t[0] == 'seq' and not t[1]


def strip_ref(t):
    t = (t or '').strip()
    while True:
        m = re.match(r"^&('\w+ )?(mut )?", t)
        if m and m.group(0):
            t = t[m.end():]
        else:
            return t


COLL_TYPES = ('alloc::vec::Vec', '[', 'core::slice::', 'alloc::collections::', 'std::collections::', 'core::iter::', 'core::ops::range::', 'alloc::vec::')
IDENTITY_METHODS = {'to_le_bytes', 'to_be_bytes', 'to_ne_bytes', 'iter', 'iter_mut', 'into_iter', 'as_slice', 'to_vec', 'clone', 'cloned', 'copied', 'by_ref', 'rev', 'peekable', 'collect', 'unwrap',
                    'expect', 'as_ref', 'as_mut', 'borrow', 'borrow_mut', 'to_owned', 'into', 'deref', 'as_mut_slice', 'into_values', 'values', 'skip_while',
                    'take_while', 'ok', 'unwrap_or_default', 'into_par_iter', 'par_iter', 'par_iter_mut'}


class Vocab:
    def __init__(self, name, carrier_type_pred, prims, field_alias=None, count_alias=None, root_params=None, passthrough=(), site_domains=None,
                 resolve_trait=None, atomic=None):
        self.name = name
        self.carrier_type_pred = carrier_type_pred      # (type string, fn, bound) -> bool
        self.prims = prims                              # callee -> (kind, item_fn(node))
        self.field_alias = field_alias or {}            # 'ADT.field' -> canonical domain name
        self.count_alias = count_alias or {}            # 'ADT.field' (integer) -> domain whose size it is
        self.root_params = root_params or {}            # (fn nid, param name) -> abstract value
        self.passthrough = set(passthrough)             # callees returning (the shape of) their first collection argument
        self.site_domains = site_domains or {}          # (fn nid, item type, ordinal) -> domain, for loops shape inference cannot name
        self.resolve_trait = resolve_trait or (lambda decl, node: None)
        self.atomic = atomic or {}                      # callee nid -> name: compared as one operation (its own duality is checked elsewhere)


class Extractor:
    def __init__(self, world, vocab, max_depth=14):
        self.w = world
        self.v = vocab
        self.stack = []
        self.max_depth = max_depth
        self.impl_index = world.impl_index()
        self.ops_seen = 0
        self.unknown_loops = []
        self.site_counter = {}
        self._ct = {}

    # ------------------------------------------------------------------ carriers
    def carrier_types(self, f):
        key = f['_nid']
        if key not in self._ct:
            tps = set()
            for p in f.get('preds', []):
                m = re.match(r'^(\w+): (.*)$', p)
                if m and self.v.carrier_type_pred(m.group(2), f, True):
                    tps.add(m.group(1))
            self._ct[key] = tps
        return self._ct[key]

    def is_carrier_ty(self, t, f):
        t = strip_ref(t)
        if not t:
            return False
        if t in self.carrier_types(f):
            return True
        return self.v.carrier_type_pred(t, f, False)

    def mentions_carrier(self, n, f):
        p = peel(n)
        t = p.get('t')
        return bool(t and self.is_carrier_ty(t, f))

    # ------------------------------------------------------------------ entry
    def root(self, nid):
        f = self.w.fn(nid)
        env = {}
        for p in f['params']:
            for b in pat_bindings(p):
                a = self.v.root_params.get((nid, b['n']))
                if a is not None:
                    env[b['i']] = a
        self.param_fallback(f, env)
        self.stack = [nid]
        st = _Frame(self, f, env)
        t, a = st.ex(f['body'])
        self.stack = []
        return strip_tail(t)

    def param_fallback(self, f, env):
        """slice / Vec parameters whose shape is unknown get a domain named after the parameter (documented fallback)"""
        for p in f['params']:
            if p.get('k') == 'bind' and env.get(p['i']) is None:
                t = strip_ref(p.get('t') or '')
                if t.startswith(('[', 'alloc::vec::Vec')):
                    env[p['i']] = ('coll', 'param:' + p['n'], None)

    def inline(self, nid, argvals):
        if nid in self.stack:
            return ('opaque', f'recursion through {short(nid)}'), None
        if len(self.stack) > self.max_depth:
            return ('opaque', 'inlining depth exceeded'), None
        f = self.w.fn(nid, required=False)
        if f is None:
            return ('opaque', f'no body for {nid}'), None
        env = {}
        for p, a in zip(f['params'], argvals):
            bind_pat(env, p, a)
        self.param_fallback(f, env)
        self.stack.append(nid)
        try:
            st = _Frame(self, f, env)
            t, a = st.ex(f['body'])
        finally:
            self.stack.pop()
        return strip_tail(t), a

    def fn_takes_carrier(self, nid):
        g = self.w.fn(nid)
        return any(self.is_carrier_ty(t, g) for t in g.get('inputs', []))

    def dom_name(self, adt, field):
        k = f'{short(adt)}.{field}' if adt else field
        return self.v.field_alias.get(k, k)


def strip_tail(t):
    """drop 'return' markers that end a function body"""
    if t == ('return',):
        return EPS
    if t[0] == 'seq':
        items = [x for x in t[1] if x != ('return',)]
        return seq(items)
    return t


def bind_pat(env, p, a):
    k = p.get('k')
    if k == 'bind':
        env[p['i']] = a
        if 'sub' in p:
            bind_pat(env, p['sub'], a)
    elif k == 'tuple':
        subs = p.get('subs', [])
        if a is not None and a[0] == 'tup' and len(a[1]) == len(subs):
            for s, x in zip(subs, a[1]):
                bind_pat(env, s, x)
        else:
            for s in subs:
                bind_pat(env, s, None)
    elif k == 'ref':
        bind_pat(env, p['sub'], a)
    elif k == 'struct':
        for fname, s in p.get('fs', []):
            fa = a[1].get(fname) if (a is not None and a[0] == 'adt') else None
            bind_pat(env, s, fa)
    elif k == 'ts':
        subs = p.get('subs', [])
        # Some(x) / Ok(x): transparent
        if len(subs) == 1:
            bind_pat(env, subs[0], a)
        else:
            for s in subs:
                bind_pat(env, s, None)
    elif k in ('or',):
        for s in p.get('subs', []):
            bind_pat(env, s, a)


def elem_of(a):
    if a is None:
        return None
    if a[0] == 'coll':
        return a[2] if a[2] is not None else ('item', a[1])
    return None


def dom_of(a):
    if a is None:
        return None
    if a[0] == 'coll':
        return a[1]
    return None


class _Frame:
    def __init__(self, x, f, env):
        self.x, self.f, self.env = x, f, env
        self.lc = {}          # local closures
        self.while_iters = []
        self.loop_stack = []
        self.inits = {}

    # ---------------------------------------------------------------- dispatch
    def ex(self, n):
        if n is None:
            return EPS, None
        k = n.get('k')
        m = getattr(self, 'ex_' + k, None)
        if m:
            return m(n)
        ts = []
        for c in children(n):
            t, _ = self.ex(c)
            ts.append(t)
        return seq(ts), None

    # ---------------------------------------------------------------- leaves / simple
    def ex_lit(self, n):
        v = n.get('v', '')
        if v.startswith('i:'):
            return EPS, ('const', int(v[2:]))
        return EPS, None

    def ex_local(self, n):
        return EPS, self.env.get(n['i'])

    def ex_path(self, n):
        return EPS, None

    def ex_closure(self, n):
        return EPS, ('closure', n)

    def ex_ref(self, n):
        return self.ex(n['e'])

    def ex_un(self, n):
        return self.ex(n['e'])

    def ex_cast(self, n):
        return self.ex(n['e'])

    def ex_try(self, n):
        return self.ex(n['e'])

    def ex_tup(self, n):
        ts, vals = [], []
        for e in n.get('es', []):
            t, a = self.ex(e)
            ts.append(t); vals.append(a)
        return seq(ts), ('tup', vals)

    def ex_array(self, n):
        ts, vals = [], []
        for e in n.get('es', []):
            t, a = self.ex(e)
            ts.append(t); vals.append(a)
        elem = vals[0] if vals else None
        return seq(ts), ('coll', ('const', len(vals)), elem)

    def ex_field(self, n):
        t, base = self.ex(n['e'])
        if base is not None and base[0] == 'adt' and n['n'] in base[1]:
            return t, base[1][n['n']]
        if base is not None and base[0] == 'tup' and n['n'].isdigit() and int(n['n']) < len(base[1]):
            return t, base[1][int(n['n'])]
        adt = hirq.ty_adt(n.get('bt'))
        key = f'{short(adt)}.{n["n"]}' if adt else n['n']
        ft = strip_ref(n.get('t') or '')
        if key in self.x.v.count_alias:
            return t, ('len', self.x.v.count_alias[key])
        if ft.startswith(COLL_TYPES):
            return t, ('coll', self.x.v.field_alias.get(key, key), None)
        return t, None

    def ex_index(self, n):
        t1, base = self.ex(n['e'])
        t2, _ = self.ex(n['i'])
        if 'Range' in (n.get('ixt') or ''):
            return seq([t1, t2]), None
        return seq([t1, t2]), elem_of(base)

    def ex_struct(self, n):
        ts, fields = [], {}
        adt = norm(n.get('p', ''))
        for fname, e in n.get('fs', []):
            t, a = self.ex(e)
            ts.append(t); fields[fname] = a
        if adt.startswith('core::ops::range::Range'):
            end = fields.get('end')
            if end is not None and end[0] == 'len':
                return seq(ts), ('coll', end[1], None)
            ee = dict(n.get('fs', [])).get('end')
            return seq(ts), ('coll', ('range', self.prov_key(ee) if ee is not None else '?'), None)
        if 'tail' in n:
            t, a = self.ex(n['tail'])
            ts.append(t)
        return seq(ts), ('adt', fields)

    def ex_assign(self, n):
        t1, a = self.ex(n['rhs'])
        t2, _ = self.ex(n['lhs'])
        l = peel(n['lhs'])
        if l.get('k') == 'local':
            self.env[l['i']] = a
        return seq([t1, t2]), None

    def ex_block(self, n):
        ts = []
        for s in n.get('ss', []):
            t, _ = self.ex(s)
            ts.append(t)
        a = None
        if 'e' in n:
            t, a = self.ex(n['e'])
            ts.append(t)
        return seq(ts), a

    def ex_semi(self, n):
        t, _ = self.ex(n['e'])
        return t, None

    ex_stmt = ex_semi

    def ex_let(self, n):
        init = n.get('init')
        if init is not None and n['pat'].get('k') == 'bind':
            self.inits[n['pat']['i']] = init
        if init is not None and peel(init).get('k') == 'closure':
            for b in pat_bindings(n['pat']):
                self.lc[b['i']] = peel(init)
            return EPS, None
        t, a = self.ex(init) if init is not None else (EPS, None)
        bind_pat(self.env, n['pat'], a)
        return t, None

    def ex_letx(self, n):
        t, a = self.ex(n['init'])
        bind_pat(self.env, n['pat'], a)
        return t, None

    def ex_ret(self, n):
        t, a = self.ex(n['e']) if 'e' in n else (EPS, None)
        e = peel(n['e']) if 'e' in n else {}
        if e.get('k') == 'call' and e.get('dk') == 'Ctor' and norm(e.get('f', '')).endswith('Result::Err'):
            return seq([t, ('abort',)]), None
        return seq([t, ('return',)]), a

    def ex_break(self, n):
        t, _ = self.ex(n['e']) if 'e' in n else (EPS, None)
        return seq([t, ('break',)]), None

    # ---------------------------------------------------------------- control
    def alt(self, key, branches):
        live = [b for b in branches if not ends_with(b, 'abort')]
        if not live:
            return ('abort',)
        if all(is_eps(b) for b in live):
            return EPS
        if len(live) == 1 and len(branches) > 1:
            return live[0]
        if all(b == live[0] for b in live):
            return live[0]
        return ('alt', key, live)

    def ex_if(self, n):
        c, _ = self.ex(n['c'])
        key = self.cond_key(n['c'])
        if 'ITER.next()' in key:
            # head of a `while let Some(x) = it.next()` loop: the body runs once per element
            a, va = self.ex(n['a'])
            return seq([c, a]), va
        a, va = self.ex(n['a'])
        b, vb = self.ex(n['b']) if 'b' in n else (EPS, None)
        if tail_is_err(n['a']):
            a = seq([a, ('abort',)])
        if 'b' in n and tail_is_err(n['b']):
            b = seq([b, ('abort',)])
        return seq([c, self.alt(key, [a, b])]), (va if va is not None else vb)

    def enum_branches(self, n, arms):
        """for a match on a workspace enum with plain variant patterns: one branch per variant, in declaration order"""
        adt = hirq.ty_adt(n.get('st'))
        a = self.x.w.adt(adt, required=False) if adt else None
        if a is None or a.get('kind') != 'Enum':
            return None
        variants = [v['name'] for v in a['variants']]
        per = {}
        for arm, t in zip(n['arms'], arms):
            if 'guard' in arm:
                return None
            vs = self.arm_variants(arm['pat'])
            if vs is None:
                return None
            if vs == '*':
                vs = [v for v in variants if v not in per]
            for v in vs:
                per.setdefault(v, t)
        if set(per) != set(variants):
            return None
        return 'match ' + short(adt), [per[v] for v in variants]

    def arm_variants(self, p):
        k = p.get('k')
        if k in ('wild',) or (k == 'bind' and 'sub' not in p):
            return '*'
        if k == 'ref':
            return self.arm_variants(p['sub'])
        if k in ('path', 'ts', 'struct') and p.get('dk') == 'Variant':
            return [(p.get('p') or '').rsplit('::', 1)[-1]]
        if k == 'or':
            out = []
            for s_ in p.get('subs', []):
                r = self.arm_variants(s_)
                if r is None or r == '*':
                    return None
                out += r
            return out
        return None

    def ex_match(self, n):
        s, sv = self.ex(n['e'])
        arms, vals = [], []
        for a in n['arms']:
            bind_pat(self.env, a['pat'], sv)
            g, _ = self.ex(a['guard']) if 'guard' in a else (EPS, None)
            b, v = self.ex(a['body'])
            if tail_is_err(a['body']):
                b = seq([b, ('abort',)])
            arms.append(seq([g, b])); vals.append(v)
        key = 'match ' + self.cond_key(n['e']) + ' {' + '; '.join(pat_str(a['pat']) for a in n['arms']) + '}'
        v = next((x for x in vals if x is not None), None)
        eb = self.enum_branches(n, arms)
        if eb is not None:
            return seq([s, self.alt_all(eb[0], eb[1])]), v
        return seq([s, self.alt(key, arms)]), v

    def alt_all(self, key, branches):
        """n-ary alternative over all variants of an enum: keep every branch (aborting ones become empty)"""
        bs = [EPS if ends_with(b, 'abort') and False else b for b in branches]
        if all(is_eps(b) for b in bs):
            return EPS
        if all(b == bs[0] for b in bs):
            return bs[0]
        return ('alt', key, bs)

    def ex_for(self, n):
        head, hv = self.ex(n['iter'])
        bind_pat(self.env, n['pat'], elem_of(hv))
        self.loop_stack.append(dom_of(hv) or ('unknown-loop',))
        body, _ = self.ex(n['body'])
        self.loop_stack.pop()
        if is_eps(body):
            return head, None
        return seq([head, ('loop', self.loop_dom(hv, n, n['iter']), strip_breaks(body))]), None

    def ex_loop(self, n):
        # `while let Some(x) = it.next()` / `while cond`
        body_n = n['body']
        it_local = None
        for x in walk(body_n, into_closures=False):
            if x.get('k') == 'mcall' and x.get('m') == 'next' and peel(x['recv']).get('k') == 'local':
                it_local = peel(x['recv'])
                break
        if it_local is not None:
            hv = self.env.get(it_local['i'])
            # bind the `Some(pat)` of the while-let to the element
            for x in walk(body_n, into_closures=False):
                if x.get('k') in ('letx',) and any(m.get('m') == 'next' for m in hirq.calls(x['init'])):
                    bind_pat(self.env, x['pat'], elem_of(hv))
                if x.get('k') == 'match' and any(m.get('m') == 'next' for m in hirq.calls(x['e'])):
                    for a in x['arms']:
                        bind_pat(self.env, a['pat'], elem_of(hv))
            self.while_iters.append(it_local['i'])
            body, _ = self.ex(body_n)
            self.while_iters.pop()
            if is_eps(body):
                return EPS, None
            return ('loop', self.loop_dom(hv, n, it_local), strip_breaks(body)), None
        body, _ = self.ex(body_n)
        if is_eps(body):
            return EPS, None
        return ('loop', ('while', self.f['_nid']), strip_breaks(body)), None

    # ---------------------------------------------------------------- calls
    def ex_call(self, n):
        if 'fe' in n:
            fe = peel(n['fe'])
            ts, vals = [], []
            for a in n.get('args', []):
                t, v = self.ex(a)
                ts.append(t); vals.append(v)
            if fe.get('k') == 'local' and fe['i'] in self.lc:
                c = self.lc[fe['i']]
                for p, v in zip(c.get('params', []), vals):
                    bind_pat(self.env, p, v)
                t, v = self.ex(c['body'])
                return seq(ts + [t]), v
            t, _ = self.ex(n['fe'])
            return seq([t] + ts), None
        if n.get('dk') == 'Ctor':
            ts, vals = [], []
            for a in n.get('args', []):
                t, v = self.ex(a)
                ts.append(t); vals.append(v)
            name = norm(n.get('f', ''))
            if len(vals) == 1 and name.endswith(('Result::Ok', 'Option::Some', 'Result::Err')):
                return seq(ts), vals[0]
            return seq(ts), None
        return self.call_like(n, None, n.get('args', []))

    def ex_mcall(self, n):
        return self.call_like(n, n['recv'], n.get('args', []))

    def call_like(self, n, recv, args):
        x, f = self.x, self.f
        c = callee(n) or ''
        cd = callee_decl(n) or ''
        name = n.get('m') or c.rsplit('::', 1)[-1]
        allargs = ([recv] if recv is not None else []) + list(args)
        # ---- primitive operation on the carrier
        prim = x.v.prims.get(cd) or x.v.prims.get(c)
        free = getattr(x.v, 'free_prims', ())
        if prim and (any(x.mentions_carrier(a, f) for a in allargs) or cd in free or c in free):
            pre, vals = [], []
            for a in allargs:
                t, v = self.ex(a)
                pre.append(t); vals.append(v)
            x.ops_seen += 1
            kind, item_fn = prim
            loc = f"{f['file']}:{n.get('l')}"
            if kind == 'read_n':
                cnt = vals[-1] if vals else None
                dom = cnt[1] if (cnt is not None and cnt[0] == 'len') else ('range', self.prov_key(args[-1]) if args else '?')
                return seq(pre + [('loop', dom, ('op', 'read', item_fn(n), loc))]), ('coll', dom, None)
            it = item_fn(n)
            val = next((v for v in vals if v is not None and v[0] == 'len'), None)
            if kind == 'conv':
                rv_ = ('len', ('read', loc))
                return seq(pre + [('op', kind, it, loc, rv_)]), rv_
            if kind in ('read',) and strip_ref(it) in ('u8', 'u16', 'u32', 'u64', 'usize'):
                # an integer read from the stream: a fresh symbolic length
                rv_ = ('len', ('read', loc))
                return seq(pre + [('op', kind, it, loc, rv_)]), rv_
            if val is not None and kind in ('write', 'common'):
                return seq(pre + [('op', kind, it, loc, val)]), None
            return seq(pre + [('op', kind, it, loc)]), None
        # ---- evaluate receiver / non-closure arguments
        pre, vals = [], []
        for a in allargs:
            if peel(a).get('k') == 'closure':
                pre.append(EPS); vals.append(('closure', peel(a)))
            else:
                t, v = self.ex(a)
                pre.append(t); vals.append(v)
        rv = vals[0] if recv is not None else None
        rt = strip_ref(n.get('rt') or '') if recv is not None else ''
        clos = [v[1] for v in vals[1 if recv is not None else 0:] if v is not None and v[0] == 'closure']
        named = [peel(a) for a in args if peel(a).get('k') == 'path' and peel(a).get('dk') in ('Fn', 'AssocFn')]
        # ---- combinators with closure arguments
        if recv is not None and (clos or named):
            is_opt = rt.startswith(('core::option::Option', 'core::result::Result')) or (rt == 'bool' and name in ('then', 'then_some'))
            item = rv if is_opt else elem_of(rv)
            bodies, bvals = [], []
            for cn in clos:
                ps = cn.get('params', [])
                if ps:
                    # fold-like combinators pass the accumulator first
                    if name in ('fold', 'try_fold') and len(ps) == 2:
                        bind_pat(self.env, ps[0], None)
                        bind_pat(self.env, ps[1], item)
                    else:
                        bind_pat(self.env, ps[0], item)
                        for p in ps[1:]:
                            bind_pat(self.env, p, None)
                self.loop_stack.append(dom_of(rv) or ('unknown-loop',))
                t, v = self.ex(cn['body'])
                self.loop_stack.pop()
                bodies.append(t); bvals.append(v)
            for pn in named:
                tgt = norm(pn.get('rs') or pn.get('p'))
                if tgt and x.w.fn(tgt, required=False) is not None and x.fn_takes_carrier(tgt):
                    t, v = x.inline(tgt, [item])
                    bodies.append(t); bvals.append(v)
            body = seq(bodies)
            bv = bvals[0] if bvals else None
            # abstract value of the combinator result
            if is_opt:
                res = bv if name in ('map', 'and_then', 'then', 'map_or', 'map_or_else') else rv
                if is_eps(body):
                    return seq(pre), res
                return seq(pre + [self.alt('opt ' + self.cond_key(recv), [body, EPS])]), res
            d = dom_of(rv)
            if name in ('map', 'flat_map', 'scan', 'map_while'):
                res = ('coll', d, bv) if d is not None else None
            elif name in ('filter', 'filter_map', 'skip_while', 'take_while'):
                key = self.filter_key(clos[0]) if clos else '?'
                res = ('coll', ('filter', d, key), (bv if name == 'filter_map' else elem_of(rv))) if d is not None else None
            else:
                res = None
            if is_eps(body):
                return seq(pre), res
            return seq(pre + [('loop', self.loop_dom(rv, n, recv), strip_breaks(body))]), res
        # ---- workspace callee that receives (or returns) the carrier: inline
        if any(x.mentions_carrier(a, f) for a in allargs) or self.returns_carrier(n):
            tgt = None
            if x.w.fn(c, required=False) is not None:
                tgt = c
            else:
                tgt = x.v.resolve_trait(cd, n)
                if tgt is None and cd in x.impl_index and len(x.impl_index[cd]) == 1:
                    tgt = x.impl_index[cd][0]
            if tgt is not None and tgt in x.v.atomic:
                x.ops_seen += 1
                return seq(pre + [('op', 'sub', x.v.atomic[tgt], f"{f['file']}:{n.get('l')}")]), None
            if tgt is not None:
                t, v = x.inline(tgt, vals)
                return seq(pre + [t]), v
            if c.startswith(('midnight_', '<midnight_')):
                return seq(pre + [('opaque', f'cannot resolve callee {short(cd)} receiving the carrier at {f["file"]}:{n.get("l")}')]), None
        # ---- abstract value transfer for effect-free calls
        res = None
        if recv is not None:
            if name in IDENTITY_METHODS:
                res = rv
            elif name in ('len', 'count'):
                d = dom_of(rv)
                res = ('len', d) if d is not None else None
            elif name == 'enumerate':
                res = ('coll', dom_of(rv), ('tup', [('index', dom_of(rv)), elem_of(rv)])) if rv is not None and rv[0] == 'coll' else None
            elif name == 'zip':
                ov = vals[1] if len(vals) > 1 else None
                if rv is not None and rv[0] == 'coll':
                    d = rv[1]
                    # prefer the more specific of the two domains (a named one over one named after a call)
                    if ov is not None and ov[0] == 'coll' and isinstance(d, tuple) and d[0] in ('call', 'range') and not (isinstance(ov[1], tuple) and ov[1][0] in ('call', 'range')):
                        d = ov[1]
                    res = ('coll', d, ('tup', [elem_of(rv), elem_of(ov)]))
                elif ov is not None and ov[0] == 'coll':
                    res = ('coll', ov[1], ('tup', [None, elem_of(ov)]))
            elif name in ('chunks', 'chunks_exact'):
                d = dom_of(rv)
                res = ('coll', ('chunks', d), ('coll', ('chunk', d), elem_of(rv) if rv and rv[2] is not None else None)) if d is not None else None
            elif name == 'chain':
                ov = vals[1] if len(vals) > 1 else None
                res = chain_dom(rv, ov)
            elif name in ('skip', 'take', 'step_by'):
                res = ('coll', (name, dom_of(rv), self.prov_key(args[0]) if args else '?'), elem_of(rv)) if rv is not None and rv[0] == 'coll' else None
            elif name == 'unzip':
                e = elem_of(rv)
                if rv is not None and rv[0] == 'coll' and e is not None and e[0] == 'tup':
                    res = ('tup', [('coll', rv[1], c2) for c2 in e[1]])
            elif name in ('push', 'push_back', 'insert') and self.loop_stack and peel(recv).get('k') == 'local':
                li = peel(recv)['i']
                cur = self.env.get(li)
                if cur is None or (cur[0] == 'coll' and isinstance(cur[1], tuple) and cur[1][0] == 'const' and cur[1][1] == 0):
                    self.env[li] = ('coll', self.loop_stack[-1], vals[-1] if len(vals) > 1 else None)
            elif name in ('get', 'first', 'last', 'next', 'pop', 'get_mut', 'remove'):
                res = elem_of(rv) if rv is not None and rv[0] == 'coll' and rv[2] is not None else None
        else:
            if c == 'alloc::vec::from_elem' and len(vals) == 2:
                cnt = vals[1]
                d = cnt[1] if (cnt is not None and cnt[0] == 'len') else (cnt if cnt is not None and cnt[0] == 'const' else ('range', self.prov_key(args[1])))
                res = ('coll', d, vals[0])
            elif c == 'core::iter::sources::empty::empty':
                res = ('coll', ('const', 0), None)
            elif c == 'core::iter::traits::collect::IntoIterator::into_iter' and vals:
                res = vals[0]
            elif c in x.v.passthrough and vals:
                res = next((v for v in vals if v is not None and v[0] == 'coll'), None)
            elif c.endswith(('::into_vec', '::box_new', '::from_iter', 'Box::new', 'Vec::from')) and vals:
                res = vals[0]
            elif c in ('alloc::vec::Vec::new', 'alloc::vec::Vec::with_capacity'):
                res = ('coll', ('const', 0), None)
        if res is None and c.startswith(('midnight_', '<midnight_')) and recv is not None and not args:
            # trivial getter `fn x(&self) -> &T { &self.x }`: read the field instead
            g = x.w.fn(c, required=False)
            if g is not None:
                b = peel(g['body'])
                while b.get('k') == 'block' and not b.get('ss') and 'e' in b:
                    b = peel(b['e'])
                if b.get('k') == 'mcall' and b.get('m') in ('len', 'clone', 'as_slice', 'iter') and peel(b['recv']).get('k') == 'field':
                    inner = peel(b['recv'])
                    fake = dict(inner)
                    fake['e'] = {'k': 'lit', 'v': 'x'}
                    _, fv = self.ex_field(fake)
                    if b.get('m') == 'len':
                        res = ('len', dom_of(fv)) if dom_of(fv) is not None else None
                    else:
                        res = fv
                elif b.get('k') == 'field' and peel(b['e']).get('k') == 'local' and peel(b['e'])['n'] == 'self':
                    fake = dict(b)
                    fake['e'] = {'k': 'lit', 'v': 'x'}
                    _, res = self.ex_field(fake)
        if res is None and (c.startswith(('midnight_', '<midnight_'))):
            # effect-free workspace call returning a collection / iterator / count: name the domain after the callee
            rty = strip_ref(n.get('t') or '')
            if rty.startswith(COLL_TYPES) or rty.startswith('impl core::iter'):
                res = ('coll', ('call', short(c)), None)
            elif rty in ('usize', 'u32', 'u64'):
                res = ('len', ('call', short(c)))
        return seq(pre), res

    def returns_carrier(self, n):
        t = n.get('t') or ''
        if not t or not (callee(n) or '').startswith(('midnight_', '<midnight_')):
            return False
        # any generic argument / tuple component of the result type that is a carrier type
        for part in re.split(r'[<>(),]\s*', t):
            part = part.strip()
            if part and self.x.is_carrier_ty(part, self.f):
                return True
        return False

    # ---------------------------------------------------------------- keys and domains
    def loop_dom(self, hv, node, it_expr):
        d = dom_of(hv)
        if d is not None:
            return d
        # shape inference could not name the domain: site-keyed table, else opaque (fail closed)
        fnid = self.f['_nid']
        ty = norm(strip_ref(node.get('it') or node.get('rt') or '')) or '?'
        k = (fnid, ty)
        ordn = self.x.site_counter.get(k, 0)
        self.x.site_counter[k] = ordn + 1
        sd = self.x.v.site_domains.get((fnid, ty, ordn))
        if sd is not None:
            return sd
        self.x.unknown_loops.append((fnid, ty, ordn, f"{self.f['file']}:{node.get('l')}", expr_str(peel(it_expr))))
        return ('unknown', fnid, ty, ordn)

    def render(self, e, depth=0):
        """canonical rendering of a condition: locals are replaced by their abstract value when it names a domain"""
        e = peel(e)
        k = e.get('k')
        if depth > 6:
            return '..'
        if k == 'local':
            a = self.env.get(e['i'])
            if e['i'] in self.while_iters:
                return 'ITER'
            if a is not None and a[0] == 'const':
                return f'i:{a[1]}'
            if a is not None and a[0] == 'len' and isinstance(a[1], tuple) and a[1][0] == 'const':
                return f'i:{a[1][1]}'
            if a is not None and a[0] in ('item', 'len', 'index'):
                return f'{a[0]}<{fmt_dom(a[1])}>'
            if a is not None and a[0] == 'coll':
                return f'coll<{fmt_dom(a[1])}>'
            if e['i'] in self.inits and depth < 5 and strip_ref(e.get('t') or '') in ('bool', 'usize', 'u32', 'u64'):
                return self.render(self.inits[e['i']], depth + 1)
            return 'L:' + self.prov_local(e)
        if k == 'bin':
            a, b = self.render(e['a'], depth + 1), self.render(e['b'], depth + 1)
            op = e['op']
            if op in ('==', '!=') and b < a:
                a, b = b, a
            return f'({a} {op} {b})'
        if k == 'un':
            return e['op'] + self.render(e['e'], depth + 1)
        if k == 'mcall':
            r = self.render(e['recv'], depth + 1)
            return r + '.' + e['m'] + '(' + ','.join(self.render(a, depth + 1) for a in e.get('args', [])) + ')'
        if k == 'call':
            return short(e.get('f', '?')) + '(' + ','.join(self.render(a, depth + 1) for a in e.get('args', [])) + ')'
        if k == 'field':
            _, a = self.ex_field(e) if False else (None, None)
            return self.render(e['e'], depth + 1) + '.' + e['n']
        if k == 'lit':
            return e.get('v', '')
        if k == 'path':
            return short(e.get('p', '?'))
        if k == 'letx':
            return 'let ' + pat_str(e['pat']) + ' = ' + self.render(e['init'], depth + 1)
        if k == 'cast':
            return self.render(e['e'], depth + 1)
        if k == 'index':
            return self.render(e['e'], depth + 1) + '[' + self.render(e['i'], depth + 1) + ']'
        return k or '?'

    def prov_local(self, e):
        # parameters and unknown locals are rendered by their declared type (robust under renaming)
        return norm(strip_ref(e.get('t') or '?')) or '?'

    def cond_key(self, c):
        return self.render(c)

    def prov_key(self, e):
        return self.render(e)

    def filter_key(self, clos):
        # the condition of the closure's `if` (filter_map) or its body (filter)
        b = peel(clos['body'])
        for x in walk(b, into_closures=False):
            if x.get('k') == 'if':
                return self.render(x['c'])
        return self.render(b)


def tail_is_err(n):
    """the value of this branch is a literal `Err(..)` (error exit of a Result-returning function)"""
    n = peel(n)
    while n.get('k') == 'block' and 'e' in n:
        n = peel(n['e'])
    return n.get('k') == 'call' and n.get('dk') == 'Ctor' and norm(n.get('f', '')).endswith('Result::Err')


def chain_dom(a, b):
    def cnt(v):
        if v is None:
            return 1      # Option / single item
        if v[0] == 'coll' and isinstance(v[1], tuple) and v[1][0] == 'const':
            return v[1][1]
        return None
    ca, cb = cnt(a), cnt(b)
    if a is not None and a[0] == 'coll' and ca is not None and cb is not None:
        return ('coll', ('const', ca + cb), None)
    if a is not None and a[0] == 'coll':
        return ('coll', ('chain', a[1], dom_of(b) if b is not None else 'one'), None)
    return None


def ends_with(t, what):
    if t == (what,):
        return True
    return t[0] == 'seq' and bool(t[1]) and t[1][-1] == (what,)


def strip_breaks(t):
    if t == ('break',):
        return EPS
    if t[0] == 'seq':
        return seq([strip_breaks(x) for x in t[1] if x != ('break',)])
    if t[0] == 'alt':
        bs = [strip_breaks(b) for b in t[2]]
        if all(is_eps(b) for b in bs):
            return EPS
        return ('alt', t[1], bs)
    return t


def fmt_dom(d):
    if isinstance(d, tuple):
        return d[0] + '(' + ','.join(fmt_dom(x) for x in d[1:]) + ')'
    return str(d)


def show(t, ind=0, out=None, with_loc=True):
    out = [] if out is None else out
    pad = '  ' * ind
    if t[0] == 'seq':
        for x in t[1]:
            show(x, ind, out, with_loc)
    elif t[0] == 'op':
        out.append(f'{pad}{t[1]} {t[2]}' + (f'    [{t[3]}]' if with_loc else ''))
    elif t[0] == 'loop':
        out.append(f'{pad}LOOP {fmt_dom(t[1])}')
        show(t[2], ind + 1, out, with_loc)
    elif t[0] == 'alt':
        out.append(f'{pad}ALT {t[1]}')
        for i, b in enumerate(t[2]):
            out.append(f'{pad} |{i}')
            show(b, ind + 2, out, with_loc)
    else:
        out.append(f'{pad}{t}')
    return out
