"""Fiat–Shamir statement binding (HIR): the inputs of a statement are absorbed before the first challenge is drawn.

For a function that both absorbs (common / common_scalar / common_point / hash_into) and squeezes on one transcript:
every absorb whose absorbed value derives from a *parameter* of the function (the statement: keys, instances, bases,
claimed values — not prover messages, which are written/read) must precede, in evaluation order, the first squeeze on
the same transcript.  A challenge drawn before a statement input was absorbed does not depend on it, so an adaptive
prover can choose that input after seeing the challenge.
"""
from ..core import walk, callee, peel, pat_bindings, last_seg, expr_str
from . import hirq, valflow

ABSORB = ('common', 'common_scalar', 'common_point', 'common_scalars', 'common_points', 'hash_into', 'absorb')


def is_transcript_t(t):
    t = t or ''
    return 'ranscript' in t


def root_local(e):
    e = peel(e)
    while e.get('k') in ('field', 'index', 'try', 'mcall', 'cast'):
        e = peel(e['recv'] if e.get('k') == 'mcall' else e['e'])
    return e.get('i') if e.get('k') == 'local' else None


def sites(f):
    """([(order, transcript root local, node, statement deps)], {transcript root: first squeeze order})"""
    idx = {id(n): k for k, n in enumerate(walk(f['body']))}
    params = [b for p in f.get('params', []) for b in pat_bindings(p)]
    tparams = {b['i'] for b in params if is_transcript_t(b.get('t')) or b['n'] in ('transcript',)}
    src = [(b['n'], b['i'], b.get('t')) for b in params if b['i'] not in tparams and b['n'] not in ('self', 'layouter')]
    vf = valflow.ValFlow(f, sources=src)
    absorbs, first_sq = [], {}
    for n in hirq.calls(f['body']):
        m = n.get('m') or last_seg(callee(n) or '')
        args = ([n['recv']] if 'recv' in n else []) + list(n.get('args', []))
        if m.startswith('squeeze_challenge') and args:
            t = root_local(args[0])
            if t is not None:
                first_sq[t] = min(first_sq.get(t, 1 << 60), idx[id(n)])
        elif m in ABSORB and len(args) >= 2:
            if m == 'hash_into':        # vk.hash_into(transcript): receiver is the value, argument the transcript
                t, vals = root_local(args[-1]), args[:1]
            else:
                t, vals = root_local(args[0]), args[1:]
            deps = set()
            for a in vals:
                if 'Layouter' in (peel(a).get('t') or ''):
                    continue
                deps |= set(vf.ev(a))
            absorbs.append((idx[id(n)], t, n, sorted(deps)))
    return absorbs, first_sq


def check(ck, w, rule, fn_ids, floor):
    n_abs = 0
    for nid in fn_ids:
        f = w.fn(nid, required=False)
        if f is None:
            ck.bad(rule, f'{nid}:anchor', f'{nid} not found (anchor)')
            continue
        absorbs, first_sq = sites(f)
        for order, t, node, deps in absorbs:
            if not deps:
                continue            # constants / derived-only values
            n_abs += 1
            sq = first_sq.get(t)
            ok = sq is None or order < sq
            key = f'{nid}|absorb:{"+".join(deps)}@{expr_str(node)[:50]}'
            ck.record(rule, key, ok, f'statement input {deps} absorbed before the first challenge',
                      f'{nid}: the statement input {deps} is absorbed (line {node.get("l")}) only AFTER the first challenge was squeezed from the same transcript: '
                      f'that challenge does not depend on it, so a prover can pick this input adaptively after seeing the challenge', hirq.fn_loc(f, node))
    ck.floor(rule, 'statement-input absorb sites', n_abs, floor)
