"""Constraint-flow lints for chips and gadgets (DESIGN §3.D) over HIR."""
import re
from ..core import walk, norm, callee, callee_decl, peel, children, pat_bindings, short, expr_str
from . import hirq

ASSIGNED_RE = re.compile(r'\bAssigned[A-Z]\w*|\bAssignedCell\b|\bFakePoint\b|(?<![\w:])Assigned(?![\w])')


def has_assigned(t):
    return bool(t) and bool(ASSIGNED_RE.search(t)) and 'Value<' not in t.split('Assigned')[0][-8:]


def in_scope_fn(f):
    file = f['file']
    if '/tests/' in file or file.endswith('/tests.rs'):
        return False
    return True


def dead_values(f):
    """D3: bindings of assigned-cell type never read, and discarded expression statements of assigned-cell type.
    Yields (kind, name, type, node)."""
    body = f['body']
    used = set()
    for n in walk(body):
        if n.get('k') == 'local':
            used.add(n['i'])
        if n.get('k') == 'closure':
            for cp in n.get('caps', []):
                if cp.get('i') is not None:
                    used.add(cp['i'])
    out = []
    def visit_pat(p, node):
        for b in pat_bindings(p):
            if b['i'] not in used and has_assigned(b.get('t')):
                out.append(('unused-binding', b['n'], b.get('t'), node))
    for n in walk(body):
        k = n.get('k')
        if k == 'let':
            visit_pat(n['pat'], n)
            if n['pat'].get('k') == 'wild' and 'init' in n:
                t = peel(n['init']).get('t')
                if has_assigned(t):
                    out.append(('let-underscore', '_', t, n))
        elif k == 'semi':
            t = n.get('t')
            e = peel(n['e'])
            if has_assigned(t) and e.get('k') in ('call', 'mcall', 'try'):
                out.append(('discarded-result', expr_str(e)[:60], t, n))
        elif k == 'closure':
            for p in n.get('params', []):
                pass
        elif k == 'for':
            visit_pat(n['pat'], n)
        elif k == 'match':
            for a in n['arms']:
                visit_pat(a['pat'], n)
    # parameters
    return out


def region_closures(f):
    """closures passed to Layouter::assign_region (or *_region helpers) in f; yields (call node, closure node)"""
    for n in hirq.calls(f['body']):
        c = callee(n) or ''
        cd = callee_decl(n) or ''
        if cd.endswith('Layouter::assign_region') or c.endswith('::assign_region'):
            for a in n.get('args', []):
                a = peel(a)
                if a.get('k') == 'closure':
                    yield n, a


ADVICE_CALLS = ('midnight_proofs::circuit::Region::assign_advice',)
ACTIVATION_SUFFIX = ('Selector::enable', 'Region::constrain_equal', 'Region::constrain_constant', 'AssignedCell::copy_advice', 'Region::enable_selector',
                     'Region::assign_advice_from_constant', 'Region::assign_advice_from_instance')


def lit_annotation(n):
    """string literal returned by the annotation closure `|| "name"` of an assign_advice call"""
    args = n.get('args', [])
    if not args:
        return '?'
    a = peel(args[0])
    if a.get('k') == 'closure':
        b = peel(a['body'])
        while b.get('k') == 'block' and 'e' in b:
            b = peel(b['e'])
        if b.get('k') == 'lit' and b.get('v', '').startswith('s:'):
            return b['v'][2:]
        return expr_str(b)[:40]
    return '?'


def offset_key(e):
    """(root, const) of an offset expression: `offset`, `*offset + 1`, `0`, `i` ..."""
    e = peel(e)
    k = e.get('k')
    if k == 'lit' and e.get('v', '').startswith('i:'):
        return ('', int(e['v'][2:]))
    if k == 'local':
        return (e['n'], 0)
    if k == 'cast':
        return offset_key(e['e'])
    if k == 'bin' and e.get('op') in ('+', '-'):
        a, b = offset_key(e['a']), offset_key(e['b'])
        if a is None or b is None:
            return None
        sign = 1 if e['op'] == '+' else -1
        if b[0] == '':
            return (a[0], a[1] + sign * b[1])
        if a[0] == '' and sign == 1:
            return (b[0], a[1] + b[1])
        return ('+'.join(sorted([a[0], b[0]])), a[1] + sign * b[1])
    if k == 'bin' and e.get('op') == '*':
        a, b = offset_key(e['a']), offset_key(e['b'])
        if a and b and a[0] == '' and b[0] == '':
            return ('', a[1] * b[1])
        return (expr_str(e), 0)
    if k in ('field', 'mcall', 'index', 'call'):
        return (expr_str(e), 0)
    return None


def region_arg(n):
    """does this call pass a Region (by &mut) ?"""
    for a in n.get('args', []) + ([n['recv']] if 'recv' in n else []):
        p = peel(a)
        if 'midnight_proofs::circuit::Region' in (p.get('t') or ''):
            return True
    return False


class RegionSummaries:
    """which workspace functions taking a Region activate a constraint (directly or through another helper)"""

    def __init__(self, world):
        self.w = world
        self.memo = {}

    def activates(self, nid, depth=0):
        if nid in self.memo:
            return self.memo[nid]
        self.memo[nid] = False
        f = self.w.fn(nid, required=False)
        if f is None or depth > 5:
            return False
        r = self.node_activates(f['body'], depth)
        self.memo[nid] = r
        return r

    def node_activates(self, node, depth=0):
        for n in hirq.calls(node):
            c = callee(n) or ''
            if any(c.endswith(s) for s in ACTIVATION_SUFFIX):
                return True
            if c.startswith(('midnight_', '<midnight_')) and not c.startswith(('midnight_proofs', '<midnight_proofs')) and region_arg(n):
                if self.activates(c, depth + 1):
                    return True
        return False


def region_units(f):
    """(unit name, node) for every region-level unit of f: the fn body if it takes a Region, plus each assign_region closure"""
    units = []
    if any('midnight_proofs::circuit::Region' in t for t in f.get('inputs', [])):
        units.append(('fn', f['body']))
    for call, clo in region_closures(f):
        units.append(('region-closure', clo['body']))
    return units


def advice_sites(node):
    return [n for n in hirq.calls(node) if callee(n) in ADVICE_CALLS]


def activation_offsets(node, summaries):
    """offset keys of direct activations (enable / constrain_equal ...) and helper calls that activate (offset = any integer-typed arg)"""
    out = []
    for n in hirq.calls(node):
        c = callee(n) or ''
        if c.endswith('Selector::enable') or c.endswith('Region::enable_selector'):
            args = n.get('args', [])
            if args:
                out.append(('enable', offset_key(args[-1])))
        elif any(c.endswith(s) for s in ACTIVATION_SUFFIX):
            ints = [offset_key(a) for a in n.get('args', []) if (peel(a).get('t') or '') == 'usize' or peel(a).get('k') == 'lit']
            out.append((c.rsplit('::', 1)[-1], ints[-1] if ints else None))
        elif c.startswith(('midnight_', '<midnight_')) and not c.startswith(('midnight_proofs', '<midnight_proofs')) and region_arg(n) and summaries.activates(c):
            ints = [offset_key(a) for a in n.get('args', []) if (peel(a).get('t') or '').lstrip('&mut ') == 'usize' or peel(a).get('k') == 'lit']
            out.append(('helper:' + short(c), ints[-1] if ints else None))
    return out
