"""Intra-procedural value-dependence of integer parameters over HIR (DESIGN §3.D, lint D7).

For one function, computes for every local the set of *parameters whose value it depends on*, where a collection
carries the dependences of its ELEMENT VALUES and deliberately not those of its length:

    vec![e; n]        -> deps(e)              (n only decides how many)
    v.push(x)         -> deps(v) |= deps(x)
    v.len()           -> {}                   (a count, not a bound)
    a / b, a % b ...  -> deps(a) | deps(b)
    for p in it       -> bindings(p) := deps(it)
    it.map(|p| body)  -> closure parameters := deps(receiver); result := deps(receiver) | deps(body)
    f(a, b)           -> deps(a) | deps(b)    (any other call: conservative union)

Control dependence (implicit flow) is ignored on purpose: the lint asks which bound a check is *given*, not whether it runs.
The result is the list of workspace call sites with, per site, the parameters that reach one of its arguments by value.
"""
from ..core import callee, peel, pat_bindings, children

INT_TYPES = {'u8', 'u16', 'u32', 'u64', 'u128', 'usize', 'i8', 'i16', 'i32', 'i64', 'i128', 'isize'}
LEN_METHODS = {'len', 'is_empty', 'capacity', 'count'}
GROW_METHODS = {'push', 'push_back', 'push_front', 'insert', 'extend', 'extend_from_slice', 'append', 'resize', 'fill'}
COUNT_ONLY_CALLS = {'alloc::vec::from_elem': 1, 'alloc::vec::Vec::with_capacity': 0, 'core::iter::repeat_n': 1, 'core::iter::sources::repeat_n::repeat_n': 1}
STORE_METHODS = {'or_insert', 'or_insert_with', 'insert', 'push', 'extend', 'extend_from_slice', 'replace'}
COUNT_ONLY_METHODS = {'take': 1, 'skip': 1, 'step_by': 1, 'resize': 1, 'chunks': 1, 'chunks_exact': 1, 'windows': 1, 'truncate': 1, 'reserve': 1}


def int_like(t):
    t = (t or '').replace('&mut ', '').replace('&', '').strip()
    if t in INT_TYPES:
        return True
    for pre, suf in (('[', ']'), ('alloc::vec::Vec<', '>'), ('core::option::Option<', '>')):
        if t.startswith(pre) and t.endswith(suf):
            inner = t[len(pre):-len(suf)].split(';')[0].strip()
            return int_like(inner)
    return False


def param_table(f):
    """[(position token `#i`, local id, type, source name)] for every binding of the parameter list, in order.
    Tables are keyed by POSITION so that renaming a parameter does not change a verdict."""
    out = []
    i = 0
    for p in f.get('params', []):
        for b in pat_bindings(p):
            out.append((f'#{i}', b['i'], b.get('t') or '', b['n']))
            i += 1
    return out


def bound_params(f):
    """[(position token, local id, type)] integer-valued parameters (scalars, slices/vectors/options of integers) taken by value or shared reference"""
    out = []
    for tok, i, t, n in param_table(f):
        if t.startswith('&mut '):
            continue            # running offsets / counters, not declared bounds
        if int_like(t):
            out.append((tok, i, t))
    return out


def param_name(f, tok):
    for t, i, ty, n in param_table(f):
        if t == tok:
            return n
    return tok


class ValFlow:
    def __init__(self, f, sources=None, field_sources=()):
        self.f = f
        self.env = {}
        self.field_src = set(field_sources)      # local ids whose FIELD reads are sources of their own (`p.x`, `p.is_id`)
        self.field_tok = dict(field_sources) if isinstance(field_sources, dict) else {}      # local id -> token prefix (position token instead of the name)
        src = bound_params(f) if sources is None else sources
        self.sources = src
        for n, i, t in src:
            self.env[i] = frozenset([n])
        self.sites = {}           # id(node) -> (node, deps-by-arg list)
        self.stores = {}          # id(node) -> (node, kind, value node, deps)
        self.changed = True
        it = 0
        while self.changed and it < 6:
            self.changed = False
            self.ev(f['body'])
            it += 1

    # ---------------------------------------------------------------- env
    def get(self, i):
        return self.env.get(i, frozenset())

    def add(self, i, deps):
        if not deps:
            return
        old = self.env.get(i, frozenset())
        new = old | deps
        if new != old:
            self.env[i] = new
            self.changed = True

    def bind(self, pat, deps):
        for b in pat_bindings(pat):
            self.add(b['i'], deps)

    def root_local(self, e):
        e = peel(e)
        while e.get('k') in ('field', 'index', 'try') or (e.get('k') == 'mcall' and e.get('m') in ('as_mut', 'as_mut_slice', 'iter_mut', 'borrow_mut', 'deref_mut', 'last_mut', 'first_mut', 'get_mut', 'unwrap', 'expect')):
            e = peel(e['recv'] if e.get('k') == 'mcall' else e['e'])
        return e['i'] if e.get('k') == 'local' else None

    # ---------------------------------------------------------------- evaluation
    def ev(self, n):
        k = n.get('k')
        E = frozenset()
        if k == 'local':
            return self.get(n['i'])
        if k in ('lit', 'path', 'break', 'continue'):
            if k == 'break' and 'e' in n:
                return self.ev(n['e'])
            return E
        if k == 'field':
            b = peel(n['e'])
            if b.get('k') == 'local' and b.get('i') in self.field_src:
                return frozenset([f"{self.field_tok.get(b['i'], b['n'])}.{n['n']}"])
            return self.ev(n['e'])
        if k in ('ref', 'un', 'cast', 'try', 'stmt'):
            return self.ev(n['e'])
        if k == 'semi':
            self.ev(n['e'])
            return E
        if k == 'ret':
            return self.ev(n['e']) if 'e' in n else E
        if k == 'bin':
            return self.ev(n['a']) | self.ev(n['b'])
        if k == 'index':
            return self.ev(n['e']) | self.ev(n['i'])
        if k == 'repeat':
            return self.ev(n['e'])
        if k in ('array', 'tup'):
            r = E
            for x in n.get('es', []):
                r |= self.ev(x)
            return r
        if k == 'struct':
            r = E
            for fld in n.get('fs', []):
                r |= self.ev(fld[1])
            if 'tail' in n:
                r |= self.ev(n['tail'])
            return r
        if k == 'block':
            for s in n.get('ss', []):
                self.ev(s)
            return self.ev(n['e']) if 'e' in n else E
        if k in ('let', 'letx'):
            d = self.ev(n['init']) if 'init' in n else E
            self.bind(n['pat'], d)
            if 'els' in n:
                self.ev(n['els'])
            return E
        if k in ('assign', 'assignop'):
            d = self.ev(n['rhs'])
            self.ev(n['lhs'])
            self.stores[id(n)] = (n, k + (n.get('op') or ''), n['rhs'], d)
            r = self.root_local(n['lhs'])
            if r is not None:
                self.add(r, d)
            return E
        if k == 'if':
            self.ev(n['c'])
            r = self.ev(n['a'])
            if 'b' in n:
                r |= self.ev(n['b'])
            return r
        if k == 'match':
            d = self.ev(n['e'])
            r = E
            for a in n['arms']:
                self.bind(a['pat'], d)
                if 'guard' in a:
                    self.ev(a['guard'])
                r |= self.ev(a['body'])
            return r
        if k == 'for':
            d = self.ev(n['iter'])
            self.bind(n['pat'], d)
            self.ev(n['body'])
            return E
        if k == 'loop':
            self.ev(n['body'])
            return E
        if k == 'closure':
            # a closure evaluated as a value (not as an adaptor argument): parameters unknown
            return self.ev(n['body'])
        if k in ('call', 'mcall'):
            return self.ev_call(n)
        r = E
        for c in children(n):
            r |= self.ev(c)
        return r

    def ev_call(self, n):
        E = frozenset()
        c = callee(n) or ''
        cd = n.get('f') or ''
        m = n.get('m') or c.rsplit('::', 1)[-1]
        args = ([n['recv']] if 'recv' in n else []) + list(n.get('args', []))
        if 'fe' in n:
            self.ev(n['fe'])
        count_only = None
        if 'recv' in n and m in COUNT_ONLY_METHODS:
            count_only = COUNT_ONLY_METHODS[m]
        elif c in COUNT_ONLY_CALLS or cd in COUNT_ONLY_CALLS:
            count_only = COUNT_ONLY_CALLS.get(c, COUNT_ONLY_CALLS.get(cd))
        per_arg = []
        plain = E
        closures = []
        for j, a in enumerate(args):
            pa = peel(a)
            if pa.get('k') == 'closure':
                closures.append(pa)
                per_arg.append(None)
                continue
            d = self.ev(a)
            per_arg.append(d)
            if count_only is not None and j == count_only:
                continue
            plain |= d
        res = plain
        for clo in closures:
            for p in clo.get('params', []):
                self.bind(p, plain)
            res |= self.ev(clo['body'])
        for j, clo_j in enumerate(per_arg):
            if clo_j is None:
                per_arg[j] = res
        if 'recv' in n and m in LEN_METHODS:
            res = E
        if 'recv' in n and (m in GROW_METHODS or m in STORE_METHODS) and len(args) >= 2:
            self.stores[id(n)] = (n, m, args[-1], per_arg[-1] or E)
        if 'recv' in n and m in GROW_METHODS:
            r = self.root_local(n['recv'])
            if r is not None:
                extra = E
                for j, a in enumerate(args[1:], 1):
                    if count_only is not None and j == count_only:
                        continue
                    extra |= per_arg[j] or E
                self.add(r, extra)
        # mutable-reference out-parameters of workspace helpers: `helper(n, &mut v)` may store into v
        if c.startswith(('midnight_', '<midnight_')):
            ins = E
            for d in per_arg:
                ins |= d or E
            for a in args:
                if a.get('k') == 'ref' and a.get('mut'):
                    r = self.root_local(a)
                    if r is not None:
                        self.add(r, ins)
        self.sites[id(n)] = (n, per_arg)
        return res

    # ---------------------------------------------------------------- results
    def store_sites(self):
        """[(node, kind, value node, deps)] assignments and collection insertions"""
        return list(self.stores.values())

    def call_sites(self, typed=None):
        """[(node, callee, set of source names reaching, by value, an argument whose type satisfies `typed`)]
        default `typed`: bound-typed (integer / big integer / collections of them)"""
        typed = typed or bound_typed
        out = []
        for n, per_arg in self.sites.values():
            args = ([n['recv']] if 'recv' in n else []) + list(n.get('args', []))
            deps = frozenset()
            for a, d in zip(args, per_arg):
                if typed(peel(a).get('t') or a.get('t')):
                    deps |= d or frozenset()
            out.append((n, callee(n) or '', deps))
        return out


def bound_typed(t):
    t = (t or '')
    return int_like(t) or 'BigUint' in t or 'BigInt' in t


def circuit_call(n):
    """does the call hand over a Layouter or a Region (i.e. can it emit constraints)?"""
    for a in ([n['recv']] if 'recv' in n else []) + list(n.get('args', [])):
        t = peel(a).get('t') or a.get('t') or ''
        if 'Layouter' in t or 'midnight_proofs::circuit::Region' in t or 'RegionLayouter' in t or 'NamespacedLayouter' in t:
            return True
    return False
