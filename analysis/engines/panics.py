"""Panic-site inventory over MIR bodies."""
from ..core import mir_callee, last_seg, norm

PARTIAL_EXTERNALS = {
    # external library functions that panic on some arguments (DESIGN §3.C)
    'core::slice::<impl [T]>::chunks': 'chunk size 0',
    'core::slice::<impl [T]>::chunks_exact': 'chunk size 0',
    'core::slice::<impl [T]>::windows': 'window size 0',
    'core::slice::<impl [T]>::split_at': 'mid > len',
    'core::slice::<impl [T]>::split_at_mut': 'mid > len',
    'core::slice::<impl [T]>::copy_from_slice': 'length mismatch',
    'core::slice::<impl [T]>::clone_from_slice': 'length mismatch',
    'alloc::vec::Vec::remove': 'index out of bounds',
    'alloc::vec::Vec::swap_remove': 'index out of bounds',
    'alloc::vec::Vec::drain': 'range out of bounds',
    'alloc::vec::Vec::insert': 'index > len',
    'alloc::vec::Vec::split_off': 'at > len',
    'num_bigint::biguint::BigUint::modpow': 'zero modulus',
    'core::cell::RefCell::borrow_mut': 'already borrowed',
    'core::cell::RefCell::borrow': 'already mutably borrowed',
}


def classify_call(t):
    """Return (kind, detail) if the call terminator is a panic site, else None."""
    c = mir_callee(t) or ''
    x = t.get('x', [])
    if c.startswith('core::panicking::') or c.startswith('std::panicking::') or c.startswith('std::rt::begin_panic') or c.startswith('core::panicking'):
        macros = [m for m in x if not m.startswith('desugar') and not m.startswith('$crate::panic::')]
        macros = [m.replace('$crate::', '') for m in macros]
        if any(m.startswith('debug_assert') for m in macros):
            return ('debug-only', macros[-1] if macros else 'debug_assert')
        name = macros[-1] if macros else last_seg(c)
        return ('panic', name)
    if c in ('core::result::Result::unwrap', 'core::result::Result::expect', 'core::option::Option::unwrap', 'core::option::Option::expect',
             'subtle::CtOption::unwrap', 'subtle::CtOption::expect', 'core::result::Result::unwrap_err', 'core::result::Result::expect_err'):
        return ('unwrap', c.split('::')[-2] + '::' + c.split('::')[-1])
    if c.endswith('core::ops::index::Index>::index') or c.endswith('core::ops::index::IndexMut>::index_mut'):
        recv = c[1:].split(' as ')[0]
        argt = ''
        ga = t.get('ga') or []
        if len(ga) >= 2:
            argt = norm(ga[1])
        return ('index', f'{recv}[{argt}]')
    if c.startswith('core::slice::index::'):
        return ('index', last_seg(c))
    if c in PARTIAL_EXTERNALS:
        return ('partial', last_seg(c) + ': ' + PARTIAL_EXTERNALS[c])
    return None


def sites(body, include_asserts=('BoundsCheck', 'DivisionByZero', 'RemainderByZero'), include_debug=False):
    out = []
    for bi, blk in enumerate(body['blocks']):
        if blk.get('cu'):
            continue
        t = blk['t']
        if t.get('k') == 'assert':
            m = t['m'].split(':')[0]
            if m in include_asserts:
                out.append(dict(bb=bi, kind='assert', detail=t['m'], line=t.get('l'), term=t))
        elif t.get('k') == 'call':
            r = classify_call(t)
            if r is None:
                continue
            if r[0] == 'debug-only' and not include_debug:
                continue
            out.append(dict(bb=bi, kind=r[0], detail=r[1], line=t.get('l'), term=t))
    return out


def own_bodies(world, fn_nid):
    """the fn body plus its closures"""
    return [nid for nid in world.mir_index() if nid == fn_nid or nid.startswith(fn_nid + '::{closure')]
