"""Untrusted-integer taint over HIR (DESIGN §3.C TAINT).

Labels are (name, depth, checked): depth -1 = the value is attacker-chosen, 0 = the *length* of the
collection, d>0 = the length of its elements at nesting depth d (was 'v'/'n'/'m');
collection / iterator is attacker-chosen.  A label becomes `checked` once a conditional that mentions it
dominates (structurally) the use with an escaping arm.  Sinks on raw labels are violations; `assert!`-style
panics on checked labels inside callees are reported for triage (the callee's condition is not the caller's).

Global, context-insensitive fixpoint over: parameter taint, return taint, field taint.
"""
from collections import defaultdict
from ..core import walk, norm, callee, children, pat_bindings, expr_str, short, peel
from . import hirq

INT_TYPES = {'u8', 'u16', 'u32', 'u64', 'u128', 'usize', 'i8', 'i16', 'i32', 'i64', 'i128', 'isize'}

SOURCE_CALL_SUFFIX = ('::from_le_bytes', '::from_be_bytes', '::from_ne_bytes')
SANITIZER_SUFFIX = ('::min', 'core::cmp::min', '::clamp', '::saturating_sub')  # result bounded by the other operand
ALLOC_SINKS = {
    'alloc::vec::Vec::with_capacity': 0, 'alloc::vec::from_elem': 1, 'alloc::vec::Vec::resize': 1,
    'alloc::vec::Vec::reserve': 1, 'alloc::vec::Vec::reserve_exact': 1, 'alloc::string::String::with_capacity': 0,
    'alloc::vec::Vec::resize_with': 1, 'alloc::collections::vec_deque::VecDeque::with_capacity': 0,
    'std::collections::HashMap::with_capacity': 0,
}
PARTIAL_SINKS = {
    # callee -> (argument index (None = receiver counts), what)
    'core::slice::<impl [T]>::chunks': (1, 'chunk size may be 0'),
    'core::slice::<impl [T]>::chunks_exact': (1, 'chunk size may be 0'),
    'core::slice::<impl [T]>::windows': (1, 'window size may be 0'),
    'core::slice::<impl [T]>::split_at': (1, 'mid may exceed len'),
    'core::slice::<impl [T]>::split_at_mut': (1, 'mid may exceed len'),
    'alloc::vec::Vec::remove': (1, 'index may exceed len'),
    'alloc::vec::Vec::swap_remove': (1, 'index may exceed len'),
    'alloc::vec::Vec::split_off': (1, 'index may exceed len'),
    'alloc::vec::Vec::truncate': (None, ''),
    'core::num::<impl usize>::pow': (1, 'exponent overflow'),
    'core::num::<impl u32>::pow': (1, 'exponent overflow'),
    'core::num::<impl u64>::pow': (1, 'exponent overflow'),
    'core::num::<impl usize>::next_power_of_two': (0, 'overflow'),
}
UNWRAPS = ('core::result::Result::unwrap', 'core::result::Result::expect', 'core::option::Option::unwrap', 'core::option::Option::expect')
PANIC_MACROS = {'assert', 'assert_eq', 'assert_ne', 'panic', 'unreachable', 'unimplemented', 'todo'}


_TYPE_CACHE = {}
COLL_PREFIX = ('alloc::vec::Vec', 'alloc::collections::', 'std::collections::', 'core::slice::', 'core::iter::', 'core::ops::range::',
               'alloc::vec::', 'core::array::', 'alloc::string::String', 'core::str::', 'std::io::Cursor', 'alloc::borrow::Cow', 'itertools::')
WRAP_PREFIX = ('core::option::Option', 'core::result::Result', 'alloc::boxed::Box', 'alloc::rc::Rc', 'alloc::sync::Arc', 'core::cell::RefCell', 'core::cell::Ref')


def _split_generic(t):
    """'A<B, C<D>>' -> ('A', ['B', 'C<D>'])"""
    i = t.find('<')
    if i < 0 or not t.endswith('>'):
        return t, []
    head, inner = t[:i], t[i + 1:-1]
    args, depth, cur = [], 0, ''
    for j, ch in enumerate(inner):
        if ch in '<([':
            depth += 1
        elif ch in ')]' or (ch == '>' and inner[j - 1:j] != '-'):
            depth -= 1
        if ch == ',' and depth == 0:
            args.append(cur.strip()); cur = ''
        else:
            cur += ch
    if cur.strip():
        args.append(cur.strip())
    return head, args


def type_caps(t):
    """(carries_value, carries_len) for a printed type"""
    if t in _TYPE_CACHE:
        return _TYPE_CACHE[t]
    r = _type_caps(t)
    _TYPE_CACHE[t] = r
    return r


def _type_caps(t):
    import re
    s = t.strip()
    while True:
        m = re.match(r"^(&('[\w]+ )?(mut )?|\*const |\*mut |dyn )", s)
        if m:
            s = s[m.end():]
        else:
            break
    if s in INT_TYPES:
        return (True, False)
    if s in ('bool', '()', '!', 'char', 'str', 'f32', 'f64') or not s:
        return (s == 'str', s == 'str')
    if s.startswith('['):
        inner = s[1:-1]
        elem = inner.rsplit(';', 1)[0].strip() if ';' in inner else inner
        return (type_caps(elem)[0], True)
    if s.startswith('('):
        parts = _split_generic('T<' + s[1:-1] + '>')[1]
        cs = [type_caps(p) for p in parts]
        return (any(c[0] for c in cs), any(c[1] for c in cs))
    if s.startswith('impl ') or s.startswith('{closure'):
        return (True, True)
    head, args = _split_generic(s)
    if head.startswith(WRAP_PREFIX):
        return type_caps(args[0]) if args else (False, False)
    if head.startswith(COLL_PREFIX):
        real = [a for a in args if not a.startswith("'")]
        cv = any(type_caps(a)[0] for a in real) if real else True
        return (cv, True)
    return (False, False)


def filter_ty(ls, t):
    if not ls or t is None:
        return ls
    cv, cn = type_caps(t)
    if cv and cn:
        return ls
    return frozenset(l for l in ls if (l[1] < 0 and cv) or (l[1] >= 0 and cn))


V, N = -1, 0


def L(name, kind=-1, checked=False):
    return (name, kind, checked)


def names(ls):
    return {l[0] for l in ls}


def raw(ls):
    return {l for l in ls if not l[2]}


def check_names(ls, ns):
    return frozenset((l[0], l[1], True) if l[0] in ns else l for l in ls)


def diverges(n):
    if n is None:
        return False
    k = n.get('k')
    if k in ('ret', 'break', 'continue'):
        return True
    if k in ('call', 'mcall') and n.get('t') == '!':
        return True
    if k == 'call' and (n.get('f') or '').endswith('core::result::Result::Err') and n.get('dk') == 'Ctor':
        return True             # `if bad { Err(e) } else { rest }`: the error VALUE of an arm leaves the function like `return Err(e)` does
    if k == 'block':
        for s in n.get('ss', []):
            if s.get('k') == 'semi' and (s.get('t') == '!' or diverges(s['e'])):
                return True
            if s.get('k') == 'stmt' and diverges(s['e']):
                return True
        return diverges(n.get('e')) if 'e' in n else False
    if k == 'if':
        return diverges(n['a']) and ('b' in n) and diverges(n['b'])
    if k == 'match':
        return bool(n['arms']) and all(diverges(a['body']) for a in n['arms'])
    if k in ('semi', 'stmt'):
        return diverges(n['e'])
    if k == 'try':
        return False
    return False


def is_panic_macro(n):
    x = n.get('x') or []
    return any(m.replace('$crate::', '') in PANIC_MACROS for m in x)


def macro_name(n):
    for m in (n.get('x') or []):
        m2 = m.replace('$crate::', '')
        if m2 in PANIC_MACROS or m2.startswith('debug_assert'):
            return m2
    return None


class Finding:
    __slots__ = ('fn', 'kind', 'detail', 'labels', 'line', 'checked_only')

    def __init__(self, fn, kind, detail, labels, line, checked_only=False):
        self.fn, self.kind, self.detail, self.labels, self.line, self.checked_only = fn, kind, detail, frozenset(labels), line, checked_only

    def key(self):
        return f'{self.fn}|{self.kind}|{self.detail}|{",".join(sorted(names(self.labels)))}'


class TaintAnalysis:
    def __init__(self, world, fns, field_sources=None, decoded_adts=None, extra_call_sources=None, entry_param_taint=None):
        """fns: iterable of fn nids to analyse (workspace, with HIR)."""
        self.w = world
        self.fnset = [f for f in fns if world.fn(f, required=False) is not None]
        self.fnset_s = set(self.fnset)
        self.field_taint = defaultdict(frozenset)   # (adt, field) -> labels
        for k, v in (field_sources or {}).items():
            self.field_taint[k] = frozenset(v)
        self.decoded_adts = decoded_adts or set()
        self.param_taint = defaultdict(frozenset)    # (fn, idx) -> labels
        for k, v in (entry_param_taint or {}).items():
            self.param_taint[k] = frozenset(v)
        self.ret_taint = defaultdict(frozenset)
        self.extra_call_sources = extra_call_sources or (lambda n, c: None)
        self.findings = {}
        self.changed = False
        self.fn_checked = {}     # fn -> label names checked on the fall-through path at the end of the fn
        self.impl_index = world.impl_index()
        self.stats = defaultdict(int)

    # ------------------------------------------------------------------ driver
    def run(self, max_rounds=8):
        for r in range(max_rounds):
            self.changed = False
            self.findings = {}
            for nid in self.fnset:
                self._analyse_fn(nid)
            self.stats['rounds'] = r + 1
            if not self.changed:
                break
        return list(self.findings.values())

    def _upd(self, d, k, ls):
        ls = frozenset(ls)
        if not ls:
            return
        old = d[k]
        # a label that is raw anywhere stays raw
        merged = set(old)
        for l in ls:
            if l in merged:
                continue
            other = (l[0], l[1], not l[2])
            if l[2] and other in merged:
                continue            # already raw
            if not l[2] and other in merged:
                merged.discard(other)
            merged.add(l)
        merged = frozenset(merged)
        if merged != old:
            d[k] = merged
            self.changed = True

    # ------------------------------------------------------------------ per function
    def _analyse_fn(self, nid):
        f = self.w.fn(nid)
        env = {}
        for idx, p in enumerate(f['params']):
            ls = self.param_taint.get((nid, idx), frozenset())
            for b in pat_bindings(p):
                env[b['i']] = filter_ty(ls, b.get('t'))
        st = _State(self, nid, f, env)
        res = st.ev(f['body'])
        st.returns |= res
        self.fn_checked[nid] = set(st.checked_names)
        self._upd(self.ret_taint, nid, st.returns)
        self.stats['fns'] += 1

    def report(self, fn, kind, detail, labels, line, checked_only=False):
        fd = Finding(fn, kind, detail, labels, line, checked_only)
        self.findings.setdefault(fd.key(), fd)


class _State:
    def __init__(self, ta, nid, f, env):
        self.ta, self.nid, self.f, self.env = ta, nid, f, env
        self.returns = set()
        self.checked_names = set()

    # -------- helpers
    def get(self, i):
        return self.env.get(i, frozenset())

    def add(self, i, ls):
        if ls:
            self.env[i] = self.get(i) | ls

    def sanitize(self, ns):
        if not ns:
            return
        self.checked_names |= set(ns)
        for i, ls in list(self.env.items()):
            if names(ls) & ns:
                self.env[i] = check_names(ls, ns)

    def bind(self, pat, ls):
        for b in pat_bindings(pat):
            self.env[b['i']] = self.get(b['i']) | filter_ty(ls, b.get('t'))
        # decoded enum payloads / struct fields bound in patterns
        self._pat_sources(pat)

    def _pat_sources(self, p):
        k = p.get('k')
        if k in ('ts', 'struct') and 'p' in p:
            path = norm(p['p'])
            adt = path.rsplit('::', 1)[0] if p.get('dk') == 'Variant' else path
            if adt in self.ta.decoded_adts or path in self.ta.decoded_adts:
                subs = p.get('subs', []) if k == 'ts' else [f[1] for f in p.get('fs', [])]
                fnames = [str(i) for i in range(len(subs))] if k == 'ts' else [f[0] for f in p.get('fs', [])]
                for fname, s in zip(fnames, subs):
                    if s.get('k') == 'bind' and s.get('t', '').lstrip('&') in INT_TYPES:
                        # an earlier arm of the same match with a literal at this position tested the value
                        tested = (path, fname) in getattr(self, '_lit_tested', ())
                        lab = L(f'{short(path)}.{fname}', -1, tested)
                        self.env[s['i']] = self.get(s['i']) | {lab}
        for s in p.get('subs', []) + [f[1] for f in p.get('fs', [])] + ([p['sub']] if 'sub' in p else []):
            if isinstance(s, dict):
                self._pat_sources(s)

    def root_local(self, n):
        r = hirq.recv_root(n)
        return r['i'] if r.get('k') == 'local' else None

    # -------- expression evaluation: returns frozenset of labels
    def ev(self, n):
        if n is None:
            return frozenset()
        k = n.get('k')
        m = getattr(self, 'ev_' + k, None)
        if m is not None:
            r = m(n)
        else:
            out = set()
            for c in children(n):
                out |= self.ev(c)
            r = frozenset(out)
        if r and 't' in n and k not in ('semi',):
            r = filter_ty(r, n['t'])
        return r

    def ev_lit(self, n):
        return frozenset()

    def ev_path(self, n):
        return frozenset()

    def ev_local(self, n):
        return self.get(n['i'])

    def ev_field(self, n):
        base = self.ev(n['e'])
        adt = hirq.ty_adt(n.get('bt'))
        ft = self.ta.field_taint.get((adt, n['n']), frozenset())
        # tuple field of a tainted tuple keeps taint; struct field reads use field taint only (field-based)
        if adt and adt.startswith('('):
            return base | ft
        if ft:
            return ft
        # fields of tainted locals that are not tracked structs: keep base labels (coarse)
        return base

    def ev_index(self, n):
        base = self.ev(n['e'])
        idx = self.ev(n['i'])
        self.sink_index(n, base, idx)
        if 'Range' in (n.get('ixt') or ''):
            return base
        return items_of(base)

    def sink_index(self, n, base, idx):
        bt = n.get('bt') or ''
        ixt = n.get('ixt') or ''
        if not any(t in ixt for t in ('usize', 'Range')):
            return
        bnames = names(base)
        bad = {l for l in raw(idx) if l[0] not in bnames}
        if bad:
            self.ta.report(self.nid, 'index', f'{hirq.ty_adt(bt)}[{ixt_short(ixt)}]', bad, n.get('l'))
        # independent index into a collection whose length is untrusted
        nb = {l for l in raw(base) if l[1] == 0 and l[0] not in names(idx)}
        if nb and 'Range' not in ixt or (nb and not idx):
            self.ta.report(self.nid, 'index-untrusted-len', f'{hirq.ty_adt(bt)}[{ixt_short(ixt)}]', nb, n.get('l'))

    def ev_ref(self, n):
        return self.ev(n['e'])

    def ev_un(self, n):
        return self.ev(n['e'])

    def ev_cast(self, n):
        return self.ev(n['e'])

    def ev_try(self, n):
        return self.ev(n['e'])

    def ev_bin(self, n):
        op = n.get('op')
        if op in ('||', '&&'):
            # short-circuit: the right operand is only evaluated after the left one tested its values
            self.ev(n['a'])
            ns = self.cond_names(n['a'])
            saved = dict(self.env)
            saved_cn = set(self.checked_names)
            if ns:
                self.sanitize(ns)
            self.ev(n['b'])
            self.env = saved
            self.checked_names = saved_cn
            return frozenset()
        a, b = self.ev(n['a']), self.ev(n['b'])
        if op in ('<', '<=', '>', '>=', '==', '!=', '&&', '||'):
            return frozenset()
        t = n.get('t', '')
        if op in ('/', '%') and t in INT_TYPES and raw(b):
            self.ta.report(self.nid, 'div', f'{op} by untrusted {t}', raw(b), n.get('l'))
        if op in ('<<', '>>') and raw(b):
            self.ta.report(self.nid, 'shift', f'{op} by untrusted amount', raw(b), n.get('l'))
        return a | b

    def ev_tup(self, n):
        out = set()
        for e in n.get('es', []):
            out |= self.ev(e)
        return frozenset(out)

    def ev_array(self, n):
        # element lengths are not the literal's own length: 'n' of an element becomes 'm' (inner length) of the array
        out = set()
        for e in n.get('es', []):
            for l in self.ev(e):
                out.add((l[0], l[1] + 1, l[2]) if l[1] >= 0 else l)
        return frozenset(out)

    def ev_repeat(self, n):
        return self.ev(n['e'])

    def ev_struct(self, n):
        out = set()
        adt = norm(n.get('p', ''))
        vname = n.get('v')
        for fname, e in n.get('fs', []):
            ls = self.ev(e)
            if adt == 'core::ops::range::Range' or adt == 'core::ops::range::RangeInclusive' or adt.startswith('core::ops::range::Range'):
                out |= ls | frozenset((l[0], 0, l[2]) for l in ls if l[1] < 0)
            else:
                key = (adt, fname) if not vname else (adt + '::' + vname, fname)
                self.ta._upd(self.ta.field_taint, key, ls)
        if 'tail' in n:
            self.ev(n['tail'])
        return frozenset(out)

    def ev_assign(self, n):
        ls = self.ev(n['rhs'])
        self.ev(n['lhs'])
        r = self.root_local(n['lhs'])
        if r is not None:
            self.add(r, ls)
        lhs = peel(n['lhs'])
        if lhs.get('k') == 'field':
            adt = hirq.ty_adt(lhs.get('bt'))
            self.ta._upd(self.ta.field_taint, (adt, lhs['n']), ls)
        return frozenset()

    def ev_assignop(self, n):
        ls = self.ev(n['rhs'])
        self.ev(n['lhs'])
        if n.get('op') in ('/=', '%=') and raw(ls):
            self.ta.report(self.nid, 'div', f'{n["op"]} by untrusted value', raw(ls), n.get('l'))
        if n.get('op') in ('<<=', '>>=') and raw(ls):
            self.ta.report(self.nid, 'shift', f'{n["op"]} by untrusted amount', raw(ls), n.get('l'))
        r = self.root_local(n['lhs'])
        if r is not None:
            self.add(r, ls)
        return frozenset()

    def ev_ret(self, n):
        if 'e' in n:
            self.returns |= self.ev(n['e'])
        return frozenset()

    def ev_break(self, n):
        if 'e' in n:
            return self.ev(n['e'])
        return frozenset()

    def ev_closure(self, n):
        for p in n.get('params', []):
            for b in pat_bindings(p):
                self.env.setdefault(b['i'], frozenset())
        return self.ev(n['body'])

    def bind_expr(self, pat, init):
        """bind `pat = init`, elementwise for tuple patterns against tuple expressions"""
        ip = peel(init) if init is not None else None
        if ip is not None and pat.get('k') == 'tuple' and ip.get('k') == 'tup' and len(pat.get('subs', [])) == len(ip.get('es', [])) and not pat.get('rest'):
            for sp, se in zip(pat['subs'], ip['es']):
                self.bind_expr(sp, se)
            return
        ls = self.ev(init) if init is not None else frozenset()
        self.bind(pat, ls)

    def ev_let(self, n):
        self.bind_expr(n['pat'], n.get('init'))
        ls = frozenset()
        if 'els' in n:
            self.ev(n['els'])
        return frozenset()

    def ev_letx(self, n):
        ls = self.ev(n['init'])
        self.bind(n['pat'], ls)
        return frozenset()

    def ev_semi(self, n):
        self.ev(n['e'])
        return frozenset()

    ev_stmt = ev_semi

    def ev_block(self, n):
        for s in n.get('ss', []):
            self.ev(s)
        return self.ev(n['e']) if 'e' in n else frozenset()

    def cond_names(self, c, checked=False):
        """names of raw (or, with checked=True, checked) labels mentioned anywhere in a condition"""
        sel = (lambda ls: {l for l in ls if l[2]}) if checked else raw
        out = set()
        for x in walk(c, into_closures=False):
            if x.get('k') == 'local':
                out |= names(sel(self.get(x['i'])))
            elif x.get('k') == 'field':
                adt = hirq.ty_adt(x.get('bt'))
                out |= names(sel(self.ta.field_taint.get((adt, x['n']), frozenset())))
            elif x.get('k') in ('call', 'mcall'):
                # source calls inside the condition itself
                c2 = callee(x) or ''
                if c2 in self.ta.ret_taint:
                    out |= names(sel(self.ta.ret_taint[c2]))
        return out

    def ev_if(self, n):
        cond = n['c']
        # evaluate the condition (records sinks inside it, binds `if let`)
        self.ev(cond)
        ns = self.cond_names(cond)
        a_div = diverges(n['a'])
        b_div = ('b' in n) and diverges(n['b'])
        panic_arm = None
        cns = self.cond_names(cond, checked=True) if not ns else set()
        if ns or cns:
            for arm in (n['a'], n.get('b')):
                if arm is not None and self._is_panic_arm(arm):
                    panic_arm = arm
        if panic_arm is not None and not ns and cns and is_assert_like(n, panic_arm) and not self._consistent_equality(cond):
            # the value was tested by a caller, but this assert tests a (possibly) different condition
            mac = macro_name(n) or macro_name(panic_arm) or 'panic'
            if not mac.startswith('debug_assert'):
                self.ta.report(self.nid, 'assert-on-checked', f'{mac}!({_short_expr(cond)})', {(x, -1, True) for x in cns}, n.get('l'), checked_only=True)
            panic_arm = None
        if panic_arm is not None and is_assert_like(n, panic_arm) and not self._consistent_equality(cond):
            ls = {l for i in hirq.locals_used(cond) for l in self.get(i) if l[0] in ns}
            ls |= {l for x in walk(cond, False) if x.get('k') == 'field' for l in self.ta.field_taint.get((hirq.ty_adt(x.get('bt')), x['n']), frozenset()) if l[0] in ns}
            mac = macro_name(n) or macro_name(panic_arm) or 'panic'
            if not mac.startswith('debug_assert'):
                self.ta.report(self.nid, 'assert', f'{mac}!({_short_expr(cond)})', raw(ls), n.get('l'))
        saved = dict(self.env)
        saved_cn = set(self.checked_names)
        if ns:
            self.sanitize(ns)
        ra = self.ev(n['a'])
        env_a = self.env
        cn_a = set(self.checked_names)
        self.env = dict(saved)
        self.checked_names = set(saved_cn)
        if ns:
            self.sanitize(ns)
        rb = self.ev(n['b']) if 'b' in n else frozenset()
        env_b = self.env
        cn_b = set(self.checked_names)
        if a_div and not b_div:
            self.checked_names = cn_b
        elif b_div and not a_div:
            self.checked_names = cn_a
        else:
            self.checked_names = saved_cn | (cn_a & cn_b)
        # merge
        if a_div and not b_div:
            self.env = env_b
        elif b_div and not a_div:
            self.env = env_a
        else:
            merged = dict(saved)
            for e in (env_a, env_b):
                for i, ls in e.items():
                    merged[i] = _merge(merged.get(i, frozenset()), ls) if i in saved else ls
            # no escaping arm: values are only tested inside the branches
            if ns and not (a_div or b_div):
                for i, ls in saved.items():
                    if names(ls) & ns:
                        merged[i] = _merge(merged.get(i, frozenset()), ls)
            self.env = merged
        return ra | rb

    def _consistent_equality(self, cond):
        c = peel(cond)
        while c.get('k') == 'un' and c.get('op') == '!':
            c = peel(c['e'])
        if c.get('k') == 'bin' and c.get('op') in ('==', '!='):
            a, b = names(self._lab_all(c['a'])), names(self._lab_all(c['b']))
            return bool(a) and a == b
        return False

    def _lab_all(self, e):
        out = set()
        for x in walk(e, False):
            if x.get('k') == 'local':
                out |= self.get(x['i'])
        return out

    def _is_panic_arm(self, arm):
        for x in walk(arm, into_closures=False):
            if x.get('k') in ('call', 'mcall') and x.get('t') == '!' and ('panick' in (x.get('f') or '') or 'begin_panic' in (x.get('f') or '')):
                return True
        return False

    def ev_match(self, n):
        sp = peel(n['e'])
        if sp.get('k') == 'tup' and len(n['arms']) == 1 and n['arms'][0]['pat'].get('k') == 'tuple':
            # `match (&a, &b) { (l, r) => .. }` (assert_eq! expansion): bind elementwise
            self.bind_expr(n['arms'][0]['pat'], sp)
            return self.ev(n['arms'][0]['body'])
        sl = self.ev(n['e'])
        ns = names(raw(sl))
        out = set()
        saved = dict(self.env)
        envs = []
        any_lit_div = False
        self._lit_tested = set()
        for a in n['arms']:
            self.env = dict(saved)
            lit = _is_lit_pat(a['pat'])
            if lit and ns:
                self.sanitize(ns)
                self.bind(a['pat'], check_names(sl, ns))
            else:
                self.bind(a['pat'], sl)
            if 'guard' in a:
                self.ev(a['guard'])
                gns = self.cond_names(a['guard'])
                if gns:
                    self.sanitize(gns)
            r = self.ev(a['body'])
            for (pp, pos) in _lit_positions(a['pat']):
                self._lit_tested.add((pp, pos))
            if not diverges(a['body']):
                out |= r
                envs.append(self.env)
            # panics in match arms on untrusted scrutinee (e.g. `_ => panic!()`)
            if ns and self._is_panic_arm(a['body']) and not lit and n.get('src') == 'match':
                pass
        wild_div = all(diverges(a['body']) for a in n['arms'] if not _is_lit_pat(a['pat'])) and any(_is_lit_pat(a['pat']) for a in n['arms'])
        merged = dict(saved)
        for e in envs:
            for i, ls in e.items():
                merged[i] = _merge(merged.get(i, frozenset()), ls) if i in saved else ls
        self.env = merged if envs else saved
        if ns and wild_div:
            self.sanitize(ns)
            return check_names(frozenset(out), ns)
        return frozenset(out)

    def ev_for(self, n):
        il = self.ev(n['iter'])
        # items carry the value labels of the iterated thing
        item = items_of(il)
        self.bind(n['pat'], item)
        for _ in range(2):
            self.ev(n['body'])
        return frozenset()

    def ev_loop(self, n):
        for _ in range(2):
            self.ev(n['body'])
        return frozenset()

    # -------- calls
    def ev_call(self, n):
        if 'fe' in n:
            out = set(self.ev(n['fe']))
            for a in n.get('args', []):
                out |= self.ev(a)
            return frozenset(out)
        return self._call(n, None, n.get('args', []))

    def ev_mcall(self, n):
        return self._call(n, n['recv'], n.get('args', []))

    def _call(self, n, recv, args):
        ta = self.ta
        c = callee(n) or ''
        cdecl = norm(n.get('f', ''))
        allargs = ([recv] if recv is not None else []) + list(args)
        # closures passed as arguments are evaluated (their bodies may contain sinks); their "labels" are their results
        al = []
        for a in allargs:
            if a.get('k') == 'closure' and recv is not None and al:
                item = items_of(al[0])
                for p in a.get('params', []):
                    self.bind(p, item)
            al.append(self.ev(a))
        if n.get('dk') == 'Ctor':
            out = set()
            for x in al:
                out |= x
            # tuple-struct constructor: record field taint by position
            adt = norm(n.get('f', ''))
            for i, x in enumerate(al):
                ta._upd(ta.field_taint, (adt, str(i)), x)
            return frozenset(out)
        line = n.get('l')
        # ---- sources
        src = ta.extra_call_sources(n, c)
        if src:
            return frozenset(src)
        if c.endswith(SOURCE_CALL_SUFFIX) and c.startswith('core::num::'):
            return frozenset({L(f'int decoded from bytes in {short(self.nid)}')})
        # read_exact(&mut buf): buf becomes value-tainted
        if c.endswith('::read_exact') or cdecl.endswith('Read::read_exact'):
            for a in args:
                r = self.root_local(a)
                if r is not None:
                    self.add(r, frozenset({L(f'bytes read in {short(self.nid)}')}))
            return frozenset()
        # ---- sanitizers
        if c.endswith(SANITIZER_SUFFIX) and len(al) >= 2:
            allns = set()
            for x in al:
                allns |= names(x)
            if any(not raw(x) for x in al):
                out = set()
                for x in al:
                    out |= x
                return check_names(frozenset(out), allns)
        # max(): the result is bounded from below by the trusted operands; as a *length* it is sufficient for every trusted
        # index, and the untrusted operand itself keeps its own label where it is used as an index.  Drop.
        if (c.endswith('::max') or c == 'core::cmp::max') and name_of(n, c) == 'max':
            return frozenset()
        # ---- sinks
        if c in ALLOC_SINKS:
            i = ALLOC_SINKS[c]
            if i < len(al) and raw(al[i]) and any(l[1] < 0 for l in raw(al[i])):
                ta.report(self.nid, 'alloc', last2(c), {l for l in raw(al[i]) if l[1] < 0}, line)
        if c in PARTIAL_SINKS:
            i, what = PARTIAL_SINKS[c]
            if i is not None and i < len(al) and raw(al[i]):
                ta.report(self.nid, 'partial', f'{last2(c)}: {what}', raw(al[i]), line)
        if c in UNWRAPS and al and raw(al[0]):
            # unwrap of a fallible conversion of an untrusted value
            inner = peel(allargs[0])
            ic = callee(inner) or '' if inner.get('k') in ('call', 'mcall') else ''
            if any(s in ic for s in ('try_from', 'try_into', 'checked_', 'from_u32', 'from_digit', '::get', '::first', '::last', 'position', 'binary_search')):
                # conversions of slices fail on the *length*, conversions of integers on the *value*
                src_t = ''
                if inner.get('k') == 'mcall':
                    src_t = inner.get('rt') or ''
                elif inner.get('args'):
                    src_t = inner['args'][0].get('t') or ''
                want_len = ('[' in src_t or 'Vec' in src_t)
                bad = {l for l in raw(al[0]) if (l[1] == 0 if want_len else l[1] < 0)}
                if bad:
                    ta.report(self.nid, 'unwrap', f'{last2(c)} of {last2(ic)}', bad, line)
        if n.get('t') == '!' and ('panick' in c or 'begin_panic' in c):
            pass  # handled by the enclosing `if`
        # Index trait called explicitly (rare)
        # ---- workspace callee: propagate parameter taint, use return summary
        targets = []
        if c in ta.fnset_s:
            targets = [c]
        elif cdecl in ta.impl_index and 'rs' not in n:
            targets = [t for t in ta.impl_index[cdecl] if t in ta.fnset_s]
        if targets:
            out = set()
            for tg in targets:
                for i, x in enumerate(al):
                    if x:
                        ta._upd(ta.param_taint, (tg, i), x)
                out |= ta.ret_taint.get(tg, frozenset())
            # &mut arguments may be tainted by the callee: not modelled (documented limitation)
            return frozenset(out)
        # ---- external / unanalysed callee
        out = set()
        for x in al:
            out |= x
        name = n.get('m') or last_name(c)
        # mutation through &mut self receivers: v.push(x), v.extend(xs), v.resize(n, _), v.insert(..)
        if recv is not None and name in ('push', 'extend', 'extend_from_slice', 'insert', 'resize', 'append', 'push_back', 'push_str', 'write_all', 'copy_from_slice', 'truncate'):
            r = self.root_local(recv)
            if r is not None:
                add = set()
                for x in al[1:]:
                    add |= x
                if name in ('resize', 'truncate') and len(al) > 1:
                    add |= {(l[0], 0, l[2]) for l in al[1] if l[1] < 0}
                self.add(r, frozenset(add))
        if name in ('map', 'filter_map', 'map_while', 'scan', 'zip', 'enumerate', 'rev', 'skip_while', 'take_while', 'filter', 'cloned', 'copied', 'iter', 'iter_mut', 'into_iter', 'by_ref', 'peekable', 'chain') and recv is not None:
            res = set(al[0])
            for a, x in zip(allargs[1:], al[1:]):
                if a.get('k') == 'closure' or name in ('zip', 'chain'):
                    if name == 'chain':
                        res |= x
                    elif name == 'zip':
                        res |= {l for l in x if l[1] != 0}
                    else:
                        res |= {(l[0], l[1] + 1, l[2]) if l[1] >= 0 else l for l in x}
                else:
                    res |= x
            return frozenset(res)
        if name in ('concat', 'flatten', 'join', 'flat_map') and recv is not None:
            return frozenset((l[0], l[1] - 1, l[2]) if l[1] >= 1 else l for l in out)
        if name in ('len', 'count', 'capacity') and recv is not None:
            return frozenset((l[0], -1, l[2]) for l in al[0] if l[1] == 0)
        if name in ('is_empty', 'contains', 'contains_key', 'eq', 'ne', 'lt', 'le', 'gt', 'ge', 'is_some', 'is_none', 'is_ok', 'is_err'):
            return frozenset()
        if name in ('take', 'skip', 'step_by', 'chunks', 'windows') and recv is not None and len(al) > 1:
            return al[0] | frozenset((l[0], 0, l[2]) for l in al[1] if l[1] < 0)
        if name in ('repeat_n',) and len(al) > 1:
            return frozenset((l[0], 0, l[2]) for l in al[-1] if l[1] < 0) | al[0]
        return frozenset(out)


def items_of(ls):
    """labels of the items of a collection/iterator with labels ls"""
    return frozenset((l[0], l[1] - 1, l[2]) if l[1] >= 1 else l for l in ls if l[1] != 0)


def name_of(n, c):
    return n.get('m') or last_name(c)


def _merge(a, b):
    out = set(a)
    for l in b:
        other = (l[0], l[1], not l[2])
        if l in out:
            continue
        if l[2] and other in out:
            continue
        if not l[2] and other in out:
            out.discard(other)
        out.add(l)
    return frozenset(out)


def _is_lit_pat(p):
    k = p.get('k')
    if k in ('lit', 'range'):
        return True
    if k == 'or':
        return all(_is_lit_pat(s) for s in p.get('subs', []))
    if k == 'path':      # unit variant / const
        return True
    if k == 'ts' and p.get('dk') == 'Variant':
        return all(_is_lit_pat(s) for s in p.get('subs', [])) if p.get('subs') else True
    return False


def _lit_positions(p):
    """(variant path, field) positions matched against a literal by this pattern (other positions catch-all)"""
    out = []
    k = p.get('k')
    if k == 'ref':
        return _lit_positions(p['sub'])
    if k == 'or':
        for s in p.get('subs', []):
            out += _lit_positions(s)
        return out
    if k == 'ts' and 'p' in p:
        subs = p.get('subs', [])
        for i, s in enumerate(subs):
            if s.get('k') in ('lit', 'range') and all(x.get('k') in ('wild', 'bind') for j, x in enumerate(subs) if j != i):
                out.append((norm(p['p']), str(i)))
    return out


def is_assert_like(ifnode, arm):
    return is_panic_macro(ifnode) or is_panic_macro(arm) or any(is_panic_macro(x) for x in walk(arm, False))


def _short_expr(c):
    s = expr_str(c)
    return s if len(s) < 80 else s[:77] + '...'


def ixt_short(t):
    t = norm(t) or ''
    return t.replace('core::ops::range::', '')


def last2(c):
    from ..core import split_path
    return '::'.join(split_path(c)[-2:])


def last_name(c):
    from ..core import split_path
    return split_path(c)[-1] if c else ''
