"""Reachability helpers over the workspace call graph."""
from ..core import norm, mir_callee


def closure(world, roots, stop=lambda nid: False):
    cg = world.callgraph()
    return cg.reachable(roots, stop)


def callers_of(world, pred):
    """[(caller nid, bb, term, callee)] for every call site whose callee satisfies pred."""
    out = []
    for nid, b in world.mir_index().items():
        for bi, blk in enumerate(b['blocks']):
            t = blk['t']
            if t.get('k') == 'call':
                c = mir_callee(t)
                if c is not None and pred(c):
                    out.append((nid, bi, t, c))
    return out


def parent_fn(nid):
    """enclosing fn of a closure body id"""
    i = nid.find('::{closure')
    return nid if i < 0 else nid[:i]


def loc(body, t=None):
    if t is not None and 'l' in t:
        return f"{body['file']}:{t['l']}"
    return f"{body['file']}:{body['line']}"
