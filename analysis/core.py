"""Shared analysis infrastructure: world of facts, name normalisation, HIR walkers,
MIR CFG utilities, call graph."""
import os, re, sys, json, time
from collections import defaultdict, deque
from . import facts

CRATES = facts.CRATES


# --------------------------------------------------------------------------- names
# Functions RENAMED with respect to the reference tree (World._detect_renames): {normalised current id: normalised reference id}.  Every id and callee
# goes through norm() / normx(), so a renamed function is seen under its reference name by every table and rule.
RENAMES = {}


def norm(path, precise=False):
    r = _norm_raw(path, precise)
    if RENAMES and r is not None:
        if r in RENAMES:
            return RENAMES[r]
        i = r.find('::{closure')
        if i > 0 and r[:i] in RENAMES:
            return RENAMES[r[:i]] + r[i:]
    return r


def _norm_raw(path, precise=False):
    """Strip generic arguments from a printed def path, keeping `<T as Trait>` and
    `<impl ...>` qualifiers (recursively normalised)."""
    if path is None:
        return None
    out = []
    i, n = 0, len(path)
    while i < n:
        c = path[i]
        if c == '<':
            # find matching '>'
            depth, j = 0, i
            while j < n:
                if path[j] == '<':
                    depth += 1
                elif path[j] == '>' and (j == 0 or path[j - 1] != '-'):
                    depth -= 1
                    if depth == 0:
                        break
                j += 1
            inner = path[i + 1:j]
            prev = ''.join(out)
            at_seg_start = (i == 0) or prev.endswith('::') or prev.endswith(' ') or prev.endswith('(') or prev.endswith('&') or prev.endswith('[')
            if at_seg_start and (inner.startswith('impl ') or _top_level_as(inner)):
                if inner.startswith('impl '):
                    out.append('<impl ' + _norm_impl_inner(inner[5:]) + '>')
                else:
                    a, b = _split_as(inner)
                    out.append('<' + _strip_lt(_norm_raw(a)) + ' as ' + (_norm_trait(b) if precise else _norm_raw(b)) + '>')
            elif at_seg_start and i == 0 and not _top_level_as(inner):
                # `<Type>::method` form
                out.append('<' + _norm_raw(inner) + '>')
            else:
                # turbofish or type args: drop (also drop a preceding '::')
                if prev.endswith('::'):
                    out[:] = [prev[:-2]]
            i = j + 1
            continue
        out.append(c)
        i += 1
    return ''.join(out)


def normx(path):
    """precise id: like norm() but keeps the concrete generic arguments of the trait in `<T as Trait<..>>` so that several impls of one
    trait for one type stay distinct (used for per-impl tables); norm() is the loose id used for matching in rules"""
    return norm(path, precise=True) if path is not None else None


def _strip_lt(s):
    return re.sub(r"&'\w+ ", '&', s)


def _split_args(s):
    out, depth, cur = [], 0, ''
    for j, ch in enumerate(s):
        if ch in '<([':
            depth += 1
        elif ch in ')]' or (ch == '>' and s[j - 1:j] != '-'):
            depth -= 1
        if ch == ',' and depth == 0:
            out.append(cur.strip()); cur = ''
        else:
            cur += ch
    if cur.strip():
        out.append(cur.strip())
    return out


def _norm_trait(b):
    """`Trait<Args>`: keep the *concrete* generic arguments (full paths, primitives, tuples, refs, slices), drop type parameters and
    lifetimes — impls of one trait for one type that differ only in these arguments must keep distinct ids"""
    i = b.find('<')
    if i < 0 or not b.endswith('>'):
        return norm(b)
    head, args = b[:i], _split_args(b[i + 1:-1])
    keep = []
    for a in args:
        a = a.strip()
        if a.startswith("'"):
            continue
        if '=' in a and not a.startswith(('(', '[', '&', '<')):     # associated type binding `Item = ..`
            continue
        if '::' in a or a[:1].islower() or a[:1] in '([&*':
            keep.append(_strip_lt(norm(a)))
    return norm(head) + ('<' + ', '.join(keep) + '>' if keep else '')


def _top_level_as(s):
    return _split_as(s) is not None


def _split_as(s):
    depth = 0
    i = 0
    while i < len(s):
        c = s[i]
        if c in '<([':
            depth += 1
        elif c in ')]':
            depth -= 1
        elif c == '>' and s[i - 1:i] != '-':
            depth -= 1
        elif depth == 0 and s.startswith(' as ', i):
            return s[:i], s[i + 4:]
        i += 1
    return None


def _norm_impl_inner(s):
    # "Trait for Type" or "Type"
    depth = 0
    for i in range(len(s)):
        c = s[i]
        if c in '<([':
            depth += 1
        elif c in ')]' or (c == '>' and s[i - 1:i] != '-'):
            depth -= 1
        elif depth == 0 and s.startswith(' for ', i):
            return norm(s[:i]) + ' for ' + norm(s[i + 5:])
    return norm(s)


def short(path):
    """last two segments, for messages"""
    p = norm(path) or ''
    segs = split_path(p)
    return '::'.join(segs[-2:])


def split_path(p):
    segs, depth, cur = [], 0, ''
    i = 0
    while i < len(p):
        c = p[i]
        if c in '<([':
            depth += 1
        elif c in ')]' or (c == '>' and p[i - 1:i] != '-'):
            depth -= 1
        if depth == 0 and p.startswith('::', i):
            segs.append(cur); cur = ''; i += 2; continue
        cur += c
        i += 1
    segs.append(cur)
    return segs


def last_seg(p):
    return split_path(norm(p) or '')[-1]


# --------------------------------------------------------------------------- HIR walking
CHILD_KEYS = ('e', 'a', 'b', 'c', 'recv', 'fe', 'init', 'els', 'body', 'iter', 'lhs', 'rhs', 'i', 'tail', 'guard', 'g')
LIST_KEYS = ('ss', 'args', 'es', 'arms')


def children(n):
    """Yield child expression nodes of a HIR node in evaluation order (approximately)."""
    k = n.get('k')
    if k == 'mcall':
        yield n['recv']
        for a in n.get('args', []):
            yield a
        return
    if k == 'call':
        if 'fe' in n:
            yield n['fe']
        for a in n.get('args', []):
            yield a
        return
    if k == 'block':
        for s in n.get('ss', []):
            yield s
        if 'e' in n:
            yield n['e']
        return
    if k == 'let':
        if 'init' in n:
            yield n['init']
        if 'els' in n:
            yield n['els']
        return
    if k == 'match':
        yield n['e']
        for a in n['arms']:
            if 'guard' in a:
                yield a['guard']
            yield a['body']
        return
    if k == 'for':
        yield n['iter']
        yield n['body']
        return
    if k == 'if':
        yield n['c']
        yield n['a']
        if 'b' in n:
            yield n['b']
        return
    if k == 'struct':
        for f in n.get('fs', []):
            yield f[1]
        if 'tail' in n:
            yield n['tail']
        return
    if k in ('assign', 'assignop'):
        yield n['rhs']
        yield n['lhs']
        return
    if k == 'bin':
        yield n['a']
        yield n['b']
        return
    if k == 'index':
        yield n['e']
        yield n['i']
        return
    if k == 'closure':
        yield n['body']
        return
    if k in ('array', 'tup'):
        for x in n.get('es', []):
            yield x
        return
    if k == 'letx':
        yield n['init']
        return
    if k == 'loop':
        yield n['body']
        return
    for key in ('e',):
        if key in n and isinstance(n[key], dict):
            yield n[key]


def walk(n, into_closures=True):
    """Pre-order generator over all nodes."""
    stack = [n]
    while stack:
        x = stack.pop()
        yield x
        if x.get('k') == 'closure' and not into_closures:
            continue
        ch = list(children(x))
        stack.extend(reversed(ch))


def callee(n):
    """normalised resolved callee of a call/mcall node (None for indirect calls)"""
    f = n.get('rs') or n.get('f')
    return norm(f) if f else None


def callee_decl(n):
    f = n.get('f')
    return norm(f) if f else None


def pat_bindings(p, out=None):
    if out is None:
        out = []
    k = p.get('k')
    if k == 'bind':
        out.append(p)
        if 'sub' in p:
            pat_bindings(p['sub'], out)
    elif k in ('ts', 'tuple', 'or'):
        for s in p.get('subs', []):
            pat_bindings(s, out)
    elif k == 'struct':
        for f in p.get('fs', []):
            pat_bindings(f[1], out)
    elif k in ('ref', 'guard'):
        pat_bindings(p['sub'], out)
    elif k == 'slice':
        for s in p.get('subs', []) + p.get('post', []):
            pat_bindings(s, out)
        if 'mid' in p:
            pat_bindings(p['mid'], out)
    return out


def pat_str(p):
    k = p.get('k')
    if k == 'bind':
        return p['n'] + ('@' + pat_str(p['sub']) if 'sub' in p else '')
    if k == 'wild':
        return '_'
    if k == 'ts':
        return short(p.get('p', '?')) + '(' + ', '.join(pat_str(s) for s in p.get('subs', [])) + (', ..' if p.get('rest') else '') + ')'
    if k == 'struct':
        return short(p.get('p', '?')) + '{' + ', '.join(f[0] + ': ' + pat_str(f[1]) for f in p.get('fs', [])) + (', ..' if p.get('rest') else '') + '}'
    if k == 'path':
        return short(p.get('p', '?'))
    if k == 'tuple':
        return '(' + ', '.join(pat_str(s) for s in p.get('subs', [])) + ')'
    if k == 'or':
        return ' | '.join(pat_str(s) for s in p.get('subs', []))
    if k == 'lit':
        return p.get('v', '?')
    if k == 'ref':
        return '&' + pat_str(p['sub'])
    if k == 'guard':
        return pat_str(p['sub']) + ' if ..'
    return k or '?'


def expr_str(n, depth=0):
    """Compact rendering of an expression for keys/messages (not for matching source text)."""
    if depth > 6:
        return '..'
    k = n.get('k')
    d = depth + 1
    if k == 'local':
        return n['n']
    if k == 'path':
        return short(n.get('p', '?'))
    if k == 'lit':
        v = n.get('v', '')
        return v.split(':', 1)[1] if ':' in v else v
    if k == 'field':
        return expr_str(n['e'], d) + '.' + n['n']
    if k == 'index':
        return expr_str(n['e'], d) + '[' + expr_str(n['i'], d) + ']'
    if k == 'mcall':
        return expr_str(n['recv'], d) + '.' + n['m'] + '(' + ', '.join(expr_str(a, d) for a in n.get('args', [])) + ')'
    if k == 'call':
        f = short(n['f']) if 'f' in n else expr_str(n['fe'], d)
        return f + '(' + ', '.join(expr_str(a, d) for a in n.get('args', [])) + ')'
    if k == 'ref':
        return '&' + ('mut ' if n.get('mut') else '') + expr_str(n['e'], d)
    if k == 'un':
        return n['op'] + expr_str(n['e'], d)
    if k == 'bin':
        return '(' + expr_str(n['a'], d) + ' ' + n['op'] + ' ' + expr_str(n['b'], d) + ')'
    if k == 'cast':
        return expr_str(n['e'], d) + ' as ' + n.get('t', '?')
    if k == 'try':
        return expr_str(n['e'], d) + '?'
    if k == 'closure':
        return '|..| ' + expr_str(n['body'], d)
    if k == 'block':
        if not n.get('ss') and 'e' in n:
            return expr_str(n['e'], d)
        return '{..}'
    if k == 'struct':
        return short(n.get('p', '?')) + '{..}'
    if k == 'tup':
        return '(' + ', '.join(expr_str(a, d) for a in n.get('es', [])) + ')'
    if k == 'array':
        return '[' + ', '.join(expr_str(a, d) for a in n.get('es', [])) + ']'
    return k or '?'


def peel(n):
    """strip refs, derefs, casts-free wrappers, single-expression blocks"""
    while True:
        k = n.get('k')
        if k == 'ref' or (k == 'un' and n.get('op') == '*'):
            n = n['e']
        elif k == 'block' and not n.get('ss') and 'e' in n:
            n = n['e']
        else:
            return n


# --------------------------------------------------------------------------- world
class World:
    def __init__(self, config='default'):
        self.config = config
        t0 = time.time()
        self.dir, self.tree_hash = facts.ensure(config)
        self.extract_wait_s = time.time() - t0
        self._hir = {}
        self._mir = {}
        self._fn_index = None
        self._mir_index = None
        self._impl_index = None
        self._cg = None
        self.meta = json.load(open(os.path.join(self.dir, 'META.json')))

    def crates(self):
        return [c for c in CRATES if os.path.exists(os.path.join(self.dir, f'midnight_{c}.hir.json'))]

    def hir(self, crate):
        if not getattr(self, '_renames_done', False):
            self._renames_done = True
            self.renamed = detect_renames(self)
        if crate not in self._hir:
            self._hir[crate] = facts.load(self.dir, crate, 'hir')
            self.inlined = getattr(self, 'inlined', {})
            self.inlined[crate] = inline_new_helpers(self._hir[crate]['fns'], reference_fn_ids())
        return self._hir[crate]

    def mir(self, crate):
        if crate not in self._mir:
            self._mir[crate] = facts.load(self.dir, crate, 'mir')
        return self._mir[crate]

    # ---- HIR functions
    def fn_index(self):
        if self._fn_index is None:
            idx = defaultdict(list)
            self._fnx = {}
            for c in self.crates():
                for f in self.hir(c)['fns']:
                    f['_crate'] = c
                    f['_nid'] = norm(f['id'])
                    f['_xid'] = normx(f['id'])
                    idx[f['_nid']].append(f)
                    self._fnx.setdefault(f['_xid'], f)
            self._fn_index = idx
        return self._fn_index

    def fn_x(self, xid, required=True):
        """function by precise id (falls back to the loose id when that is unambiguous)"""
        self.fn_index()
        f = self._fnx.get(xid)
        if f is None:
            l = self._fn_index.get(xid, [])
            if len(l) == 1:
                f = l[0]
        if f is None and required:
            raise AnchorMissing(f'function not found (or ambiguous): {xid}')
        return f

    def fns_x_of(self, nid):
        """all functions sharing a loose id (several impls of one trait for one type)"""
        self.fn_index()
        return list(self._fn_index.get(nid, []))

    def closure_calling(self, parent, pred):
        """id of the closure body of `parent` (any nesting, any number) whose MIR calls a callee satisfying pred; falls back to closure#0"""
        self.mir_index()
        cands = sorted(x for x in self._mir_index if x.startswith(parent + '::{closure#'))

        def direct(x):
            return any(blk['t'].get('k') == 'call' and pred(mir_callee(blk['t']) or '') for b in self.mir_bodies(x) for blk in b['blocks'])
        for x in cands:
            if direct(x):
                return x
        # the closure body may have moved into a NEW helper (a function that does not exist on the reference tree): follow the calls of the parent and
        # of its closures into such helpers
        ref = reference_fn_ids()
        if ref:
            seen, front = set(), [parent] + cands
            for _ in range(3):
                nxt = []
                for x in front:
                    for b in self.mir_bodies(x):
                        for blk in b['blocks']:
                            c = mir_callee(blk['t']) if blk['t'].get('k') == 'call' else None
                            if c and c not in ref and c in self._mir_index and c not in seen:
                                seen.add(c)
                                nxt.append(c)
                for c in nxt:
                    if direct(c):
                        return c
                front = nxt
        return parent + '::{closure#0}'

    def all_fns(self, crates=None):
        for c in (crates or self.crates()):
            for f in self.hir(c)['fns']:
                if '_nid' not in f:
                    self.fn_index()
                yield f

    def fn(self, nid, required=True):
        """Unique function by normalised id; raises AnchorMissing if absent."""
        l = self.fn_index().get(nid, [])
        if not l:
            if required:
                raise AnchorMissing(f'function not found: {nid}')
            return None
        return l[0]

    def fns_by_suffix(self, suffix):
        return [f for k, l in self.fn_index().items() if k.endswith(suffix) for f in l]

    def find_fns(self, pred):
        return [f for f in self.all_fns() if pred(f)]

    def adts(self):
        for c in self.crates():
            for a in self.hir(c)['adts']:
                yield a

    def adt(self, nid, required=True):
        for a in self.adts():
            if norm(a['id']) == nid:
                return a
        if required:
            raise AnchorMissing(f'ADT not found: {nid}')
        return None

    def impls(self):
        for c in self.crates():
            for i in self.hir(c)['impls']:
                i['_crate'] = c
                yield i

    # ---- MIR
    def mir_index(self):
        if self._mir_index is None:
            idx = {}
            self._mir_all = defaultdict(list)
            self._mirx = {}
            for c in self.crates():
                for b in self.mir(c)['bodies']:
                    b['_crate'] = c
                    b['_nid'] = norm(b['id'])
                    b['_xid'] = normx(b['id'])
                    idx.setdefault(b['_nid'], b)
                    self._mir_all[b['_nid']].append(b)
                    self._mirx.setdefault(b['_xid'], b)
            self._mir_index = idx
            ref = reference_fn_ids()
            if ref:
                from .engines import mustcall as _mc
                _mc.NEW_HELPERS.clear()
                _mc.NEW_HELPERS.update({nid: bs for nid, bs in self._mir_all.items() if nid not in ref and '{closure' not in nid})
        return self._mir_index

    def mir_bodies(self, nid):
        """all bodies sharing a loose id (several impls of one trait for one type)"""
        self.mir_index()
        return self._mir_all.get(nid, [])

    def mir_body_x(self, xid, required=True):
        self.mir_index()
        b = self._mirx.get(xid)
        if b is None:
            l = self._mir_all.get(xid, [])
            if len(l) == 1:
                b = l[0]
        if b is None and required:
            raise AnchorMissing(f'MIR body not found (or ambiguous): {xid}')
        return b

    def mir_body(self, nid, required=True):
        b = self.mir_index().get(nid)
        if b is None and required:
            raise AnchorMissing(f'MIR body not found: {nid}')
        return b

    # ---- impl index: trait method -> impl fn ids
    def impl_index(self):
        if self._impl_index is None:
            idx = defaultdict(list)
            for f in self.all_fns():
                imp = f.get('impl')
                if imp and imp.get('trait'):
                    idx[norm(imp['trait']) + '::' + f['name']].append(f['_nid'])
            self._impl_index = idx
        return self._impl_index

    # ---- call graph over MIR bodies (closures are separate bodies linked from parents)
    def callgraph(self):
        if self._cg is None:
            self._cg = CallGraph(self)
        return self._cg


# --------------------------------------------------------------------------- helper extraction
_REF_FNS = None


def reference_fn_ids():
    """ids of every function of the reference tree (rules/fn_index.json, all feature configurations); None when the table is absent"""
    global _REF_FNS
    if _REF_FNS is None:
        p = os.path.join(facts.VERIF, 'rules', 'fn_index.json')
        if os.path.exists(p):
            d = json.load(open(p))
            _REF_FNS = frozenset(d['all'] if isinstance(d, dict) else d)
        else:
            _REF_FNS = False
    return _REF_FNS or None


def fn_fingerprint(f):
    """what a rename leaves unchanged: kind, impl header, parameter and result types, visibility"""
    import hashlib
    imp = f.get('impl') or {}
    t = '|'.join([f.get('kind', ''), str(imp.get('self', '')), str(imp.get('trait', '')), ','.join(f.get('inputs', [])), str(f.get('output', '')), str(f.get('vis', ''))])
    return hashlib.sha256(t.encode()).hexdigest()[:10]


def reference_fn_table(config):
    """{id: [fingerprints]} of the reference tree under one feature configuration (rules/fn_index.json)"""
    p = os.path.join(facts.VERIF, 'rules', 'fn_index.json')
    if not os.path.exists(p):
        return None
    d = json.load(open(p))
    return d.get('configs', {}).get(config) if isinstance(d, dict) else None


def detect_renames(world):
    """Functions of the reference tree that are missing here, matched with NEW functions of the same parent path and the same fingerprint (one to one):
    a rename.  Fills RENAMES so that the renamed function (its closures, and every call of it) is seen under its reference name."""
    ref = reference_fn_table(world.config)
    if not ref:
        return {}
    RENAMES.clear()
    cur = defaultdict(list)
    precise = defaultdict(set)
    for c in world.crates():
        if c not in world._hir:
            world._hir[c] = facts.load(world.dir, c, 'hir')
        for f in world._hir[c]['fns']:
            nid = _norm_raw(f['id'])
            cur[nid].append(fn_fingerprint(f))
            precise[nid].add(_norm_raw(f['id'], True))
    missing = [m for m in ref if m not in cur and '{closure' not in m]
    new = [n for n in cur if n not in ref and '{closure' not in n]
    if not missing or not new:
        _finish_hir_load(world)
        return {}
    cand = defaultdict(list)
    for m in missing:
        par = m.rsplit('::', 1)[0]
        for n in new:
            if n.rsplit('::', 1)[0] == par and sorted(cur[n]) == sorted(ref[m]):
                cand[m].append(n)
    claimed = defaultdict(list)
    for m, ns in cand.items():
        if len(ns) == 1:
            claimed[ns[0]].append(m)
    out = {}
    for n, ms in claimed.items():
        if len(ms) == 1:
            m = ms[0]
            out[n] = m
            RENAMES[n] = m
            old_name = m.rsplit('::', 1)[1]
            for px in precise[n]:
                RENAMES[px] = px.rsplit('::', 1)[0] + '::' + old_name
    _finish_hir_load(world)
    return out


def _finish_hir_load(world):
    """the crates loaded by detect_renames still need the per-crate post-processing of World.hir()"""
    world.inlined = getattr(world, 'inlined', {})
    for c, h in world._hir.items():
        if c not in world.inlined:
            for f in h['fns']:
                f.pop('_nid', None)
                f.pop('_xid', None)
            world.inlined[c] = inline_new_helpers(h['fns'], reference_fn_ids())


def _shift_locals(n, base):
    """add `base` to every local id of a (copied) HIR subtree: nodes {n: name, i: int}"""
    stack = [n]
    while stack:
        x = stack.pop()
        if isinstance(x, dict):
            if isinstance(x.get('i'), int) and isinstance(x.get('n'), str):
                x['i'] += base
            stack.extend(v for v in x.values() if isinstance(v, (dict, list)))
        elif isinstance(x, list):
            stack.extend(v for v in x if isinstance(v, (dict, list)))


def _is_err_value(e):
    e = peel(e) if isinstance(e, dict) else {}
    c = (e.get('f') or e.get('p') or '') if e.get('k') in ('call', 'path') else ''
    if e.get('k') == 'call' and not c and isinstance(e.get('fe'), dict):
        c = e['fe'].get('p') or ''
    return c.endswith('Result::Err') or c.endswith('::Err')


def inline_new_helpers(fns, ref_ids, max_depth=3):
    """Helper extraction is behaviour preserving: a function that does not exist on the reference tree (a NEW helper) is expanded at its call sites
    (same crate, unambiguous id, no recursion), so that the intra-procedural rules see the caller as it was before the extraction.
    call f(a, b)  ==>  block { let <param0> = a; let <param1> = b; <body of f> }     (locals renumbered; `return v` of the helper becomes the value of
    the block — kind `iret` — unless v is an Err(..): an error returned by a helper called with `?` leaves the caller as well).
    Returns {caller id: [inlined helper ids]}."""
    import copy
    if not ref_ids:
        return {}
    by_id = defaultdict(list)
    for f in fns:
        if '_nid' not in f:
            f['_nid'] = norm(f['id'])
            f['_xid'] = normx(f['id'])
        by_id[f['_nid']].append(f)
    new = {nid: l[0] for nid, l in by_id.items() if nid not in ref_ids and len(l) == 1 and 'body' in l[0] and '{closure' not in nid}
    if not new:
        return {}
    pristine = {nid: copy.deepcopy(f['body']) for nid, f in new.items()}
    done = {}
    counter = [0]

    def expand(node, chain, caller):
        """rewrite call nodes below `node` in place"""
        stack = [node]
        while stack:
            x = stack.pop()
            if isinstance(x, list):
                stack.extend(v for v in x if isinstance(v, (dict, list)))
                continue
            if x.get('k') in ('call', 'mcall'):
                c = callee(x)
                h = new.get(c) if c else None
                if h is not None and c not in chain and len(chain) < max_depth:
                    args = ([x['recv']] if x.get('k') == 'mcall' else []) + list(x.get('args', []))
                    params = copy.deepcopy(h.get('params', []))
                    if len(params) == len(args):
                        counter[0] += 1
                        base = 100000 * counter[0]
                        body = copy.deepcopy(pristine[c])
                        _shift_locals(body, base)
                        _shift_locals(params, base)
                        for r in walk(body, into_closures=False):
                            if r.get('k') == 'ret' and 'e' in r and not _is_err_value(r['e']):
                                r['k'] = 'iret'
                        lets = [dict(k='let', l=x.get('l'), pat=p_, init=a) for p_, a in zip(params, args)]
                        keep = {kk: x[kk] for kk in ('l', 't', 'x') if kk in x}
                        x.clear()
                        x.update(keep)
                        x.update(k='block', ss=lets, e=body, inl=c)
                        done.setdefault(caller, []).append(c)
                        expand(x['e'], chain + [c], caller)
                        stack.extend(l_['init'] for l_ in lets)
                        continue
            stack.extend(v for v in x.values() if isinstance(v, (dict, list)))

    for f in fns:
        if 'body' in f and isinstance(f['body'], dict):
            expand(f['body'], [f['_nid']] if f['_nid'] in new else [], f['_nid'])
    return done


def alias_roots(body):
    """{local id: local id it merely renames}: `let a = b;`, `let a = &b;`, `let a = b.as_ref();`, `let a = b.clone();` (as produced, in particular, by
    the expansion of a new helper, whose parameters are bound to the arguments with `let`); chains are followed"""
    al = {}
    for x in walk(body):
        if x.get('k') == 'let' and 'init' in x and x.get('pat', {}).get('k') == 'bind':
            e = peel(x['init'])
            while True:
                if e.get('k') in ('ref', 'addr', 'deref', 'un', 'cast') and isinstance(e.get('e'), dict):
                    e = peel(e['e'])
                elif e.get('k') == 'mcall' and e.get('m') in ('as_ref', 'clone', 'borrow', 'as_slice', 'iter') and not e.get('args'):
                    e = peel(e['recv'])
                else:
                    break
            if e.get('k') == 'local':
                al[x['pat']['i']] = e['i']

    def root(i, depth=0):
        return root(al[i], depth + 1) if i in al and depth < 20 else i
    return {i: root(i) for i in al}


class AnchorMissing(Exception):
    pass


def mir_callee(t):
    f = t.get('rs') or t.get('f')
    return norm(f) if f else None


class CallGraph:
    def __init__(self, w):
        self.w = w
        self.edges = defaultdict(set)      # caller nid -> callee nid (workspace or external)
        self.sites = defaultdict(list)     # caller nid -> [(bb, term, callee nid, resolved:bool)]
        midx = w.mir_index()
        impl_idx = w.impl_index()
        allb = [(nid, b) for nid in midx for b in w.mir_bodies(nid)]
        for nid, b in allb:
            for bi, blk in enumerate(b['blocks']):
                for s in blk['s']:
                    if s.get('k') == 'Agg:Closure' and 'agg' in s:
                        c = norm(s['agg'])
                        self.edges[nid].add(c)
                t = blk['t']
                if t.get('k') != 'call':
                    continue
                # function items passed as arguments (e.g. `.map(Self::foo)`) are edges too
                for a in t.get('args', []):
                    if isinstance(a, dict) and 'fn' in a:
                        self.edges[nid].add(norm(a['fn']))
                cal = mir_callee(t)
                if cal is None:
                    continue
                targets = [cal]
                resolved = True
                if 'rs' not in t and cal not in midx:
                    # unresolved trait method: fan out to workspace impls
                    impls = impl_idx.get(cal)
                    if impls:
                        targets = list(impls) + [cal]
                        resolved = False
                for tg in targets:
                    self.edges[nid].add(tg)
                self.sites[nid].append((bi, t, cal, resolved))

    def reachable(self, roots, stop=lambda nid: False):
        """BFS; returns {nid: parent nid} for workspace bodies and external leaves."""
        parent = {}
        dq = deque()
        for r in roots:
            if r not in parent:
                parent[r] = None
                dq.append(r)
        midx = self.w.mir_index()
        while dq:
            x = dq.popleft()
            if x not in midx or stop(x):
                continue
            for y in sorted(self.edges.get(x, ())):
                if y not in parent:
                    parent[y] = x
                    dq.append(y)
        return parent

    @staticmethod
    def path_to(parent, nid):
        p = []
        while nid is not None:
            p.append(nid)
            nid = parent.get(nid)
        return list(reversed(p))


# --------------------------------------------------------------------------- CFG utilities
def successors(body, include_unwind=False):
    succ = []
    for blk in body['blocks']:
        t = blk['t']
        k = t.get('k')
        s = []
        if k == 'goto':
            s = [t['t']]
        elif k == 'switch':
            s = list(t['ts'])
        elif k in ('call', 'assert', 'drop'):
            if 't' in t:
                s = [t['t']]
            if include_unwind and 'uw' in t:
                s.append(t['uw'])
        succ.append(s)
    return succ


def dominators(succ, root=0):
    """Iterative dominator sets as bitsets (small bodies) -> idom via Cooper-Harvey-Kennedy."""
    n = len(succ)
    preds = [[] for _ in range(n)]
    for i, ss in enumerate(succ):
        for s in ss:
            preds[s].append(i)
    # reverse postorder
    order, seen = [], [False] * n
    stack = [(root, iter(succ[root]))]
    seen[root] = True
    while stack:
        node, it = stack[-1]
        adv = False
        for s in it:
            if not seen[s]:
                seen[s] = True
                stack.append((s, iter(succ[s])))
                adv = True
                break
        if not adv:
            order.append(node)
            stack.pop()
    rpo = list(reversed(order))
    idx = {b: i for i, b in enumerate(rpo)}
    idom = {root: root}
    changed = True
    while changed:
        changed = False
        for b in rpo[1:]:
            new = None
            for p in preds[b]:
                if p in idom:
                    if new is None:
                        new = p
                    else:
                        a, c = p, new
                        while a != c:
                            while idx[a] > idx[c]:
                                a = idom[a]
                            while idx[c] > idx[a]:
                                c = idom[c]
                        new = a
            if new is not None and idom.get(b) != new:
                idom[b] = new
                changed = True
    return idom


def dominates(idom, a, b):
    """a dominates b"""
    if b not in idom:
        return False
    while True:
        if a == b:
            return True
        p = idom.get(b)
        if p is None or p == b:
            return False
        b = p


def reach_from(succ, start, blocked=()):
    seen = set()
    st = [start]
    while st:
        x = st.pop()
        if x in seen or x in blocked:
            continue
        seen.add(x)
        st.extend(succ[x])
    return seen


def return_blocks(body):
    return [i for i, blk in enumerate(body['blocks']) if blk['t'].get('k') == 'ret']


def must_pass(body, targets_pred, ok_return_pred=None):
    """True if every path entry -> Return(ok) passes a block satisfying targets_pred.
    Decided by deleting the target blocks and testing reachability of (ok) return blocks."""
    succ = successors(body)
    blocked = {i for i, blk in enumerate(body['blocks']) if targets_pred(i, blk)}
    seen = reach_from(succ, 0, blocked)
    rets = [r for r in return_blocks(body) if (ok_return_pred is None or ok_return_pred(r))]
    bad = [r for r in rets if r in seen]
    return (not bad), bad, blocked
