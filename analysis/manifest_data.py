"""What is claimed, at which level, and what is not applicable (with reason)."""
STATIC_NOTE = ('Trusted base: nightly rustc front-end (HIR/typeck/MIR) as the meaning of the source; frozen repository-specific tables '
               '(analysis/tables.py); external crates are call-graph leaves. Decides the named structural clauses only — '
               'necessary conditions of the behavioural property — not the algebra/numerics.')

CLAIMED = {
    'C01': dict(
        text='Static Fiat–Shamir schedule duality: the full transcript schedule of create_proof and of prepare (with every argument helper and the KZG '
             'multi-opening inlined) is extracted from HIR as a tree of operations under symbolic loop domains inferred by shape analysis, normalised and '
             'compared: prover = dual(verifier) = golden protocol schedule. Holds for every number of proofs / instance-column split / phases / lookups / '
             'permutation sets / trashcans at once — exactly the configurations the one-proof suite never runs. Necessary condition of completeness; '
             'numerical agreement of commitments/evaluations is not decided.',
        note=STATIC_NOTE + ' Golden schedule and the four domain alias tables are in analysis/tables.py.',
        technique='static analysis: HIR effect-schedule extraction + shape inference + normal-form comparison (sibling duality)'),
    'C02': dict(
        text='Static COVER and sibling rules: each of the four checkers of a constraint system (prover numerator, verifier, in-circuit verifier, mock checker) '
             'reads every constraint class (gates, permutation, lookups, trashcans) outside shape-only helpers; verifier-side identity-group counts per argument '
             'are at least the protocol\'s; the expected quotient evaluation is folded, divided by x^n-1, stored and opened; every evaluation read after x is both '
             'opened and used in an identity; copy constraints reach the permutation assembly. Necessary conditions for "every constraint class is enforced"; '
             'the algebra of each identity is not decided.',
        note=STATIC_NOTE,
        technique='static analysis: MIR field-read coverage over call closures + HIR structural counts + must-call'),
    'C03': dict(
        text='Static rules (must-call, who-may-call, CHECKED decoders, field COVER, dominance guards) over the resolved program: '
             'every decoded proof element is absorbed, decoders are the checked ones, the vk identity covers every part of the key, '
             'trailing bytes and public-input count are checked on every success path. Necessary conditions, enumerated exhaustively over all call sites.',
        note=STATIC_NOTE,
        technique='static analysis: MIR must-call/dominance + call-graph who-may-call + HIR field coverage'),
    'C15': dict(
        text='Static rules over the batch-verification code: per-member must-call order (prepare → member summary → absorb into batching '
             'transcript → assert_empty), batching challenge squeezed after all members, fold scales+adds every guard, final pairing check '
             'on every non-empty success path, both MSM channels touched, accumulators hash all inputs, and a triaged panic inventory of '
             'the batch APIs (empty / mismatched batches must yield a Result). Necessary conditions; the probabilistic iff is not decided.',
        note=STATIC_NOTE,
        technique='static analysis: MIR must-call/post-dominance + HIR dataflow + panic-site inventory'),
    'C16': dict(
        text='Static totality analysis of the decode/verify entry points: field- and parameter-sensitive untrusted-integer taint (HIR, global '
             'fixpoint) from byte-decoded integers / decoded struct fields / integers read from proofs to panic and allocation sinks, '
             'accepted only under a dominating escaping conditional; plus GUARD rules pinning the version / k / extended-k / architecture '
             'checks and CHECKED rules for the per-format point decoders. Exhaustive over all functions reachable from the entry points; '
             'decides absence of the enumerated sink classes, not termination time.',
        note=STATIC_NOTE + ' Taint triage table: analysis/tables.py C16_TAINT_TRIAGE (one reason per accepted flow).',
        technique='static analysis: inter-procedural taint (HIR) + dominance guards + checked-decoder call-graph rules'),
    'C18': dict(
        text='Static sibling-table rules for the two ZKIR interpreters: variant exhaustiveness in every per-operation table, arity/index agreement '
             'with the load-time arity check, per-operation type-domain agreement (canonicalised match arms, guards and TryFrom conversion targets), '
             'taint of decoded program constants to panic sinks, chip-accessor enablement against used_chips, public-input type bookkeeping and '
             'encode/decode type agreement. Decides agreement of the accepted *domains* and totality clauses; value-level agreement of the two '
             'interpreters is not decided.',
        note=STATIC_NOTE,
        technique='static analysis: HIR match-arm tables (sibling cross-check) + taint + call-graph reachability per interpreter arm'),
    'C20': dict(
        text='Three-way Fiat–Shamir schedule duality by static extraction (same engine as C01): in-circuit verifier gadget = off-circuit verifier specialised to '
             'one proof / one phase; LightAggregator::aggregate_proofs = dual of ::verify on the outer transcript with length-prefixed sections; ipa_prove = '
             'dual of ipa_verify; plus must-call rules for the aggregator circuit (finalize, accumulator exposure, per-proof verification) and the '
             'aggregated verifier. Decides that the three parties read/write/squeeze the same sequence for every configuration; arithmetic equality and IPA '
             'soundness are not decided.',
        note=STATIC_NOTE,
        technique='static analysis: HIR effect-schedule extraction + normal-form comparison; MIR must-call'),
    'C04': dict(
        text="Constraint-flow static lints over the native-field gadgets: hint coverage of every assign_advice site by an activated constraint (offset-root matching), no dead assigned-cell value in gadget code, who-may-construct discipline for invariant-carrying types and *_unsafe hatches, and a frozen must-call table of unconditional constraint-emitting calls. Necessary conditions for 'no unconstrained hint / no dropped constraint'; the algebra (coefficients, formulas, bounds) is explicitly not decided.",
        note=STATIC_NOTE + ' Frozen tables: rules/d4_sites.json, rules/mustcall.json (generated once by tools/gen_rules.py from the reference tree, reviewed, never regenerated at run time), analysis/tables.py D1_TABLE / D3_TABLE.',
        technique='static analysis: HIR/MIR constraint-flow lints (hint coverage, dead values, typestate who-may-construct, must-call)'),
    'C05': dict(
        text="Constraint-flow static lints over the foreign-field and big-integer gadgets: hint coverage of every assign_advice site by an activated constraint (offset-root matching), no dead assigned-cell value in gadget code, who-may-construct discipline for invariant-carrying types and *_unsafe hatches, and a frozen must-call table of unconditional constraint-emitting calls. Necessary conditions for 'no unconstrained hint / no dropped constraint'; the algebra (coefficients, formulas, bounds) is explicitly not decided.",
        note=STATIC_NOTE + ' Frozen tables: rules/d4_sites.json, rules/mustcall.json (generated once by tools/gen_rules.py from the reference tree, reviewed, never regenerated at run time), analysis/tables.py D1_TABLE / D3_TABLE.',
        technique='static analysis: HIR/MIR constraint-flow lints (hint coverage, dead values, typestate who-may-construct, must-call)'),
    'C06': dict(
        text="Constraint-flow static lints over the elliptic-curve gadgets: hint coverage of every assign_advice site by an activated constraint (offset-root matching), no dead assigned-cell value in gadget code, who-may-construct discipline for invariant-carrying types and *_unsafe hatches, and a frozen must-call table of unconditional constraint-emitting calls. Necessary conditions for 'no unconstrained hint / no dropped constraint'; the algebra (coefficients, formulas, bounds) is explicitly not decided.",
        note=STATIC_NOTE + ' Frozen tables: rules/d4_sites.json, rules/mustcall.json (generated once by tools/gen_rules.py from the reference tree, reviewed, never regenerated at run time), analysis/tables.py D1_TABLE / D3_TABLE.',
        technique='static analysis: HIR/MIR constraint-flow lints (hint coverage, dead values, typestate who-may-construct, must-call)'),
    'C07': dict(
        text="Constraint-flow static lints over the hash chips and the third-party hash wrappers: hint coverage of every assign_advice site by an activated constraint (offset-root matching), no dead assigned-cell value in gadget code, who-may-construct discipline for invariant-carrying types and *_unsafe hatches, and a frozen must-call table of unconditional constraint-emitting calls. Necessary conditions for 'no unconstrained hint / no dropped constraint'; the algebra (coefficients, formulas, bounds) is explicitly not decided.",
        note=STATIC_NOTE + ' Frozen tables: rules/d4_sites.json, rules/mustcall.json (generated once by tools/gen_rules.py from the reference tree, reviewed, never regenerated at run time), analysis/tables.py D1_TABLE / D3_TABLE.',
        technique='static analysis: HIR/MIR constraint-flow lints (hint coverage, dead values, typestate who-may-construct, must-call)'),
    'C19': dict(
        text="Constraint-flow static lints over the in-circuit automaton / base64 / parser chips (only this half of the property): hint coverage of every assign_advice site by an activated constraint (offset-root matching), no dead assigned-cell value in gadget code, who-may-construct discipline for invariant-carrying types and *_unsafe hatches, and a frozen must-call table of unconditional constraint-emitting calls. Necessary conditions for 'no unconstrained hint / no dropped constraint'; the algebra (coefficients, formulas, bounds) is explicitly not decided.",
        note=STATIC_NOTE + ' Frozen tables: rules/d4_sites.json, rules/mustcall.json (generated once by tools/gen_rules.py from the reference tree, reviewed, never regenerated at run time), analysis/tables.py D1_TABLE / D3_TABLE.',
        technique='static analysis: HIR/MIR constraint-flow lints (hint coverage, dead values, typestate who-may-construct, must-call)'),
    'C08': dict(
        text='Static sibling rules between the in-circuit exposure and the off-circuit encoding: every Instantiable type has an exposure impl; in each impl '
             'constrain_as_public_input constrains exactly the as_public_input vector (call + iteration / delegation / same fields) and assign_as_public_input '
             'is assign + constrain or a delegation; Layouter::constrain_instance is reachable only through the two counting primitives, each bumping its row '
             'counter once; the count flows synthesize → setup_vk → key → verify. Value-level equality and injectivity of encodings are not decided.',
        note=STATIC_NOTE,
        technique='static analysis: impl pairing (PAIR), HIR call/field sibling rules, who-may-call'),
    'C09': dict(
        text='Non-interference by static effect analysis: Value is opaque outside midnight-proofs (privacy + who-may-call of its two escape hatches), every closure '
             'handed to a Value combinator in the four downstream crates is enumerated and must be pure w.r.t. circuit structure (no mutable capture, no '
             'Region/Layouter/Selector/ConstraintSystem/RefCell API, no write to captured places; tabled exceptions each carry a checked containment rule), the '
             'keygen and proving back-ends partition structure/witness, and lazy tables depend only on flags set outside value closures. A sufficient-condition '
             'argument for "structure is independent of witnesses", exhaustive over all closures; witness-conditioned panics are out of scope.',
        note=STATIC_NOTE + ' Trusted: the list of Value combinators and the absence of unsafe transmutes of Value.',
        technique='static analysis: type-directed effect analysis of closures (HIR captures + calls) + who-may-call'),
    'C10': dict(
        text='Decides ONLY the decoder clause: every checked field decoder of the exported fields reaches the modulus comparison of its type, uses its result and '
             'returns failures (CHECKED table over the call graph, with result liveness). Field arithmetic, constants, towers, square roots and uniform reduction '
             'are numerical and explicitly not decided by this technique.',
        note=STATIC_NOTE + ' The claim covers one clause of the property (decoders); the rest is out of reach of static analysis.',
        technique='static analysis: call-graph CHECKED-decoder rules with result liveness'),
    'C11': dict(
        text='Decides ONLY the decoder clause: compressed / uncompressed / raw / GroupEncoding decoders and coordinate constructors of every exported curve reach '
             'their on-curve, subgroup and canonicity validators, use the results, never unwrap a failed decode, and strictly add validators to their unchecked '
             'twins. The group law and coordinate-system consistency are numerical and explicitly not decided.',
        note=STATIC_NOTE + ' The claim covers one clause of the property (decoders); the rest is out of reach of static analysis.',
        technique='static analysis: call-graph CHECKED-decoder rules, checked/unchecked twin comparison'),
    'C14': dict(
        text='Static rules for the KZG multi-opening: three-way transcript schedule duality (multi_open / multi_prepare / in-circuit multi_prepare), '
             'duplicate-query refusal present in both copies of construct_intermediate_sets and propagated by all callers, and liveness of every value '
             'the verifier reads. Structural necessary conditions; the opening algebra is not decided.',
        note=STATIC_NOTE,
        technique='static analysis: HIR effect-schedule duality + guard/propagation rules + liveness'),
    'C17': dict(
        text='Byte-stream schedule duality by static extraction for 13 write/read pairs (widths, endianness, group/raw encodings, bincode-instantiated types, '
             'loops paired with their length prefixes, per-format case split), determinism lints over everything reachable from key generation '
             '(RandomState iteration, randomness, time; each hash iteration triaged for order-insensitivity), pinned views free of hash containers, '
             'proving-key rebuild call-set agreement, downsize recomputation. Byte-identity across thread counts is not decided.',
        note=STATIC_NOTE,
        technique='static analysis: HIR effect-schedule duality (io vocabulary) + call-graph determinism lints'),
}

CLAIMED['C12'] = dict(
    text='PARTIAL claim — the structural clauses of a numerical property. Decided from HIR: (R1) identity bases never reach the batch-affine path of msm_best '
         '(every Schedule::add site is control-dependent on an is_identity test; no coordinates() result is unwrapped without an existence test) — the clause '
         '"for all inputs, including identity bases, any length" (repaired defect: from 8104 bases on an identity base made msm_best panic); (R2) scalars and '
         'bases are split by the same chunk expression in every parallel driver and the asserting entry points assert equal lengths — the clause "any number of '
         'worker threads"; (R3) the type-punned blst fast path of msm_specific lies under its TypeId test; (R4) best_fft keeps its size precondition; (R5) the '
         'empty MSM is answered before blst indexes its first point; N1/N2 operation and narrowing profiles of the anchor files (msm.rs, fft.rs, domain.rs, '
         'arithmetic.rs, rational.rs, kzg/msm.rs, kzg/params.rs, poly/mod.rs). NOT decided, and not claimed: that Booth windows, bucket sums, butterflies, coset '
         'and vanishing-polynomial algebra, Lagrange evaluation and polynomial division compute the right VALUES — those clauses are numerical and no static '
         'argument in reach bounds them.',
    note=STATIC_NOTE + ' The numerical clauses of C12 (the bulk of its statement) are explicitly out of reach of this technique; see DESIGN.md §I.4.',
    technique='static analysis: HIR control-dependence (guard) rules + sibling chunk-expression agreement + operation / narrowing profiles against the reference tree',
    design_ref='DESIGN.md Part I §I.3 C12 and §I.4 (what is not decided)')

CLAIMED['C13'] = dict(
    text='PARTIAL claim — the structural clauses of an algebraic property. Decided from HIR and the call graph: (R1) identity points never reach the line-table code '
         '(blst_miller_loop_lines only in the non-identity arm of a test of BOTH points — a prepared identity has an empty line table, so this is also the memory-safety '
         'condition of the raw-pointer read; blst_precompute_lines only for a non-identity point) — the clause "e(P, Q) is the identity iff P or Q is"; (R2) every pairing '
         'entry point (Engine::pairing, both pairing_with) reaches the one core bls_pairing::pairing and nothing else calls blst_miller_loop — the clause "consistent across '
         'entry points"; (R3) a Gt value is a Miller loop followed by exactly one final exponentiation; (R4) the neutral Miller-loop value is Fp12::ONE (empty product, identity '
         'pairs); N1/N2 profiles of bls_pairing.rs, gt.rs, fp12.rs, g2.rs, bls12_381/mod.rs, kzg/msm.rs. NOT decided, and not claimed: bilinearity and non-degeneracy on '
         'non-identity points (values computed inside blst), the Fp12 arithmetic behind Gt, and the BN254 dev-curve engine (generated by an external macro crate).',
    note=STATIC_NOTE + ' The algebraic clauses of C13 (bilinearity, non-degeneracy) are explicitly out of reach of this technique; see DESIGN.md §I.4.',
    technique='static analysis: HIR control-dependence (guard polarity) rules + call-graph routing of sibling entry points + must-call order + operation / narrowing profiles',
    design_ref='DESIGN.md Part I §I.3 C13 and §I.4 (what is not decided)')

NOT_APPLICABLE = {
}
# properties still being built are listed not-applicable-yet until their check exists
for _p, _why in {
    'C01': 'check under construction (schedule duality engine)', 'C02': 'check under construction', 'C04': 'check under construction',
    'C05': 'check under construction', 'C06': 'check under construction', 'C07': 'check under construction', 'C08': 'check under construction',
    'C09': 'check under construction', 'C10': 'check under construction', 'C11': 'check under construction', 'C14': 'check under construction',
    'C15': 'check under construction', 'C16': 'check under construction', 'C17': 'check under construction', 'C18': 'check under construction',
    'C19': 'check under construction', 'C20': 'check under construction',
}.items():
    if _p not in CLAIMED:
        NOT_APPLICABLE[_p] = _why

NOTES = ('Technique family: static analysis. All checks share one fact extraction (driver/) per tree state, cached under .cache/ by a hash of '
         '/repo\'s working tree; every run re-hashes /repo. Exit 0 = all rule instances hold (known findings aside), 1 = VIOLATION, 2 = CHECK-ERROR. '
         'Known findings: /verif/known_findings.json (committed; `finding` rows print KNOWN-FINDING lines and are matched by exact (property, rule, key); '
         '`fixed` rows document the fix: commits made to /repo and suppress nothing). No hooks: /repo carries only unguarded fix: commits. '
         'Seeded changes by independent sub-agents: /verif/seeded/<id>/ (patch.diff, demo.diff, notes.md, meta.json); they and selftest/ form the '
         'checker-must-fire suite run by the thorough tier on scratch copies of the current tree (never on /repo).')
