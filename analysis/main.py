import argparse, importlib, json, os, sys, traceback
from . import facts
from .framework import Check
from .core import AnchorMissing


def main():
    ap = argparse.ArgumentParser()
    ap.add_argument('prop')
    ap.add_argument('--tier', default=os.environ.get('VERIF_TIER', 'quick'))
    ap.add_argument('--replay', default=None)
    a = ap.parse_args()
    tier = a.tier if a.tier in ('quick', 'thorough') else 'quick'
    seed = int(os.environ.get('VERIF_SEED', '0') or 0)
    prop = a.prop.upper()
    try:
        mod = importlib.import_module(f'analysis.props.{prop.lower()}')
    except ModuleNotFoundError:
        print(f'CHECK-ERROR: no check for {prop}')
        return 2
    ck = Check(prop, tier, seed)
    try:
        mod.run(ck)
    except facts.CheckError as e:
        print(f'CHECK-ERROR: {e}')
        return 2
    except AnchorMissing as e:
        ck.bad('anchor', str(e), f'anchor missing — {e} (rule precondition: needs triage)')
    rc = ck.finish()
    if a.replay:
        try:
            r = json.load(open(a.replay))
            hit = [i for i in ck.instances if i['rule'] == r['rule'] and i['key'] == r['key']]
            for i in hit:
                print(f"REPLAY {r['rule']} {r['key']}: {'holds now' if i['ok'] else 'STILL VIOLATED: ' + i['what']}")
            return 1 if any(not i['ok'] for i in hit) else 0
        except Exception as e:
            print(f'CHECK-ERROR: cannot replay {a.replay}: {e}')
            return 2
    return rc


if __name__ == '__main__':
    sys.exit(main())
