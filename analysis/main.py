import argparse, importlib, json, os, sys, traceback
from . import facts
from .framework import Check
from .core import AnchorMissing


def main():
    ap = argparse.ArgumentParser()
    ap.add_argument('prop')
    ap.add_argument('--tier', default=os.environ.get('VERIF_TIER', 'quick'))
    ap.add_argument('--replay', default=None)
    a = ap.parse_args()
    tier = a.tier if a.tier in ('quick', 'thorough') else 'quick'
    seed = int(os.environ.get('VERIF_SEED', '0') or 0)
    prop = a.prop.upper()
    try:
        mod = importlib.import_module(f'analysis.props.{prop.lower()}')
    except ModuleNotFoundError:
        print(f'CHECK-ERROR: no check for {prop}')
        return 2
    ck = Check(prop, tier, seed)
    try:
        mod.run(ck)
        scoped_rules(ck, prop)
    except facts.CheckError as e:
        print(f'CHECK-ERROR: {e}')
        return 2
    except AnchorMissing as e:
        ck.bad('anchor', str(e), f'anchor missing — {e} (rule precondition: needs triage)')
    if tier == 'thorough' and not a.replay:
        rc2 = thorough_extras(ck, mod, prop, seed)
        if rc2:
            return rc2
    rc = ck.finish()
    if a.replay:
        try:
            r = json.load(open(a.replay))
            hit = [i for i in ck.instances if i['rule'] == r['rule'] and i['key'] == r['key']]
            for i in hit:
                print(f"REPLAY {r['rule']} {r['key']}: {'holds now' if i['ok'] else 'STILL VIOLATED: ' + i['what']}")
            return 1 if any(not i['ok'] for i in hit) else 0
        except Exception as e:
            print(f'CHECK-ERROR: cannot replay {a.replay}: {e}')
            return 2
    return rc


def scoped_rules(ck, prop):
    """rules that every property with a file scope shares: operation profile (N1, unless the property's own module ran it) and narrowing profile (N2)"""
    from .props import c10
    if prop in c10.OPS_SCOPES and ck.config in c10.OPS_CONFIGS:
        w = ck.world()
        c10.eval_ops(ck, w, prop, f'{prop}.N1')
        c10.eval_restrict(ck, w, prop, f'{prop}.N2')
    elif prop in ('C10', 'C11') and ck.config in ('default', 'devcurves'):
        c10.eval_restrict(ck, ck.world(), prop, f'{prop}.N2')


# feature configurations re-analysed by the thorough tier (facts.CONFIGS): the rules are evaluated again on the program the other cfg selects
THOROUGH_CONFIGS = {p: ['truncated'] for p in ('C01', 'C02', 'C03', 'C04', 'C05', 'C06', 'C07', 'C08', 'C09', 'C12', 'C13', 'C14', 'C15', 'C16', 'C17', 'C18', 'C19', 'C20')}
THOROUGH_CONFIGS.update({'C10': ['devcurves'], 'C11': ['devcurves']})


def thorough_extras(ck, mod, prop, seed):
    """(1) every rule again under the alternative feature configuration(s); (2) the property's checker-must-fire suite (hand-written mutants and the
    sub-agent seeds) against scratch copies of the current tree."""
    for cfg in THOROUGH_CONFIGS.get(prop, []):
        sub = Check(prop, 'thorough', seed, config=cfg)
        try:
            mod.run(sub)
            scoped_rules(sub, prop)
        except facts.CheckError as e:
            print(f'CHECK-ERROR: {e}')
            return 2
        except AnchorMissing as e:
            sub.bad('anchor', str(e), f'anchor missing — {e} (rule precondition: needs triage)')
        for i in sub.instances:
            i['config'] = cfg
            if not i['ok']:
                i['what'] = f'[feature configuration `{cfg}`] ' + i['what']
            ck.instances.append(i)
        for k, v in sub.analysed.items():
            ck.analysed[f'{k} [{cfg}]'] = v
        ck._worlds.update({f'{cfg}': w for c, w in sub._worlds.items()})
        ck.notes.append(f'all rules re-evaluated under feature configuration `{cfg}` ({" ".join(facts.CONFIGS[cfg])}): {len(sub.instances)} instances')
    if os.environ.get('MZK_REPO') or os.environ.get('VERIF_NO_SELFTEST'):
        return 0
    sys.path.insert(0, facts.VERIF)
    from selftest import run as st
    cases = st.load_cases(prop)
    fired, failed = 0, []
    import concurrent.futures as cf
    with cf.ThreadPoolExecutor(max_workers=int(os.environ.get('VERIF_SELFTEST_JOBS', '3'))) as ex:
        for c, verdict, detail in ex.map(st.run_case, cases):
            if verdict == 'FIRED':
                fired += 1
            else:
                failed.append((c, verdict, detail))
    ck.analysed['self-tests (mutants that must be reported)'] = len(cases)
    ck.analysed['self-tests fired'] = fired
    ck.notes.append(f'checker-must-fire suite: {fired}/{len(cases)} mutants of this property reported with the expected rule instance '
                    f'({", ".join(os.path.basename(os.path.dirname(c["patch"])) + "/seed" if os.path.isabs(c["patch"]) else c["patch"] for c in cases)})')
    benign = st.load_benign(prop)
    noisy = []
    with cf.ThreadPoolExecutor(max_workers=int(os.environ.get('VERIF_SELFTEST_JOBS', '3'))) as ex:
        for c, verdict, detail in ex.map(st.run_benign_case, benign):
            if verdict != 'SILENT':
                noisy.append((c, verdict, detail))
    ck.analysed['behaviour-preserving edits that must stay silent'] = len(benign)
    ck.notes.append(f'behaviour-preserving edits (selftest/benign): {len(benign) - len(noisy)}/{len(benign)} stay silent')
    if noisy:
        for c, verdict, detail in noisy:
            print(f'CHECK-ERROR: the behaviour-preserving edit {os.path.basename(c["patch"])} is reported ({verdict}): the checker is too strict; last output: {detail[-300:]}')
        return 2
    if failed:
        for c, verdict, detail in failed:
            print(f'CHECK-ERROR: self-test {c["patch"]} did not fire as expected ({verdict}): the checker lost sensitivity; last output: {detail[-300:]}')
        return 2
    return 0


if __name__ == '__main__':
    sys.exit(main())
