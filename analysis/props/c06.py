"""C06 — structural (constraint-flow) clauses: no unconstrained hint, no dropped constraint, typestate constructors, must-call checks."""
from . import dprops
from .. import tables

FLOORS = tables.D_FLOORS['C06']


def run(ck):
    w = ck.world()
    ck.explanation = tables.D_EXPLANATION['C06']
    dprops.run_d(ck, w, 'C06', FLOORS)
    extra = getattr(tables, 'D_EXTRA', {}).get('C06')
    if extra:
        extra(ck, w)
    l1_radix(ck, w)
    l2_identity_swap(ck, w)
    l3_from_xy(ck, w)
    k1_constants(ck, w)


DIGITS = ('to_u64_digits', 'to_u32_digits', 'iter_u64_digits', 'iter_u32_digits')


def l1_radix(ck, w):
    """a fold that rebuilds an integer from the digits of a big integer must weigh each digit by the radix"""
    from ..core import walk, peel
    from ..engines import hirq
    ck.rule('C06.L1', 'radix recomposition: a `fold` over the 64/32-bit digits of a big integer (to_u64_digits, …) combines the accumulator with a shift or a '
                      'multiplication (acc << 64 | digit, acc * radix + digit).  Summing the digits (`acc + digit`) yields lo + hi instead of lo + hi*2^64: '
                      'ForeignEccChip::mul_by_constant then multiplies by the wrong constant for every scalar of 65..128 bits (e.g. the BLS12-381 cofactor in '
                      'assert_in_bls12_381_subgroup)')
    n_sites = 0
    for f in w.all_fns(['circuits', 'zk_stdlib', 'zkir', 'aggregator']):
        if '::tests' in f['_nid'] or '/tests' in f['file']:
            continue
        for n in walk(f['body']):
            if n.get('k') != 'mcall' or n.get('m') not in ('fold', 'try_fold'):
                continue
            chain, e = [], peel(n['recv'])
            while e.get('k') == 'mcall':
                chain.append(e['m'])
                e = peel(e['recv'])
            if not any(c in DIGITS for c in chain):
                continue
            n_sites += 1
            ops = {x.get('op') for a in n['args'] if peel(a).get('k') == 'closure' for x in walk(peel(a)['body']) if x.get('k') in ('bin', 'assignop')}
            calls = {m.get('m') for a in n['args'] if peel(a).get('k') == 'closure' for m in hirq.calls(peel(a)['body'])}
            weighted = bool(ops & {'<<', '*', '<<=', '*='}) or bool(calls & {'shl', 'pow', 'checked_shl', 'wrapping_shl', 'mul'})
            ck.record('C06.L1', f'{f["_nid"]}|fold@{"/".join(reversed(chain))}', weighted, f'digits are weighted by the radix (operators {sorted(o for o in ops if o)})',
                      f'{f["_nid"]}: the fold over {list(reversed(chain))} only uses {sorted(o for o in ops if o)}: the digits are summed without their weight, the '
                      f'rebuilt integer is wrong as soon as there is more than one digit', hirq.fn_loc(f, n))
    ck.floor('C06.L1', 'digit folds', n_sites, 1)


def l2_identity_swap(ck, w):
    """mul_by_constant protects every incomplete routine against the identity base"""
    from ..core import walk, peel, pat_bindings, callee
    from ..engines import hirq, valflow
    ck.rule('C06.L2', 'ForeignEccChip::mul_by_constant documents "the base can be the identity point" and delegates to routines that cannot take the identity '
                      '(mul_by_u128, msm_by_le_bits -> windowed_msm asserts is_id = 0 on every base): on EVERY branch the base handed to such a routine must be '
                      'the one swapped through `select(base.is_id, generator, base)`, i.e. depend on base.is_id; the branch for constants above 128 bits passes '
                      'the raw base, so (r - 1) * identity is unsatisfiable for the honest prover')
    fs = [f for f in w.all_fns(['circuits']) if f['name'] == 'mul_by_constant' and f['file'].endswith('ecc/foreign/ecc_chip.rs')]
    if not fs:
        ck.bad('C06.L2', 'mul_by_constant:anchor', 'ForeignEccChip::mul_by_constant not found (anchor)')
        return
    f = fs[0]
    bp = [b for p in f['params'] for b in pat_bindings(p) if b['n'] == 'base']
    if not bp:
        ck.bad('C06.L2', 'mul_by_constant:anchor:base', 'parameter `base` not found (anchor)')
        return
    vf = valflow.ValFlow(f, sources=[('base', bp[0]['i'], bp[0].get('t'))], field_sources=[bp[0]['i']])
    n = 0
    for node, per_arg in vf.sites.values():
        c = callee(node) or ''
        if not c.endswith(('::mul_by_u128', '::msm_by_le_bits', '::windowed_msm', '::msm_by_bounded_scalars')):
            continue
        n += 1
        deps = set()
        for d in per_arg:
            deps |= set(d or ())
        ck.record('C06.L2', f'mul_by_constant|{c.rsplit("::", 1)[-1]}', 'base.is_id' in deps, 'receives the identity-swapped base',
                  f'ForeignEccChip::mul_by_constant hands the raw `base` to {c.rsplit("::", 1)[-1]} (no select on base.is_id on this branch): that routine rejects the '
                  f'identity, although the trait documents it as a valid base', hirq.fn_loc(f, node))
    ck.floor('C06.L2', 'incomplete routines called by mul_by_constant', n, 2)


def l3_from_xy(ck, w):
    """coordinate constructors compare both coordinates and do not unwrap a failed decoding"""
    from ..core import walk, peel, callee
    from ..engines import hirq
    ck.rule('C06.L3', 'CircuitCurve::from_xy (off-circuit half of point assignment and coordinate extraction): an implementation that rebuilds the point from a '
                      'compressed form (one coordinate + the sign of the other) compares the decoded point with BOTH given coordinates before returning Some, and '
                      'returns None — not a panic — when the decoding fails.  The Jubjub impl decoded from y and the parity of x, tested only `get_v() == y` '
                      '(always true) and `expect`ed the decoding: from_xy(x + 2, y) returned the point (x, y), from_xy(x, 2) panicked')
    fs = [f for f in w.all_fns(['circuits']) if f['name'] == 'from_xy' and f['file'].endswith('ecc/curves.rs')]
    ck.floor('C06.L3', 'from_xy implementations', len(fs), 3)
    for f in fs:
        decodes = [m for m in hirq.calls(f['body']) if (callee(m) or '').endswith(('::from_bytes', 'GroupEncoding::from_bytes'))]
        if not decodes:
            ck.ok('C06.L3', f'{f["_xid"]}:direct', 'builds the point from both coordinates directly')
            continue
        reads = {m.get('m') or (callee(m) or '').rsplit('::', 1)[-1] for n in walk(f['body']) if n.get('k') == 'if' for m in hirq.calls(n['c'])}
        both = {'get_u', 'get_v'} <= reads or {'x', 'y'} <= reads
        unwraps = [m for m in hirq.calls(f['body']) if (m.get('m') in ('expect', 'unwrap'))]
        ck.record('C06.L3', f'{f["_xid"]}:compares-both-coordinates', both and not unwraps, 'decoded point compared with both coordinates, decoding failure -> None',
                  f'{f["_nid"]}: the point decoded from the compressed form is ' + ('not compared with both coordinates' if not both else 'unwrapped with expect/unwrap') +
                  ': wrong coordinates are accepted (or an invalid coordinate panics)', hirq.fn_loc(f))


def k1_constants(ck, w, rule='C06.K1'):
    """the curve parameters the gadgets constrain with are those of the curve implementation"""
    from ..engines import consteq
    ck.rule(rule, 'curve parameters (values computed by the compiler\'s const evaluator): the coefficients the in-circuit group law uses (EdwardsCurve::A / D, '
                  'WeierstrassCurve::A / B of the circuits crate) equal the constants of the curve implementation in the curves crate, these satisfy the published '
                  'curve equations (Jubjub d = -10240/10241, Curve25519 d = -121665/121666, a = -1; BLS12-381 G1 b = 4), EDWARDS_D2 = 2d, and NUM_BITS_SUBGROUP is '
                  'the bit length of the order of the prime-order subgroup (the number of scalar bits the multiplication gadgets range over).')
    n = 0
    for cid, ok, detail, loc in consteq.curve_equations(consteq.load(w, 'curves'), consteq.load(w, 'circuits')):
        n += 1
        ck.record(rule, cid, ok, detail, f'{cid} does not satisfy its definition ({detail}): the in-circuit group law and the off-circuit implementation disagree, or '
                  f'scalars are decomposed over the wrong number of bits', loc)
    ck.floor(rule, 'curve parameter equations', n, 15)
