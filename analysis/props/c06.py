"""C06 — structural (constraint-flow) clauses: no unconstrained hint, no dropped constraint, typestate constructors, must-call checks."""
from . import dprops
from .. import tables

FLOORS = tables.D_FLOORS['C06']


def run(ck):
    w = ck.world()
    ck.explanation = tables.D_EXPLANATION['C06']
    dprops.run_d(ck, w, 'C06', FLOORS)
    extra = getattr(tables, 'D_EXTRA', {}).get('C06')
    if extra:
        extra(ck, w)
    l1_radix(ck, w)


DIGITS = ('to_u64_digits', 'to_u32_digits', 'iter_u64_digits', 'iter_u32_digits')


def l1_radix(ck, w):
    """a fold that rebuilds an integer from the digits of a big integer must weigh each digit by the radix"""
    from ..core import walk, peel
    from ..engines import hirq
    ck.rule('C06.L1', 'radix recomposition: a `fold` over the 64/32-bit digits of a big integer (to_u64_digits, …) combines the accumulator with a shift or a '
                      'multiplication (acc << 64 | digit, acc * radix + digit).  Summing the digits (`acc + digit`) yields lo + hi instead of lo + hi*2^64: '
                      'ForeignEccChip::mul_by_constant then multiplies by the wrong constant for every scalar of 65..128 bits (e.g. the BLS12-381 cofactor in '
                      'assert_in_bls12_381_subgroup)')
    n_sites = 0
    for f in w.all_fns(['circuits', 'zk_stdlib', 'zkir', 'aggregator']):
        if '::tests' in f['_nid'] or '/tests' in f['file']:
            continue
        for n in walk(f['body']):
            if n.get('k') != 'mcall' or n.get('m') not in ('fold', 'try_fold'):
                continue
            chain, e = [], peel(n['recv'])
            while e.get('k') == 'mcall':
                chain.append(e['m'])
                e = peel(e['recv'])
            if not any(c in DIGITS for c in chain):
                continue
            n_sites += 1
            ops = {x.get('op') for a in n['args'] if peel(a).get('k') == 'closure' for x in walk(peel(a)['body']) if x.get('k') in ('bin', 'assignop')}
            calls = {m.get('m') for a in n['args'] if peel(a).get('k') == 'closure' for m in hirq.calls(peel(a)['body'])}
            weighted = bool(ops & {'<<', '*', '<<=', '*='}) or bool(calls & {'shl', 'pow', 'checked_shl', 'wrapping_shl', 'mul'})
            ck.record('C06.L1', f'{f["_nid"]}|fold@{"/".join(reversed(chain))}', weighted, f'digits are weighted by the radix (operators {sorted(o for o in ops if o)})',
                      f'{f["_nid"]}: the fold over {list(reversed(chain))} only uses {sorted(o for o in ops if o)}: the digits are summed without their weight, the '
                      f'rebuilt integer is wrong as soon as there is more than one digit', hirq.fn_loc(f, n))
    ck.floor('C06.L1', 'digit folds', n_sites, 1)
