"""C18 — ZKIR: off-circuit evaluation and the compiled circuit agree (structural clauses)."""
import re
from ..core import norm, callee, walk, AnchorMissing, short, expr_str, peel, pat_bindings, children
from ..engines import reach, hirq, zkirq, taint
from .. import tables
from . import c16

OPS = 'midnight_zkir::instructions::operations::'
OP = OPS + 'Operation'
ARITY = 'midnight_zkir::instructions::arity::<impl midnight_zkir::instructions::operations::Operation>::'
INC = 'midnight_zkir::parser::incircuit::Parser::process_instruction'
OFFC = 'midnight_zkir::parser::offcircuit::Parser::process_instruction'
REL = '<midnight_zkir::zkir::ZkirRelation as midnight_zk_stdlib::Relation>::'


def run(ck):
    w = ck.world()
    ck.explanation = (
        'Static sibling-table rules for the two ZKIR interpreters: (R1) every Operation / IrType variant has an explicit arm in each table '
        '(arity tables, both interpreters, public-input encoders); (R2) every constant index inps[k] in an interpreter arm is below the fixed '
        'input arity validated at load time and from_instructions is the only constructor and validates arity; (R3) per operation, the set of accepted '
        'type patterns (match arms incl. guards, TryFrom conversion targets) of the off-circuit implementation equals that of the in-circuit one; '
        '(R4) untrusted program constants (decoded enum payloads) reach no panic sink (taint); (R5) every chip accessor that panics when the chip is '
        'disabled is used only where used_chips enables the chip; (R6) public-input types are recorded in the closure that publishes; '
        '(R7) the binary program encoding is read with the type it is written with; (R8) partial big-integer operations are guarded; (R9) per-element checks of the '
        'in-circuit operations keep their iteration domain (no added take/skip/filter) and declared bounds reach their checks by value.  Value-level agreement of the two interpreters is not decided.')
    r1_variants(ck, w)
    r2_arity(ck, w)
    r3_domains(ck, w)
    r4_taint(ck, w)
    r5_chips(ck, w)
    r6_pi_types(ck, w)
    r7_encoding(ck, w)
    r8_partial(ck, w)
    r9_looped(ck, w)
    r11_partial_subgroup(ck, w)
    from . import c11
    c11.r5_unchecked(ck, w, rule='C18.R10', crates=['zkir', 'zk_stdlib'], floor=0)


def enum_variants(w, nid):
    return [v['name'] for v in w.adt(nid)['variants']]


def op_match(f):
    ms = [m for m in zkirq.top_matches(f['body']) if 'operations::Operation' in (m.get('st') or '')]
    if not ms:
        raise AnchorMissing(f'match on Operation in {f["_nid"]}')
    return ms[0]


def arm_variants(pat):
    out = set()
    k = pat.get('k')
    if k in ('ts', 'struct', 'path'):
        out.add(zkirq.variant_name(pat.get('p')))
    for s in pat.get('subs', []):
        if k == 'or':
            out |= arm_variants(s)
    if k == 'ref':
        out |= arm_variants(pat['sub'])
    return out


def r1_variants(ck, w):
    ck.rule('C18.R1', 'VARIANTS: every variant of Operation is matched by an explicit (non-wildcard) arm in input_arity, output_arity and both '
                      'process_instruction interpreters; every IrType variant in get_type (both), as_public_input, publish_incircuit, load_incircuit')
    ops = enum_variants(w, OP)
    ck.floor('C18.R1', 'Operation variants', len(ops), 17)
    for fn_id in (ARITY + 'input_arity', ARITY + 'output_arity', INC, OFFC):
        f = w.fn(fn_id)
        m = op_match(f)
        seen = set()
        for a in m['arms']:
            seen |= arm_variants(a['pat'])
        for v in ops:
            ck.record('C18.R1', f'{short(fn_id)}:{v}', v in seen, 'explicit arm', f'{fn_id} has no explicit arm for Operation::{v} (handled by a wildcard or missing)', hirq.fn_loc(f))
    tys = enum_variants(w, 'midnight_zkir::types::IrType')
    ck.floor('C18.R1', 'IrType variants', len(tys), 6)
    for fn_id, want in (('midnight_zkir::types::IrValue::get_type', 'IrValue'), ('midnight_zkir::types::CircuitValue::get_type', 'CircuitValue'),
                        (OPS + 'publish::<impl midnight_zkir::types::CircuitValue>::as_public_input', 'IrValue'),
                        (OPS + 'publish::publish_incircuit', 'CircuitValue'), (OPS + 'load::load_incircuit', 'IrType')):
        f = w.fn(fn_id)
        ms = [m for m in zkirq.top_matches(f['body']) if want in (m.get('st') or '')]
        if not ms:
            ck.bad('C18.R1', f'{short(fn_id)}:anchor', f'no match on {want} in {fn_id}', hirq.fn_loc(f)); continue
        seen = set()
        for a in ms[0]['arms']:
            seen |= arm_variants(a['pat'])
        for v in tys:
            ck.record('C18.R1', f'{short(fn_id)}:{v}', v in seen, 'explicit arm', f'{fn_id} has no explicit arm for {want}::{v}', hirq.fn_loc(f))


def arity_table(w, fn_id):
    """variant -> ('Fixed', n) | ('Some',) | ('SomeEven',)"""
    f = w.fn(fn_id)
    m = op_match(f)
    out = {}
    for a in m['arms']:
        b = peel(a['body'])
        val = None
        if b.get('k') == 'call' and zkirq.variant_name(b.get('f')) == 'Fixed':
            arg = peel(b['args'][0])
            if arg.get('k') == 'lit':
                val = ('Fixed', int(arg['v'].split(':')[1]))
        elif b.get('k') == 'path':
            val = (zkirq.variant_name(b.get('p')),)
        for v in arm_variants(a['pat']):
            out[v] = val
    return out


def r2_arity(ck, w):
    ck.rule('C18.R2', 'arity-index agreement: in each interpreter arm, every inps[k] with constant k has k < Fixed input arity of that operation; '
                      'half-slices only under SomeEven; from_instructions must-calls check_arity for every instruction, check_arity consults both tables, '
                      'and ZkirRelation is constructed nowhere else')
    ina = arity_table(w, ARITY + 'input_arity')
    for fn_id in (INC, OFFC):
        f = w.fn(fn_id)
        m = op_match(f)
        for a in m['arms']:
            vs = arm_variants(a['pat'])
            for n in walk(a['body']):
                if n.get('k') == 'index' and peel(n['e']).get('k') == 'local' and peel(n['e'])['n'] == 'inps':
                    idx = peel(n['i'])
                    for v in vs:
                        ar = ina.get(v)
                        if idx.get('k') == 'lit':
                            kk = int(idx['v'].split(':')[1])
                            ck.record('C18.R2', f'{short(fn_id)}:{v}:inps[{kk}]', ar is not None and ar[0] == 'Fixed' and kk < ar[1],
                                      f'index {kk} < input arity {ar}', f'{fn_id} arm {v} reads inps[{kk}] but the validated input arity is {ar}: out-of-bounds panic on a well-formed program',
                                      hirq.fn_loc(f, n))
                        else:
                            ck.record('C18.R2', f'{short(fn_id)}:{v}:inps[range]', ar == ('SomeEven',),
                                      'half-slices under SomeEven arity', f'{fn_id} arm {v} slices inps by a computed range but its arity is {ar}', hirq.fn_loc(f, n))
    # constructor discipline
    fi = w.fn('midnight_zkir::zkir::ZkirRelation::from_instructions')
    calls_check = any((callee(c) or '').endswith('check_arity') for c in hirq.calls(fi['body']))
    in_iter = False
    for n in walk(fi['body']):
        if n.get('k') == 'mcall' and n.get('m') in ('try_for_each', 'all', 'map', 'for_each') and any((callee(c) or '').endswith('check_arity') for a in n.get('args', []) for c in hirq.calls(a)):
            in_iter = 'instructions' in hirq.local_names_used(n['recv'])
        if n.get('k') == 'for' and any((callee(c) or '').endswith('check_arity') for c in hirq.calls(n['body'])):
            in_iter = 'instructions' in hirq.local_names_used(n['iter'])
    tried = any(n.get('k') == 'try' and any((callee(c) or '').endswith('check_arity') for c in hirq.calls(n['e'])) for n in walk(fi['body']))
    ck.record('C18.R2', 'from_instructions:check_arity', calls_check and in_iter and tried, 'check_arity applied to every instruction and propagated with ?',
              'from_instructions no longer validates the arity of every instruction', hirq.fn_loc(fi))
    ca = w.fn('midnight_zkir::instructions::arity::<impl midnight_zkir::instructions::Instruction>::check_arity')
    cs = {callee(c) for c in hirq.calls(ca['body'])}
    ck.record('C18.R2', 'check_arity:both-tables', (ARITY + 'input_arity') in cs and (ARITY + 'output_arity') in cs and
              sum(1 for n in walk(ca['body']) if n.get('k') in ('mcall', 'call') and (callee(n) or '').endswith('Arity::check')) >= 2,
              'checks inputs against input_arity and outputs against output_arity', 'check_arity no longer checks both inputs and outputs', hirq.fn_loc(ca))
    lits = []
    for f in w.all_fns(['zkir']):
        if ((f.get('impl') or {}).get('trait') or '').endswith('clone::Clone'):
            continue    # derived Clone copies an already validated relation
        for n in hirq.struct_lits(f['body'], 'midnight_zkir::zkir::ZkirRelation'):
            lits.append((f['_nid'], n))
    ck.record('C18.R2', 'ZkirRelation:only-constructor', bool(lits) and all(nid.endswith('ZkirRelation::from_instructions') for nid, _ in lits),
              f'{len(lits)} struct literal(s), all in from_instructions', f'ZkirRelation is constructed outside from_instructions: {[x for x, _ in lits]}')
    adt = w.adt('midnight_zkir::zkir::ZkirRelation')
    ck.record('C18.R2', 'ZkirRelation:private-fields', all(fd['vis'] != 'pub' for fd in adt['variants'][0]['fields']),
              'fields are private', 'ZkirRelation has a public field: arity validation can be bypassed')
    # insert_many's assert_eq!(names.len(), values.len()): output arity Fixed(n) must equal the number of values each arm builds
    outa = arity_table(w, ARITY + 'output_arity')
    for fn_id in (INC, OFFC):
        f = w.fn(fn_id)
        m = op_match(f)
        for a in m['arms']:
            b = a['body']
            tail = b
            while tail.get('k') == 'block' and 'e' in tail:
                tail = tail['e']
            n_out = None
            if tail.get('k') == 'call' and ('vec' in (tail.get('x') or []) or (callee(tail) or '').endswith('into_vec') or 'box_new' in (callee(tail) or '')):
                arrs = [x for x in walk(tail) if x.get('k') == 'array']
                if arrs:
                    n_out = len(arrs[0].get('es', []))
            elif tail.get('k') == 'call' and (callee(tail) or '').endswith('Vec::new'):
                n_out = 0
            for v in arm_variants(a['pat']):
                ar = outa.get(v)
                if n_out is None:
                    ck.ok('C18.R2', f'{short(fn_id)}:{v}:outputs', f'output count not a literal vector (arity {ar}); covered by the callee', nontrivial=False)
                else:
                    ck.record('C18.R2', f'{short(fn_id)}:{v}:outputs', ar == ('Fixed', n_out), f'{n_out} outputs = output arity',
                              f'{fn_id} arm {v} produces {n_out} value(s) but output_arity is {ar}: insert_many asserts equal lengths (panic)', hirq.fn_loc(f, a['body']))


CONV = {}


def conv_table(w):
    """TryFrom target type -> variant (from the impl_enum_from_try_from! impls in types.rs)"""
    out = {}
    for f in w.all_fns(['zkir']):
        imp = f.get('impl') or {}
        if f['name'] == 'try_from' and (imp.get('trait') or '').endswith('convert::TryFrom') and f['file'].endswith('types.rs'):
            ms = zkirq.top_matches(f['body'])
            if ms:
                d = zkirq.domain(ms[0])
                if len(d) == 1:
                    src = 'IrValue' if 'IrValue' in (ms[0].get('st') or '') else 'CircuitValue'
                    out[(src, imp['self'])] = next(iter(d))
    return out


def fn_domain(w, f, conv, want):
    """accepted type domain of an operation implementation: match arms on want-typed scrutinees + TryInto conversion targets"""
    dom = set()
    for m in zkirq.top_matches(f['body']):
        st = m.get('st') or ''
        if want in st or 'types::IrType' in st:
            dom |= {('match', d) for d in zkirq.domain(m)}
    for n in hirq.calls(f['body']):
        c = callee(n) or ''
        if c.endswith('TryInto::try_into') or c.endswith('::try_into') or c.endswith('TryFrom>::try_from'):
            t = n.get('t', '')
            m2 = re.match(r'core::result::Result<(.*), midnight_zkir::error::Error>$', t)
            if m2:
                v = conv.get((want, m2.group(1)))
                dom.add(('conv', v or m2.group(1)))
    for n in walk(f['body']):
        if n.get('k') == 'if' and peel(n['c']).get('k') == 'letx':
            names = {}
            p = zkirq.canon_pat(peel(n['c'])['pat'], names)
            if p != '_':
                dom.add(('match', p))
    return dom


def r3_domains(ck, w):
    ck.rule('C18.R3', 'type-domain agreement: for every operation, accepted type patterns (match arms with guards, if-let patterns, TryFrom conversion '
                      'targets) of the off-circuit implementation equal those of the in-circuit implementation under IrValue::V <-> CircuitValue::V; '
                      'every interpreter arm that delegates in-circuit delegates off-circuit to the paired function')
    conv = conv_table(w)
    ck.floor('C18.R3', 'TryFrom conversion impls', len(conv), 12)
    fns = {f['_nid']: f for f in w.all_fns(['zkir'])}
    pairs = []
    for nid in sorted(fns):
        if nid.endswith('_incircuit') and nid.startswith(OPS):
            off = nid[:-len('_incircuit')] + '_offcircuit'
            if off in fns:
                pairs.append((off, nid))
    for off, inc in tables.C18_MANUAL_PAIRS:
        if off in fns and inc in fns:
            pairs.append((off, inc))
        else:
            ck.bad('C18.R3', f'pair:{short(inc)}:anchor', f'manual pair ({off}, {inc}) not found (anchor)')
    ck.floor('C18.R3', 'operation pairs', len(pairs), 14)
    paired_inc = {i for _, i in pairs}
    paired = dict((i, o) for o, i in pairs)
    fi, fo = w.fn(INC), w.fn(OFFC)
    mi, mo = op_match(fi), op_match(fo)
    def arm_patterns(m, fn_id, want):
        """if-let / match patterns written directly in the interpreter arm that calls fn_id"""
        out = set()
        for a in m['arms']:
            if any(callee(c) == fn_id for c in hirq.calls(a['body'])):
                for n in walk(a['body']):
                    if n.get('k') == 'if' and peel(n['c']).get('k') == 'letx':
                        p = zkirq.canon_pat(peel(n['c'])['pat'], {})
                        if p != '_':
                            out.add(('match', p))
        return out
    for off, inc in pairs:
        do = fn_domain(w, fns[off], conv, 'IrValue') | arm_patterns(mo, off, 'IrValue')
        di = fn_domain(w, fns[inc], conv, 'CircuitValue') | arm_patterns(mi, inc, 'CircuitValue')
        base = inc.rsplit('::', 1)[-1]
        if base in tables.C18_DOMAIN_SPECIAL:
            how, why = tables.C18_DOMAIN_SPECIAL[base]
            if how == 'same-as-mul':
                dm = {d for k2, d in fn_domain(w, fns[OPS + 'mul::mul_incircuit'], conv, 'CircuitValue') if k2 == 'match'}
                got = set()
                for k2, d in di:
                    if k2 == 'match':
                        got |= {x.strip() for x in d.split(' | ')}
                delegates = any(callee(c) == OPS + 'mul::mul_offcircuit' for c in hirq.calls(fns[off]['body']))
                ck.record('C18.R3', f'domain:{short(inc)}', got == dm and delegates, f'{why}; in-circuit dispatch {sorted(got)} = mul domain',
                          f'inner product: in-circuit dispatch {sorted(got)} differs from the multiplication domain {sorted(dm)} that the off-circuit side uses', hirq.fn_loc(fns[inc]))
            elif how == 'get_t':
                both = all(any((callee(c) or '').endswith('utils::get_t') for c in hirq.calls(a['body'])) for m in (mi, mo) for a in m['arms'] if 'Load' in arm_variants(a['pat']))
                ck.record('C18.R3', f'domain:{short(inc)}', both, why, 'a Load arm no longer type-checks its witness values with get_t', hirq.fn_loc(fns[inc]))
            continue
        # the in-circuit side may first destructure its input to Bytes etc.; compare as sets
        same = (do == di)
        ck.record('C18.R3', f'domain:{short(inc)}', same, f'both accept {sorted(d for _, d in di)}',
                  f'type domains differ: off-circuit {short(off)} accepts {sorted(do)} but in-circuit {short(inc)} accepts {sorted(di)}; '
                  f'a program in the difference is accepted by one interpreter and rejected by the other', hirq.fn_loc(fns[inc]))
    # interpreter arms: delegation agreement
    arms_o = {}
    for a in mo['arms']:
        for v in arm_variants(a['pat']):
            arms_o[v] = a
    for a in mi['arms']:
        inc_calls = [callee(c) for c in hirq.calls(a['body']) if (callee(c) or '').endswith('_incircuit')]
        for v in arm_variants(a['pat']):
            ao = arms_o.get(v)
            if ao is None:
                continue
            off_calls = {callee(c) for c in hirq.calls(ao['body'])}
            for ic in inc_calls:
                if v in tables.C18_DELEGATION_EXEMPT:
                    ck.ok('C18.R3', f'delegation:{v}', tables.C18_DELEGATION_EXEMPT[v], nontrivial=False)
                    continue
                want = paired.get(ic)
                if want is None:
                    ck.bad('C18.R3', f'delegation:{v}', f'in-circuit arm {v} calls {short(ic)} which has no paired off-circuit implementation: '
                           f'the off-circuit arm is untyped inline code (accepts type combinations the circuit rejects, or vice versa)', hirq.fn_loc(fo, ao['body']))
                else:
                    ck.record('C18.R3', f'delegation:{v}', want in off_calls, f'off-circuit arm delegates to {short(want)}',
                              f'off-circuit arm {v} does not call {short(want)} (the pair of {short(ic)})', hirq.fn_loc(fo, ao['body']))


def r4_taint(ck, w):
    ck.rule('C18.R4', 'TAINT: integers carried by decoded program constants (IrType::Bytes(n), IrType::BigUint(n), Operation::IntoBytes(n), ModExp(n)) '
                      'reach no index / slice / allocation / chunk-size / shift sink without a dominating escaping conditional, in both interpreters')
    roots = [REL + 'circuit', REL + 'format_instance', REL + 'read_relation', 'midnight_zkir::zkir::ZkirRelation::public_inputs',
             'midnight_zkir::zkir::ZkirRelation::read', 'midnight_zkir::zkir::ZkirRelation::from_instructions', INC, OFFC]
    # stay inside the zkir crate and the ZkStdLib facade it calls
    stop = lambda nid: not (nid.startswith(('midnight_zkir::', '<midnight_zkir::')) )
    ta, fns = c16.run_taint(ck, w, roots, 'C18.R4', tables.C18_TAINT_TRIAGE, stop=stop, skip_kinds=('alloc',))
    ck.floor('C18.R4', 'functions analysed', len(fns), 60)


ACCESSOR_FLAG = {
    'midnight_zk_stdlib::ZkStdLib::jubjub': 'jubjub',
    'midnight_zk_stdlib::ZkStdLib::poseidon': 'poseidon',
    'midnight_zk_stdlib::ZkStdLib::hash_to_curve': 'poseidon',
    'midnight_zk_stdlib::ZkStdLib::map_gadget': 'poseidon',
    'midnight_zk_stdlib::ZkStdLib::sha2_256': 'sha2_256',
    'midnight_zk_stdlib::ZkStdLib::sha2_512': 'sha2_512',
    'midnight_zk_stdlib::ZkStdLib::sha3_256': 'sha3_256',
    'midnight_zk_stdlib::ZkStdLib::keccak_256': 'keccak_256',
    'midnight_zk_stdlib::ZkStdLib::blake2b_256': 'blake2b',
    'midnight_zk_stdlib::ZkStdLib::blake2b_512': 'blake2b',
    'midnight_zk_stdlib::ZkStdLib::secp256k1_scalar': 'secp256k1',
    'midnight_zk_stdlib::ZkStdLib::secp256k1_curve': 'secp256k1',
    'midnight_zk_stdlib::ZkStdLib::bls12_381_curve': 'bls12_381',
    'midnight_zk_stdlib::ZkStdLib::base64': 'base64',
    'midnight_zk_stdlib::ZkStdLib::automaton': 'automaton',
}
CHIP_TYPES = {'jubjub': {'JubjubPoint', 'JubjubScalar'}}


def r5_chips(ck, w):
    ck.rule('C18.R5', 'chip enablement: each ZkStdLib accessor that panics when its chip is disabled is called in the zkir crate either under a match '
                      'arm that destructures a value only that chip can create, or in a function reached only from interpreter arms whose operations '
                      'are among those that make used_chips enable the chip')
    # accessors really panic-guarded: confirm from their bodies
    from ..engines import panics
    for acc in list(ACCESSOR_FLAG):
        b = w.mir_body(acc, required=False)
        if b is None:
            ck.bad('C18.R5', f'accessor:{short(acc)}:anchor', f'accessor {acc} not found (anchor)')
    # used_chips: flag -> set of Operation variants mentioned in its initialiser (through local closures)
    uc = w.fn(REL + 'used_chips')
    lits = hirq.struct_lits(uc['body'], 'midnight_zk_stdlib::ZkStdLibArch')
    if not lits:
        raise AnchorMissing('ZkStdLibArch literal in used_chips')
    local_closures = {}
    for n in walk(uc['body']):
        if n.get('k') == 'let' and 'init' in n and peel(n['init']).get('k') == 'closure':
            for b in pat_bindings(n['pat']):
                local_closures[b['i']] = peel(n['init'])
    def ops_in(e, depth=0):
        out = set()
        for x in walk(e):
            if x.get('k') == 'match' or x.get('k') == 'letx' or x.get('k') == 'if':
                pass
            if x.get('k') == 'match':
                for a in x['arms']:
                    if not zkirq.is_catch_all(a['pat']) and 'Operation' in (x.get('st') or ''):
                        # arm must not evaluate to literal false
                        bb = peel(a['body'])
                        if not (bb.get('k') == 'lit' and bb.get('v') == 'bool:false'):
                            out |= arm_variants(a['pat'])
            if x.get('k') == 'letx' and 'Operation' in str(x['pat']):
                out |= arm_variants(x['pat'])
            if x.get('k') == 'call' and 'fe' in x and peel(x['fe']).get('k') == 'local' and peel(x['fe'])['i'] in local_closures and depth < 2:
                out |= ops_in(local_closures[peel(x['fe'])['i']], depth + 1)
        return out
    flag_ops = {}
    for fname, e in lits[0]['fs']:
        flag_ops[fname] = ops_in(e)
    ck.count('used_chips flags', len(flag_ops))
    # call sites of accessors in zkir
    fi = w.fn(INC)
    mi = op_match(fi)
    # which interpreter arms reach which zkir function (by direct call from the arm, transitively within zkir)
    cg = w.callgraph()
    def reach_from_expr(e):
        roots = {callee(c) for c in hirq.calls(e) if (callee(c) or '').startswith(('midnight_zkir::', '<midnight_zkir::'))}
        par = cg.reachable(sorted(r for r in roots if r), stop=lambda n: not n.startswith(('midnight_zkir::', '<midnight_zkir::')))
        return {reach.parent_fn(x) for x in par}
    arm_reach = {}
    for a in mi['arms']:
        r = reach_from_expr(a['body'])
        for v in arm_variants(a['pat']):
            arm_reach[v] = r
    # code of process_instruction outside the operation match (e.g. constant assignment of inputs) is reachable for every operation
    outside = set()
    for c in hirq.calls(fi['body']):
        pass
    all_in_match = set()
    for a in mi['arms']:
        all_in_match |= {id(c) for c in hirq.calls(a['body'])}
    outside_roots = {callee(c) for c in hirq.calls(fi['body']) if id(c) not in all_in_match and (callee(c) or '').startswith(('midnight_zkir::', '<midnight_zkir::'))}
    par = cg.reachable(sorted(outside_roots), stop=lambda n: not n.startswith(('midnight_zkir::', '<midnight_zkir::')))
    outside = {reach.parent_fn(x) for x in par}
    nsites = 0
    ops_all = set(enum_variants(w, OP))
    for f in w.all_fns(['zkir']):
        for site, arms in calls_with_arms(f['body']):
            c = callee(site)
            if c not in ACCESSOR_FLAG:
                continue
            nsites += 1
            flag = ACCESSOR_FLAG[c]
            key = f'{short(f["_nid"])}:{short(c)}@{arm_ctx(arms)}'
            # consumer: enclosing arm destructures a value only this chip can have produced
            consumer = any(circuit_value_variants(a['pat']) & CHIP_TYPES.get(flag, set()) for a in arms) or \
                any(arm_variants_deep(a['pat']) & CHIP_TYPES.get(flag, set()) and a.get('_from_get_type') for a in arms)
            if consumer:
                ck.ok('C18.R5', key, f'consumes a value that only the {flag} chip can have created')
                continue
            # constant assignment: the site sits under an IrValue::V arm of the parsed constant; used_chips must scan the
            # instruction inputs for every textual prefix that parses to V
            ir_vs = set()
            for a in arms:
                for x in _walk_pat(a['pat']):
                    if x.get('k') in ('ts', 'struct', 'path') and 'types::IrValue::' in (x.get('p') or ''):
                        ir_vs.add(zkirq.variant_name(x.get('p')))
            if ir_vs & CHIP_TYPES.get(flag, set()) and f['_nid'] in outside:
                prefixes = const_prefixes(w)
                need = {prefixes[v] + ':' for v in ir_vs if v in prefixes}
                init = dict(lits[0]['fs']).get(flag)
                have = input_prefix_scans(init, local_closures, uc['body']) if init is not None else set()
                ck.record('C18.R5', key, bool(need) and need <= have,
                          f'used_chips scans instruction inputs for the constant prefix(es) {sorted(need)} that parse to {sorted(ir_vs)}',
                          f'{f["_nid"]} assigns a constant of type {sorted(ir_vs)} through {short(c)} (panics when `{flag}` is disabled) for any operation input, '
                          f'but used_chips does not look at constant inputs with prefix {sorted(need - have)}: a program that only uses such a constant panics at synthesis',
                          hirq.fn_loc(f, site))
                continue
            ops_here = {v for v, r in arm_reach.items() if f['_nid'] in r}
            if f['_nid'] in outside:
                ops_here = set(ops_all)
            # restrict by IrType arm when the site sits under `match t { IrType::X => .. }` of a Load/FromBytes-style function
            allowed = flag_ops.get(flag, set())
            ck.record('C18.R5', key, bool(ops_here) and ops_here <= allowed,
                      f'reached only from operations {sorted(ops_here)} ⊆ {sorted(allowed)} that enable `{flag}`',
                      f'{f["_nid"]} calls {short(c)} (panics when `{flag}` is disabled) and is reachable from operations {sorted(ops_here - allowed)[:6]}… '
                      f'for which used_chips does not enable `{flag}`: a well-formed program panics at circuit synthesis', hirq.fn_loc(f, site))
    ck.floor('C18.R5', 'accessor call sites', nsites, 10)


def const_prefixes(w):
    """variant -> textual prefix, from `impl TryFrom<&str> for IrValue`"""
    out = {}
    for f in w.all_fns(['zkir']):
        if f['name'] == 'try_from' and f['file'].endswith('constants.rs'):
            for m in zkirq.top_matches(f['body']):
                for a in m['arms']:
                    p = a['pat']
                    if p.get('k') == 'slice' and len(p.get('subs', [])) == 2 and p['subs'][0].get('k') == 'lit':
                        prefix = p['subs'][0]['v'].split(':', 1)[1]
                        for x in walk(a['body']):
                            if x.get('k') == 'path' and 'types::IrValue::' in (x.get('p') or ''):
                                out[zkirq.variant_name(x['p'])] = prefix
    return out


def input_prefix_scans(init, local_closures, body):
    """string literals used in starts_with(..) on instruction inputs inside the initialiser (following local lets)"""
    out = set()
    lets = {}
    for n in walk(body):
        if n.get('k') == 'let' and 'init' in n:
            for b in pat_bindings(n['pat']):
                lets[b['i']] = n['init']
    todo, seen = [init], set()
    while todo:
        e = todo.pop()
        for x in walk(e):
            if x.get('k') == 'mcall' and x.get('m') == 'starts_with':
                for a in x.get('args', []):
                    a = peel(a)
                    if a.get('k') == 'lit' and a.get('v', '').startswith('s:'):
                        out.add(a['v'][2:])
            if x.get('k') == 'local' and x['i'] in lets and x['i'] not in seen:
                seen.add(x['i'])
                todo.append(lets[x['i']])
    # only count scans that iterate `inputs`
    return out if any(x.get('k') == 'field' and x['n'] == 'inputs' for e in [lets[i] for i in seen] + [init] for x in walk(e)) else set()


def calls_with_arms(body):
    """yield (call node, [enclosing match arms]) for every call in body"""
    out = []
    def rec(n, arms):
        k = n.get('k')
        if k in ('call', 'mcall') and 'f' in n:
            out.append((n, arms))
        if k == 'match':
            rec(n['e'], arms)
            gt = any(m.get('m') == 'get_type' for m in hirq.calls(n['e'])) or any(
                x.get('k') == 'local' and x['n'].endswith('_type') for x in walk(n['e']))
            for a in n['arms']:
                if gt:
                    a['_from_get_type'] = True
                if 'guard' in a:
                    rec(a['guard'], arms + [a])
                rec(a['body'], arms + [a])
            return
        for c in children(n):
            rec(c, arms)
    rec(body, [])
    return out


def arm_variants_deep(p):
    out = set()
    for x in _walk_pat(p):
        if x.get('k') in ('ts', 'struct', 'path'):
            out.add(zkirq.variant_name(x.get('p')))
    return out


def _walk_pat(p):
    yield p
    for s in p.get('subs', []) + [f[1] for f in p.get('fs', [])] + ([p['sub']] if 'sub' in p else []):
        yield from _walk_pat(s)


def circuit_value_variants(p):
    out = set()
    for x in _walk_pat(p):
        if x.get('k') in ('ts', 'struct', 'path') and 'types::CircuitValue::' in (x.get('p') or ''):
            out.add(zkirq.variant_name(x.get('p')))
    return out


def is_irtype_arm(a):
    return any('types::IrType' in (x.get('p') or '') for x in _walk_pat(a['pat']))


def arm_ctx(arms):
    return '/'.join(sorted('|'.join(sorted(arm_variants_deep(a['pat']))) for a in arms)) or 'top'


def r6_pi_types(ck, w):
    ck.rule('C18.R6', 'public-input bookkeeping: the in-circuit Publish arm records the type of each value in the same closure that publishes it, '
                      'circuit() stores the recorded types, public_inputs() zips values with types only after comparing lengths')
    fi = w.fn(INC)
    mi = op_match(fi)
    ok = False
    for a in mi['arms']:
        if 'Publish' in arm_variants(a['pat']):
            for n in walk(a['body']):
                if n.get('k') == 'closure':
                    cs = [c for c in hirq.calls(n['body'])]
                    pushes = [c for c in cs if c.get('m') == 'push' and any(m.get('m') == 'get_type' for a2 in c.get('args', []) for m in hirq.calls(a2))]
                    pubs = [c for c in cs if (callee(c) or '').endswith('publish_incircuit')]
                    if pushes and pubs and len(pushes) == len(pubs):
                        ok = True
    ck.record('C18.R6', 'publish:type-recorded-with-value', ok, 'one get_type push per publish_incircuit call in the same closure',
              'the in-circuit Publish arm no longer records exactly one type per published value', hirq.fn_loc(fi))
    fc = w.fn(REL + 'circuit')
    stores = any(n.get('k') == 'assign' and any(m.get('m') == 'public_input_types' or (callee(m) or '').endswith('Parser::public_input_types') for m in hirq.calls(n['rhs'])) for n in walk(fc['body']))
    ck.record('C18.R6', 'circuit:stores-types', stores, 'circuit() stores parser.public_input_types()', 'circuit() no longer stores the recorded public-input types', hirq.fn_loc(fc))


def r7_encoding(ck, w):
    ck.rule('C18.R7', 'program encoding: read_relation decodes with bincode the same type that write_relation encodes (instantiated generic argument), '
                      'and passes the decoded instructions through from_instructions')
    fw, fr = w.fn(REL + 'write_relation'), w.fn(REL + 'read_relation')
    enc = [n for n in hirq.calls(fw['body']) if 'encode_into_std_write' in (callee(n) or '')]
    dec = [n for n in hirq.calls(fr['body']) if 'decode_from_std_read' in (callee(n) or '')]
    if not enc or not dec:
        ck.bad('C18.R7', 'bincode:anchor', 'bincode encode/decode calls not found (anchor)'); return
    te = (enc[0].get('ga') or ['?'])[0]
    td = (dec[0].get('ga') or ['?'])[0]
    ck.record('C18.R7', 'bincode:type-agreement', norm(te) == norm(td), f'both sides use {te}',
              f'write_relation encodes `{te}` but read_relation decodes `{td}`: the reader consumes bytes the writer never produced '
              f'(binary round trip fails at end of input, or swallows the bytes that follow the program)', hirq.fn_loc(fr, dec[0]))
    ok = any((callee(c) or '').endswith('ZkirRelation::from_instructions') for c in hirq.calls(fr['body']))
    ck.record('C18.R7', 'read_relation:validates', ok, 'decoded program goes through from_instructions', 'read_relation bypasses from_instructions (arity validation)', hirq.fn_loc(fr))


PARTIAL_BIG = {
    'num_bigint::biguint::BigUint::modpow': (2, 'zero modulus panics'),
    '<&num_bigint::biguint::BigUint as core::ops::arith::Sub>::sub': (1, 'underflow panics'),
    '<num_bigint::biguint::BigUint as core::ops::arith::Sub>::sub': (1, 'underflow panics'),
    '<&num_bigint::biguint::BigUint as core::ops::arith::Div>::div': (1, 'division by zero panics'),
    '<num_bigint::biguint::BigUint as core::ops::arith::Div>::div': (1, 'division by zero panics'),
    '<&num_bigint::biguint::BigUint as core::ops::arith::Rem>::rem': (1, 'division by zero panics'),
    '<num_bigint::biguint::BigUint as core::ops::arith::Rem>::rem': (1, 'division by zero panics'),
}


def r8_partial(ck, w):
    ck.rule('C18.R8', 'partial big-integer operations on witness values in the off-circuit interpreter (modpow, -, /, % on BigUint) sit under a '
                      'conditional that tests the critical operand; otherwise a witness makes evaluation panic instead of returning Err')
    cg = w.callgraph()
    par = cg.reachable([OFFC], stop=lambda n: not n.startswith(('midnight_zkir::', '<midnight_zkir::')))
    fns = sorted({reach.parent_fn(x) for x in par if reach.parent_fn(x) in w.fn_index()})
    n_sites = 0
    for nid in fns:
        f = w.fn(nid)
        if nid in tables.C18_PARTIAL_EXEMPT_FNS:
            continue
        def rec(n, conds):
            nonlocal n_sites
            k = n.get('k')
            if k == 'if':
                rec(n['c'], conds)
                rec(n['a'], conds + [n['c']])
                if 'b' in n:
                    rec(n['b'], conds + [n['c']])
                return
            if k == 'match':
                rec(n['e'], conds)
                for a in n['arms']:
                    rec(a['body'], conds + ([a['guard']] if 'guard' in a else []))
                return
            if k == 'block':
                cs = list(conds)
                for st in n.get('ss', []):
                    rec(st, cs)
                    inner = st.get('e') if st.get('k') in ('semi', 'stmt') else None
                    if inner is not None and peel(inner).get('k') == 'if' and taint.diverges(peel(inner)['a']):
                        cs = cs + [peel(inner)['c']]
                if 'e' in n:
                    rec(n['e'], cs)
                return
            site = None
            if k in ('call', 'mcall') and callee(n) in PARTIAL_BIG:
                idx, what = PARTIAL_BIG[callee(n)]
                args = ([n['recv']] if k == 'mcall' else []) + n.get('args', [])
                site = (args[idx] if idx < len(args) else None, what, short(callee(n)))
            elif k == 'bin' and n.get('op') in ('-', '/', '%') and 'BigUint' in (n.get('t') or ''):
                site = (n['b'], {'-': 'underflow panics', '/': 'division by zero panics', '%': 'division by zero panics'}[n['op']], 'BigUint ' + n['op'])
            if site and site[0] is not None:
                n_sites += 1
                used = hirq.locals_used(site[0])
                guarded = any(hirq.locals_used(c) & used for c in conds) if used else False
                skey = f'{short(nid)}:{site[2]}'
                if skey in tables.C18_PARTIAL_EXEMPT_SITES:
                    ck.ok('C18.R8', skey, tables.C18_PARTIAL_EXEMPT_SITES[skey], nontrivial=False)
                    continue_ = True
                else:
                    continue_ = False
                if not continue_:
                  ck.record('C18.R8', skey, guarded, 'critical operand is tested by an enclosing conditional',
                          f'{nid}: {site[2]} on a witness value without testing the operand ({site[1]}): off-circuit evaluation panics instead of returning Err',
                          hirq.fn_loc(f, n))
            for c in children(n):
                rec(c, conds)
        rec(f['body'], [])
    ck.count('C18.R8:partial sites', n_sites)


def r9_looped(ck, w):
    from . import dprops
    ck.rule('C18.R9', 'per-element checks of the in-circuit operations (rules/looped.json, zkir rows): each listed operation still applies the listed constraint to every '
                      'element of its iteration, and the iteration domain is not narrowed by an added take / skip / filter / sub-range (e.g. the zero bytes '
                      'beyond the requested width in IntoBytes); declared integer bounds still reach their checks by value (rules/boundflow.json, zkir rows)')
    rows = [r for r in dprops.load_rules('looped.json') if r['property'] == 'C18']
    for r in rows:
        f = w.fn_x(r['fn'], required=False)
        if f is None:
            ck.bad('C18.R9', f'{r["fn"]}:anchor', f'function {r["fn"]} of the looped-check table not found (needs triage)')
            continue
        dprops.eval_looped_row(ck, 'C18.R9', f, r)
    ck.floor('C18.R9', 'looped rows', len(rows), 3)
    for r in [r for r in dprops.load_rules('boundflow.json') if r['property'] == 'C18']:
        f = w.fn_x(r['fn'], required=False)
        if f is None:
            ck.bad('C18.R9', f'{r["fn"]}:anchor', f'function {r["fn"]} of the bound-flow table not found (needs triage)')
            continue
        ok = (r['param'], r['reaches']) in dprops.bound_flows(f)
        ck.record('C18.R9', f'{r["fn"]}|{r["param"]}|{dprops.short(r["reaches"])}', ok, f'`{r["param"]}` reaches {dprops.short(r["reaches"])} by value',
                  f'{r["fn"]}: the declared bound `{r["param"]}` no longer reaches {r["reaches"]} by value')


def r11_partial_subgroup(ck, w):
    """the panicking subgroup conversion is not applied to program-supplied points"""
    from ..core import mir_callee
    ck.rule('C18.R11', 'CircuitCurve::into_subgroup panics (`expect`) on a point outside the prime-order subgroup; the ZKIR crate decodes points from PROGRAM TEXT '
                       '(constants `Jubjub:<hex>`) and from witness bytes, so no function of midnight_zkir may call it: ill-formed programs must be rejected with '
                       'an error (the checked decoder JubjubSubgroup::from_bytes), not a panic in both interpreters')
    n = 0
    bodies = 0
    for nid0 in w.mir_index():
        for b in w.mir_bodies(nid0):
            if b['_crate'] != 'zkir' or '::tests' in b['_xid']:
                continue
            bodies += 1
            for blk in b['blocks']:
                t = blk['t']
                if t.get('k') == 'call' and (mir_callee(t) or '').endswith('CircuitCurve>::into_subgroup') or \
                   (t.get('k') == 'call' and (mir_callee(t) or '').endswith('CircuitCurve::into_subgroup')):
                    n += 1
                    ck.bad('C18.R11', f'{b["_xid"].split("::{closure")[0]}|calls:into_subgroup',
                           f'{b["_xid"]} converts a decoded point with the panicking CircuitCurve::into_subgroup: a constant such as the order-2 point '
                           f'`Jubjub:0000…ed73` (0, -1) panics off-circuit evaluation and circuit compilation instead of being rejected', f'{b["file"]}')
    ck.floor('C18.R11', 'zkir MIR bodies scanned', bodies, 200)
    ck.ok('C18.R11', 'no-panicking-subgroup-conversion', f'{bodies} bodies scanned, {n} calls')
