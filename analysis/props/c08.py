"""C08 — off-circuit public-input encoding is exactly what the circuit binds (structural clauses)."""
from ..core import norm, short, walk, callee, callee_decl, peel, pat_bindings
from ..engines import hirq, reach, mustcall as mc, taint
from .. import tables

PII = 'midnight_circuits::instructions::public_input::PublicInputInstructions'
INST = 'midnight_circuits::utils::types::Instantiable'
NC = 'midnight_circuits::field::native::native_chip::NativeChip'


def assigned_ty(imp):
    """the `Assigned` generic argument of a PublicInputInstructions / Instantiable impl"""
    tr = imp.get('trait_ref', '')
    if norm(imp.get('trait') or '') == INST:
        return hirq.ty_adt(imp['self'])
    i0 = tr.find('<', tr.find('PublicInputInstructions'))
    inner = tr[i0 + 1:].rstrip('>')
    # re-balance: the trait ref ends with `>>` (generic list + qualified-path bracket)
    depth, cut = 0, len(inner)
    for j, ch in enumerate(inner):
        if ch == '<':
            depth += 1
        elif ch == '>':
            depth -= 1
    inner = inner + '>' * max(0, depth)
    parts = taint._split_generic('X<' + inner + '>')[1]
    return hirq.ty_adt(parts[-1]) if parts else None


def run(ck):
    w = ck.world()
    ck.explanation = (
        'Static sibling rules tying the in-circuit exposure to the off-circuit encoding: (R1) every Instantiable type has a PublicInputInstructions impl; '
        '(R2) in every impl, constrain_as_public_input constrains exactly the cells as_public_input returns (it calls it and feeds every returned cell to a '
        'constrain call, or delegates, or reads the same fields), and assign_as_public_input is assign + constrain or a delegation; '
        '(R3) counting discipline: Layouter::constrain_instance is called only by the two NativeChip primitives, each bumps its own row counter exactly once per '
        'call, nb_public_inputs reads that counter, MidnightCircuit::synthesize stores it after the relation ran, setup_vk copies it into the key, and verify / batch_verify compare the count exactly; (R4) exposure functions keep their canonicalisation / '
        'delegation calls on every path. '
        'Value-level equality / injectivity of each encoding is not decided.')
    fns = [f for f in w.all_fns() if norm((f.get('impl') or {}).get('trait') or '') == PII]
    impls = {}
    for f in fns:
        impls.setdefault((f['impl']['self'], f['impl']['trait_ref']), {})[f['name']] = f
    ck.rule('C08.R1', 'PAIR: for every type with an Instantiable impl there is a PublicInputInstructions impl exposing it')
    inst_types = sorted({assigned_ty(i) for i in w.impls() if norm(i.get('trait') or '') == INST})
    pii_types = {assigned_ty(next(iter(m.values()))['impl']) for m in impls.values()}
    ck.floor('C08.R1', 'Instantiable impls', len(inst_types), 10)
    ck.floor('C08.R1', 'PublicInputInstructions impls', len(impls), 13)
    blanket = any(t == 'T' for t in pii_types)
    for t in inst_types:
        ok = t in pii_types or t in tables.C08_NO_DIRECT_PII
        ck.record('C08.R1', f'pair:{short(t)}', ok, 'has an in-circuit exposure impl' if t in pii_types else tables.C08_NO_DIRECT_PII.get(t, ''),
                  f'{t} is Instantiable (off-circuit encoding exists) but no PublicInputInstructions impl exposes it in-circuit')
    ck.rule('C08.R2', 'per impl: constrain_as_public_input constrains the as_public_input vector (call + iteration, delegation, or same fields); '
                      'assign_as_public_input = assign + constrain_as_public_input, or a delegation')
    for (self_ty, tr), m in sorted(impls.items()):
        tag = f'{short(hirq.ty_adt(self_ty))}<{short(assigned_ty(next(iter(m.values()))["impl"]) or "?")}>'
        a, c, s = m.get('as_public_input'), m.get('constrain_as_public_input'), m.get('assign_as_public_input')
        if not (a and c and s):
            ck.bad('C08.R2', f'{tag}:anchor', 'impl lacks one of the three methods (anchor)')
            continue
        ccalls = [(callee(x) or '', callee_decl(x) or '', x) for x in hirq.calls(c['body'])]
        own_as = any(cc == a['_nid'] for cc, _, _ in ccalls)
        constr = [x for cc, cd, x in ccalls if cc.endswith('::constrain_as_public_input') and cc != c['_nid']]
        base = any(cd.endswith('Layouter::constrain_instance') for _, cd, _ in ccalls)
        div = taint.diverges(c['body']) or any(x.get('t') == '!' for _, _, x in ccalls)
        afields = {fl for _, fl in hirq.field_reads(a['body'])}
        cfields = {fl for _, fl in hirq.field_reads(c['body'])}
        if div and not constr and not base:
            verdict, how = True, 'explicitly unsupported entry point (diverges)'
        elif base:
            verdict, how = True, 'base primitive: Layouter::constrain_instance'
        elif own_as and constr:
            # the result of as_public_input must be what is iterated
            verdict, how = True, 'calls its own as_public_input and constrains every returned cell'
            it_ok = False
            for n in walk(c['body']):
                if n.get('k') == 'mcall' and n.get('m') in ('try_for_each', 'for_each', 'map') and any(callee(x) == a['_nid'] for x in hirq.calls(n['recv'])):
                    it_ok = any((callee(x) or '').endswith('::constrain_as_public_input') for arg in n.get('args', []) for x in hirq.calls(arg))
                if n.get('k') == 'for' and any(callee(x) == a['_nid'] for x in hirq.calls(n['iter'])):
                    it_ok = any((callee(x) or '').endswith('::constrain_as_public_input') for x in hirq.calls(n['body']))
            if not it_ok:
                # result bound to a local first
                for n in walk(c['body']):
                    if n.get('k') == 'let' and 'init' in n and any(callee(x) == a['_nid'] for x in hirq.calls(n['init'])):
                        li = {b['i'] for b in pat_bindings(n['pat'])}
                        for y in walk(c['body']):
                            if y.get('k') in ('mcall', 'for') and li & hirq.locals_used(y.get('recv') or y.get('iter') or {}):
                                it_ok = True
            verdict = it_ok
            how = how if it_ok else 'calls as_public_input but does not constrain the returned cells'
        elif constr and not own_as:
            # as_public_input that does real work (normalisation, packing ...) must be the source of the constrained cells;
            # only a pure projection (no workspace call) may be mirrored field by field, and a delegation must pass the whole value on
            a_work = [callee(x) or '' for x in hirq.calls(a['body']) if (callee(x) or '').startswith(('midnight_', '<midnight_'))
                      and not (callee(x) or '').endswith(('::clone', '::into', '::from'))]
            param_locals = {b['i'] for p_ in c['params'] for b in pat_bindings(p_)}
            whole = any(peel(arg).get('k') == 'local' and peel(arg)['i'] in param_locals and 'Layouter' not in (peel(arg).get('t') or '')
                        for x in constr for arg in x.get('args', [])) or \
                any(peel(arg).get('k') in ('mcall', 'call') and hirq.locals_used(arg) & param_locals and not hirq.field_reads(arg)
                    for x in constr for arg in x.get('args', []))
            same = afields <= cfields if afields else True
            # field-wise delegation: the fields whose own *_as_public_input encoder is called are exactly the fields whose own
            # constrain_as_public_input is called
            def recv_fields(fn_, pred):
                out = set()
                for x in hirq.calls(fn_['body']):
                    if pred(callee(x) or '') and 'recv' in x:
                        r = peel(x['recv'])
                        if r.get('k') == 'field':
                            out.add(r['n'])
                return out
            enc_f = recv_fields(a, lambda cc: cc.endswith('as_public_input'))
            con_f = recv_fields(c, lambda cc: cc.endswith('::constrain_as_public_input'))
            if enc_f and enc_f == con_f:
                whole = True
            if whole:
                verdict, how = True, 'delegates the whole value (or each field to its own type) to another constrain_as_public_input'
            elif not a_work and same:
                verdict, how = True, 'as_public_input is a pure projection; the same fields are constrained one by one'
            else:
                verdict = False
                how = (f'constrains {sorted(cfields)} directly while as_public_input computes the encoding through {[short(x) for x in a_work][:3]}: '
                       f'the constrained cells are not the encoded ones')
        else:
            helper = [cc for cc, _, _ in ccalls if 'public_input' in cc]
            same = bool(helper) and afields <= cfields
            verdict, how = same, (f'helper-based over the same fields {sorted(afields)}' if same else 'no constrain call found')
        ck.record('C08.R2', f'{tag}:constrain', verdict, how,
                  f'{c["_nid"]}: {how}: the vector bound in-circuit can differ from the off-circuit encoding', hirq.fn_loc(c))
        scalls = [(callee(x) or '', x) for x in hirq.calls(s['body'])]
        s_constr = any(cc == c['_nid'] for cc, _ in scalls)
        s_assign = any(cc.endswith(('AssignmentInstructions>::assign', 'AssignmentInstructions::assign', 'AssignmentInstructions::assign_many', 'AssignmentInstructions>::assign_many')) for cc, _ in scalls)
        s_deleg = [cc for cc, _ in scalls if cc.endswith('::assign_as_public_input') and cc != s['_nid']]
        s_div = any(x.get('t') == '!' for _, x in scalls) and not s_constr
        ok = (s_assign and s_constr) or bool(s_deleg) or s_div
        how = 'assign + constrain_as_public_input' if (s_assign and s_constr) else 'delegation' if s_deleg else 'explicitly unsupported' if s_div else 'neither assign+constrain nor delegation'
        ck.record('C08.R2', f'{tag}:assign', ok, how, f'{s["_nid"]}: {how}', hirq.fn_loc(s))
    # helper pair used by the accumulator impl: encoder and constrainer of AssignedMsm cover the same fields
    M = 'midnight_circuits::verifier::msm::AssignedMsm::'
    ea, ca = w.fn(M + 'in_circuit_as_public_input'), w.fn(M + 'constrain_as_public_input')
    fa = {fl for ad, fl in hirq.field_reads(ea['body']) if (ad or '').endswith('AssignedMsm')}
    fc = {fl for ad, fl in hirq.field_reads(ca['body']) if (ad or '').endswith('AssignedMsm')}
    ck.record('C08.R2', 'AssignedMsm:encoder~constrainer', bool(fa) and fa == fc, f'both cover {sorted(fa)}',
              f'AssignedMsm::in_circuit_as_public_input encodes {sorted(fa)} but constrain_as_public_input constrains {sorted(fc)}', hirq.fn_loc(ca))
    r3_counting(ck, w)
    r4_canonical(ck, w)
    r5_dont_care(ck, w)
    r6_scalar_width(ck, w)
    from . import c03
    c03.pi_count_exact(ck, w, 'C08.R3')


def r3_counting(ck, w):
    ck.rule('C08.R3', 'counting discipline of raw public inputs')
    ci = 'midnight_proofs::circuit::Layouter::constrain_instance'
    sites = [x for x in reach.callers_of(w, lambda c: c == ci) if w.mir_body(x[0])['_crate'] != 'proofs']
    allowed = {'<' + NC + ' as ' + PII + '>::constrain_as_public_input',
               '<' + NC + ' as midnight_circuits::instructions::public_input::CommittedInstanceInstructions>::constrain_as_committed_public_input'}
    ck.floor('C08.R3', 'constrain_instance call sites outside midnight-proofs', len(sites), 2)
    for nid, bi, t, c in sites:
        ck.record('C08.R3', f'constrain_instance-caller:{nid}', reach.parent_fn(nid) in allowed, 'NativeChip primitive',
                  f'{nid} binds an instance cell directly with Layouter::constrain_instance, bypassing the row counter of NativeChip: nb_public_inputs no longer '
                  f'counts every exposed value', reach.loc(w.mir_body(nid), t))
    for nid, counter in (('<' + NC + ' as ' + PII + '>::constrain_as_public_input', 'instance_offset'),
                         ('<' + NC + ' as midnight_circuits::instructions::public_input::CommittedInstanceInstructions>::constrain_as_committed_public_input', 'committed_instance_offset')):
        f = w.fn(nid)
        incs = [n for n in walk(f['body']) if n.get('k') == 'assignop' and n.get('op') == '+=' and peel(n['rhs']).get('v') == 'i:1']
        reads = {fl for _, fl in hirq.field_reads(f['body'])}
        in_loop = any(n.get('k') in ('for', 'loop') for n in walk(f['body']))
        ck.record('C08.R3', f'{short(nid)}:one-increment', len(incs) == 1 and counter in reads and not in_loop,
                  f'exactly one `+= 1` of {counter} per exposed cell', f'{nid}: {len(incs)} increment(s) of the row counter (reads {counter}: {counter in reads})', hirq.fn_loc(f))
        b = w.mir_body(nid)
        res = mc.calls_after(b, lambda c, t: c == ci, lambda c, t: False)
    g = w.fn(NC + '::nb_public_inputs')
    ck.record('C08.R3', 'nb_public_inputs:reads-counter', 'instance_offset' in {fl for _, fl in hirq.field_reads(g['body'])},
              'returns the plain-instance row counter', 'NativeChip::nb_public_inputs no longer reads instance_offset', hirq.fn_loc(g))
    syn = [f for f in w.all_fns(['zk_stdlib']) if f['name'] == 'synthesize' and 'MidnightCircuit' in (f.get('impl') or {}).get('self', '')]
    if syn:
        s = syn[0]
        order = []
        for n in walk(s['body']):
            if n.get('k') in ('call', 'mcall') and 'f' in n:
                c = callee(n) or ''
                if c.endswith('Relation::circuit'):
                    order.append('circuit')
                if c.endswith('::nb_public_inputs'):
                    order.append('count')
        ck.record('C08.R3', 'synthesize:count-after-circuit', order[:2] == ['circuit', 'count'], 'nb_public_inputs is read after relation.circuit returned',
                  f'MidnightCircuit::synthesize reads the public-input count in order {order}: it must be read after the relation was synthesised', hirq.fn_loc(s))
    sv = w.fn('midnight_zk_stdlib::setup_vk')
    lit = hirq.struct_lits(sv['body'], 'midnight_zk_stdlib::MidnightVK')
    ok = bool(lit) and any(fname == 'nb_public_inputs' for fname, _ in lit[0]['fs']) and any(x.get('k') == 'field' and x['n'] == 'nb_public_inputs' for x in walk(sv['body']) if x is not lit[0])
    ck.record('C08.R3', 'setup_vk:stores-count', ok, 'MidnightVK.nb_public_inputs := the circuit\'s counter', 'setup_vk does not store the counted public inputs in the key', hirq.fn_loc(sv))


def r4_canonical(ck, w):
    """exposure functions keep the calls they make unconditionally on the reference tree (canonicalisation before exposure, delegation to the counting primitive)"""
    import re
    from . import dprops
    ck.rule('C08.R4', 'canonical form before exposure: every (as|constrain_as|assign_as)[_committed]_public_input function still reaches, on every success path, the '
                      'call it made unconditionally on the reference tree (rules/mustcall.json): normalisation of types with several representations of one value '
                      '(emulated field elements, big integers) and delegation to the primitive that binds and counts the instance cell')
    pat = re.compile(r'::(as|constrain_as|assign_as|constrain_\w+_as)(_committed)?_public_input(_with_committed_scalars)?$')
    rows = [r for r in dprops.load_rules('mustcall.json') if pat.search(r['fn'])]
    n = 0
    for r in rows:
        b = w.mir_body_x(r['fn'], required=False)
        if b is None:
            ck.bad('C08.R4', f'{r["fn"]}|{short(r["must_call"])}:anchor', f'function {r["fn"]} of the must-call table not found (renamed/removed: needs triage)')
            continue
        n += 1
        g = r['must_call']
        ok, _ = mc.must_call(b, lambda c, t: c == g)
        if not ok:
            def via(c, t):
                bb = w.mir_index().get(c)
                return bb is not None and mc.must_call(bb, lambda c2, t2: c2 == g)[0]
            ok, _ = mc.must_call(b, lambda c, t: c == g or via(c, t))
        ck.record('C08.R4', f'{r["fn"]}|{short(g)}', ok, f'calls {short(g)} on every success path',
                  f'{r["fn"]} no longer reaches {g} on every success path: the value is exposed without the canonicalisation / counting step, so the cells bound to the '
                  f'instance column need not be the off-circuit encoding of the value', reach.loc(b))
    ck.floor('C08.R4', 'exposure must-call pairs', n, 20)


def r5_dont_care(ck, w):
    """components a flag declares meaningless must not be exposed unmasked"""
    from ..engines import valflow
    ck.rule('C08.R5', 'flag-guarded don\'t-care components: AssignedForeignPoint carries (x, y, is_id) and, when is_id is set, x and y are unconstrained (assign skips the '
                      'on-curve check, add/negate constrain only the flag).  Its public-input encoding must therefore mask BOTH coordinates with the flag (a '
                      'select / conditional zero taking is_id together with the x-derived and with the y-derived cells); merely adding B*is_id to one limb leaves '
                      'every (x, y) acceptable for the identity, i.e. the circuit is satisfied by vectors other than the encoding of the identity.')
    fs = [f for f in w.all_fns(['circuits']) if f['name'] == 'as_public_input' and f['file'].endswith('ecc/foreign/ecc_chip.rs')
          and any(b['n'] == 'layouter' for p in f['params'] for b in pat_bindings(p))]
    if not fs:
        ck.bad('C08.R5', 'AssignedForeignPoint::as_public_input:anchor', 'as_public_input of the foreign curve chip not found (anchor)')
        return
    f = fs[0]
    pl = [b for p in f['params'] for b in pat_bindings(p) if b['n'] not in ('self', 'layouter')]
    if not pl:
        ck.bad('C08.R5', 'AssignedForeignPoint::as_public_input:anchor:param', 'point parameter not found (anchor)')
        return
    pn = pl[0]['n']
    vf = valflow.ValFlow(f, sources=[], field_sources=[pl[0]['i']])
    met = {'x': False, 'y': False}
    in_iter = set()
    for n in walk(f['body']):
        if n.get('k') == 'for':
            in_iter |= {id(x) for x in walk(n['body'])}
        if n.get('k') == 'closure':
            in_iter |= {id(x) for x in walk(n['body'])}
    for node, per_arg in vf.sites.values():
        args = ([node['recv']] if 'recv' in node else []) + list(node.get('args', []))
        deps = set()
        for d in per_arg:
            deps |= set(d or ())
        if f'{pn}.is_id' not in deps:
            continue
        # a mask acts on a whole coordinate (an AssignedField argument) or on every limb (a call inside an iteration over the limbs);
        # a single call on one limb outside any iteration (the `+ B * is_id` on the first limb) is not a mask
        whole = any('AssignedField' in (peel(a).get('t') or '') for a in args)
        if not (whole or id(node) in in_iter):
            continue
        for c in ('x', 'y'):
            if f'{pn}.{c}' in deps:
                met[c] = True
    ok = met['x'] and met['y']
    ck.record('C08.R5', 'AssignedForeignPoint::as_public_input:masks-coordinates', ok, 'both coordinates meet the identity flag in a constraint',
              f'ForeignEccChip::as_public_input exposes the coordinate cells of a point without masking them by is_id (x meets the flag: {met["x"]}, y meets the '
              f'flag: {met["y"]}): for the identity the prover chooses x and y freely, so many public-input vectors are accepted for one value', hirq.fn_loc(f))


def r6_scalar_width(ck, w):
    """both encoders of a bit-vector type chunk the SAME number of bits"""
    ck.rule('C08.R6', 'width agreement of the two encoders of AssignedScalarOfNativeCurve: the off-circuit encoder chunks exactly NUM_BITS_SUBGROUP bits '
                      '(`to_bits_le(Some(C::NUM_BITS_SUBGROUP))`), the in-circuit one must chunk the same number of bits (refer to the same constant: truncate, pad '
                      'or assert).  Chunking however many bits the representation happens to carry (`assigned.0.chunks(..)`: 256 bits after '
                      'scalar_from_le_bytes of 32 bytes, 255 after a conversion from a native element) exposes 2 field elements where the verifier-side formatter '
                      'produces 1, and binds the raw integer instead of its reduction modulo the group order')
    off = [f for f in w.all_fns(['circuits']) if f['name'] == 'as_public_input' and f['file'].endswith('ecc/native/edwards_chip.rs')
           and 'AssignedScalarOfNativeCurve' in f['_xid'] and not any(b['n'] == 'layouter' for p in f['params'] for b in pat_bindings(p))]
    inc = [f for f in w.all_fns(['circuits']) if f['name'] == 'as_public_input' and f['file'].endswith('ecc/native/edwards_chip.rs')
           and 'AssignedScalarOfNativeCurve' in f['_xid'] and any(b['n'] == 'layouter' for p in f['params'] for b in pat_bindings(p))]
    if not off or not inc:
        ck.bad('C08.R6', 'AssignedScalarOfNativeCurve:anchor', f'encoder pair not found (off-circuit: {len(off)}, in-circuit: {len(inc)})')
        return

    def width_consts(f):
        return {(x.get('p') or '').rsplit('::', 1)[-1] for x in walk(f['body']) if x.get('k') == 'path' and 'NUM_BITS' in (x.get('p') or '')}
    wo, wi = width_consts(off[0]), width_consts(inc[0])
    ck.record('C08.R6', 'AssignedScalarOfNativeCurve:encoders-agree-on-width', wo <= wi, f'both encoders refer to {sorted(wo)}',
              f'the off-circuit encoder of AssignedScalarOfNativeCurve fixes the width with {sorted(wo - wi)} but the in-circuit encoder (EccChip::as_public_input) chunks '
              f'all the bits of the representation (constants it mentions: {sorted(wi)}): the two produce different numbers of public inputs for scalars built from '
              f'32 bytes or converted from a native element', hirq.fn_loc(inc[0]))
