"""C12 — the structural clauses of "MSM / FFT equal their naive definitions": which code may meet an identity base, how parallel slices are split, what guards the
type-punned fast path, which size preconditions are asserted.  The numerical identities themselves are NOT decided (see the explanation)."""
from ..core import walk, callee, peel, expr_str
from ..engines import hirq

MSM = 'midnight_curves::msm::'
SPECIFIC = 'midnight_proofs::poly::kzg::msm::msm_specific'


def _fn(ck, w, rule, nid):
    f = w.fn(nid, required=False)
    if f is None:
        ck.bad(rule, f'{nid.split("::")[-1]}:anchor', f'{nid} not found (anchor)')
    return f


def run(ck):
    w = ck.world()
    ck.explanation = (
        'C12 is a numerical property; what is decided here are the clauses whose truth is in the shape of the code, each a necessary condition of "every MSM entry point '
        'returns the sum for all inputs, identity bases, any length and any number of threads included": (R1) the batch-affine path of msm_best, whose addition formulas '
        'and coordinate copies are not defined for the identity, is entered only under an is_identity test of the base, and Affine::from does not unwrap the coordinates of '
        'a point without testing that they exist (repaired defect: from 8104 bases on an identity base made msm_best panic while the shorter lengths accepted it); '
        '(R2) every slice-splitting MSM driver splits scalars and bases by the same chunk expression, and the length-asserting entry points keep their assertion; '
        '(R3) the type-punned blst fast path of msm_specific (pointer casts, transmute_copy) is taken only under a TypeId equality test; (R4) best_fft keeps its '
        'size precondition a.len() == 1 << log_n; (R5) the empty MSM is answered before the blst call; (N1/N2) the operation and narrowing profiles of the anchor files '
        '(no dropped, re-routed or newly restricted operation in msm.rs, fft.rs, domain.rs, arithmetic.rs, rational.rs, kzg/msm.rs, kzg/params.rs, poly/mod.rs).  '
        'NOT decided: that Booth windows, bucket sums, butterflies, coset and vanishing-polynomial algebra compute the right VALUES (twiddle factors, window sizes, '
        'barycentric weights are values, not structure).')
    r1_identity(ck, w)
    r2_parallel_split(ck, w)
    r3_type_dispatch(ck, w)
    r4_fft_size(ck, w)
    r5_empty(ck, w)


def _ifs_with(body, pred):
    """`if` nodes whose condition contains a call satisfying pred"""
    return [n for n in walk(body) if n.get('k') == 'if' and any(pred(c) for c in hirq.calls(n['c']))]


def r1_identity(ck, w):
    ck.rule('C12.R1', 'identity bases never reach the batch-affine formulas: in msm_best every call of Schedule::add (the affine scheduler) is control-dependent on an '
                      '`is_identity` test of the base, and every `coordinates()` result that is unwrapped in curves/src/msm.rs is tested with is_none / is_some in the same '
                      'function (the identity has no affine coordinates)')
    f = _fn(ck, w, 'C12.R1', MSM + 'msm_best')
    if f is not None:
        guarded = set()
        for n in _ifs_with(f['body'], lambda c: c.get('m') == 'is_identity'):
            for c in walk(n['a']):
                if c.get('k') in ('mcall', 'call') and (callee(c) or '').endswith('msm::Schedule::add'):
                    guarded.add(id(c))
        sites = [c for c in walk(f['body']) if c.get('k') in ('mcall', 'call') and (callee(c) or '').endswith('msm::Schedule::add')]
        ck.floor('C12.R1', 'Schedule::add sites in msm_best', len(sites), 1)
        for i, c in enumerate(sites):
            ck.record('C12.R1', f'msm_best:Schedule::add#{i}:identity-guard', id(c) in guarded, 'under an is_identity test of the base',
                      'msm_best schedules a base for batch-affine addition without testing that it is not the identity: an identity base has no affine coordinates '
                      '(panic in Affine::from) and the chord / tangent formulas of batch_add are not defined for it', hirq.fn_loc(f, c))
    n_unwrap = 0
    for g in w.all_fns(['curves']):
        if g['file'] != 'curves/src/msm.rs' or '::test' in g['_nid']:
            continue
        tested = any(c.get('m') in ('is_none', 'is_some') for c in hirq.calls(g['body']))
        for c in walk(g['body']):
            if c.get('k') == 'mcall' and c.get('m') in ('unwrap', 'expect'):
                src = peel(c['recv'])
                direct = any(m.get('m') == 'coordinates' for m in hirq.calls(src)) or (src.get('k') == 'mcall' and src.get('m') == 'coordinates')
                via_local = False
                if src.get('k') == 'local':
                    for l in walk(g['body']):
                        if l.get('k') == 'let' and 'init' in l and any(m.get('m') == 'coordinates' for m in list(hirq.calls(l['init'])) + [peel(l['init'])]):
                            from ..core import pat_bindings
                            if any(b['i'] == src.get('i') for b in pat_bindings(l['pat'])):
                                via_local = True
                if direct or via_local:
                    n_unwrap += 1
                    ck.record('C12.R1', f'{g["_nid"]}:coordinates-unwrap', tested, 'the existence of the coordinates is tested in the same function',
                              f'{g["_nid"]} unwraps `coordinates()` without testing it: the identity has none, an identity base makes the MSM panic', hirq.fn_loc(g, c))
    ck.count('C12.R1 coordinates() unwraps in msm.rs', n_unwrap)


def r2_parallel_split(ck, w):
    ck.rule('C12.R2', 'scalars and bases are split identically: in every function of curves/src/msm.rs that splits its inputs with chunks(..), all chunk sizes are the same '
                      'expression (otherwise thread i multiplies scalars with the bases of another thread), and msm_parallel / msm_best assert equal lengths')
    n = 0
    for g in w.all_fns(['curves']):
        if g['file'] != 'curves/src/msm.rs' or '::test' in g['_nid']:
            continue
        chunks = [c for c in walk(g['body']) if c.get('k') == 'mcall' and c.get('m') in ('chunks', 'par_chunks', 'chunks_mut', 'par_chunks_mut', 'chunks_exact')]
        if len(chunks) < 2:
            continue
        n += 1
        sizes = {expr_str(peel(c['args'][0])) if c.get('args') else '?' for c in chunks}
        ck.record('C12.R2', f'{g["_nid"]}:same-chunk-size', len(sizes) == 1, f'{len(chunks)} chunk splits by `{sorted(sizes)[0]}`',
                  f'{g["_nid"]} splits its parallel slices by different chunk sizes {sorted(sizes)}: scalars meet the wrong bases', hirq.fn_loc(g, chunks[0]))
    ck.floor('C12.R2', 'functions splitting scalars and bases', n, 1)
    for name in ('msm_parallel', 'msm_best'):
        g = _fn(ck, w, 'C12.R2', MSM + name)
        if g is None:
            continue
        # assert_eq!(coeffs.len(), bases.len()) expands to `if !(*left_val == *right_val) { panic }` over a match on (&coeffs.len(), &bases.len())
        lens = set()
        for m in walk(g['body']):
            if m.get('k') == 'match':
                s = peel(m.get('e') or {})
                if s.get('k') == 'tup':
                    names = [expr_str(peel(c['recv'])) for c in hirq.calls(s) if c.get('m') == 'len']
                    if len(names) == 2:
                        lens.add(tuple(sorted(names)))
        ck.record('C12.R2', f'{name}:asserts-equal-lengths', ('bases', 'coeffs') in lens, 'assert_eq!(coeffs.len(), bases.len())',
                  f'{name} no longer asserts that scalars and bases have the same length: a mismatch is silently truncated by zip', hirq.fn_loc(g))


def r3_type_dispatch(ck, w):
    ck.rule('C12.R3', 'the type-punned fast path of msm_specific is sound by construction: every transmute_copy and every raw-pointer reinterpretation of the scalar / base '
                      'slices lies inside an `if` whose condition compares TypeId::of::<C>() — the generic path is the only other exit')
    f = _fn(ck, w, 'C12.R3', SPECIFIC)
    if f is None:
        return
    guarded = set()
    for n in _ifs_with(f['body'], lambda c: 'TypeId' in (callee(c) or '')):
        for c in walk(n['a']):
            guarded.add(id(c))
    puns = [c for c in walk(f['body']) if (c.get('k') in ('call', 'mcall') and 'transmute' in (callee(c) or '')) or (c.get('k') == 'cast' and '*const' in (c.get('t') or ''))]
    ck.floor('C12.R3', 'type-punning sites in msm_specific', len(puns), 1)
    for i, c in enumerate(puns):
        ck.record('C12.R3', f'msm_specific:pun#{i}:typeid-guard', id(c) in guarded, 'under a TypeId equality test',
                  'msm_specific reinterprets scalars / bases / the result as blst types outside the TypeId test: undefined behaviour for every other curve', hirq.fn_loc(f, c))


def r4_fft_size(ck, w):
    ck.rule('C12.R4', 'best_fft states its size precondition: it compares a.len() with 1 << log_n before transforming (a shorter slice would be transformed as if it were '
                      'the documented power-of-two size)')
    f = _fn(ck, w, 'C12.R4', 'midnight_curves::fft::best_fft')
    if f is None:
        return
    ok = False
    # locals that hold a length: `let n = a.len();`
    len_locals = {l['pat']['i'] for l in walk(f['body']) if l.get('k') == 'let' and 'init' in l and l.get('pat', {}).get('k') == 'bind'
                  and peel(l['init']).get('k') == 'mcall' and peel(l['init']).get('m') == 'len'}

    def mentions_len(e):
        return any(c.get('m') == 'len' for c in hirq.calls(e)) or any(x.get('k') == 'local' and x.get('i') in len_locals for x in walk(e))
    for m in walk(f['body']):
        if m.get('k') == 'match':
            s = peel(m.get('e') or {})
            if s.get('k') == 'tup' and mentions_len(s) and any(b.get('k') == 'bin' and b.get('op') == '<<' for b in walk(s)):
                ok = True
        if m.get('k') == 'bin' and m.get('op') in ('==', '!=') and mentions_len(m) and any(b.get('k') == 'bin' and b.get('op') == '<<' for b in walk(m)):
            ok = True
    ck.record('C12.R4', 'best_fft:size-precondition', ok, 'a.len() is compared with 1 << log_n', 'best_fft no longer checks a.len() == 1 << log_n', hirq.fn_loc(f))


def r5_empty(ck, w):
    ck.rule('C12.R5', 'the empty MSM is the identity on every entry point that indexes its first element: msm_specific and G1Projective::multi_exp return before the blst '
                      'call when there is nothing to add (blst\'s Pippenger reads points[0])')
    for nid, test in ((SPECIFIC, lambda c: c.get('m') == 'is_empty'), ('midnight_curves::bls12_381::g1::G1Projective::multi_exp', None)):
        f = _fn(ck, w, 'C12.R5', nid)
        if f is None:
            continue
        ok = False
        for n in walk(f['body']):
            if n.get('k') != 'if':
                continue
            c = n['c']
            empties = any(m.get('m') == 'is_empty' for m in hirq.calls(c)) or any(b.get('k') == 'bin' and b.get('op') == '==' and 'i:0' in (peel(b['a']).get('v'), peel(b['b']).get('v')) for b in walk(c))
            if empties and any(r.get('k') == 'ret' for r in walk(n['a'])):
                ok = True
        ck.record('C12.R5', f'{nid.split("::")[-1]}:empty-input', ok, 'returns the identity for the empty input before the blst call',
                  f'{nid} no longer answers the empty MSM before calling blst (out-of-bounds read of points[0])', hirq.fn_loc(f))
