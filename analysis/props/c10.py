"""C10 — field types: the decoder clause, the constants clause and two structural clauses of the batched / tower operations."""
from ..core import walk, callee, peel, pat_bindings, short, norm as norm_
from ..engines import checked, hirq
from .. import tables


def run(ck):
    w = ck.world()
    ck.explanation = (
        'Decoder clause (R1): every checked field decoder (from_repr, from_bytes[_le/_be], from_u64s_le, SerdeObject::from_raw_bytes / '
        'read_raw) of the BLS12-381 scalar and base fields, Fp2, the Jubjub scalar field, Curve25519 and secp256k1 base fields reaches the modulus comparison of '
        'its type, uses its result and returns failures instead of unwrapping; (R2) each modulus comparison itself is STRICT (x < p, never x <= p), in one of '
        'the recognised forms (borrow chain, most-significant-first scan, strict `<`); (R3) the by-reference Sum / Product impls terminate; (R4) the coefficient-wise '
        'methods of the generic tower fields touch every coefficient; (R5) the constants clause: the values the compiler computed for the published constants of the '
        'prime fields (and the Montgomery constants next to them) satisfy their defining equations. The arithmetic itself, square roots, the tower multiplication '
        'formulas and uniform reduction are numerical and NOT decided by static analysis.')
    ck.rule('C10.R1', 'CHECKED(field decoders): call closure contains the canonicity validator, its result is live, no unwrap in the decoder')
    n = checked.check_rows(ck, w, 'C10.R1', tables.C10_DECODERS)
    ck.floor('C10.R1', 'decoder/validator obligations', n, 15)
    r2_strict(ck, w)
    r3_accumulators(ck, w)
    r4_all_coefficients(ck, w)
    r5_constants(ck, w)
    eval_ops(ck, w, 'C10', 'C10.N1')


def r3_accumulators(ck, w, rule='C10.R3'):
    """Sum / Product over references terminate"""
    import re
    ck.rule(rule, 'batched variants: an impl of core::iter::Sum<X> / Product<X> for a field or curve type never hands its bare iterator parameter back to '
                  'Iterator::sum / Iterator::product — with the result type of the impl that call resolves to the same impl again (unconditional recursion, stack '
                  'overflow on the first use of `iter().sum()`).  The by-reference impls go through an adaptor that changes the item type (copied / cloned / map) '
                  'or fold explicitly.')
    n = 0
    for f in w.all_fns(['curves']):
        if not re.search(r' as core::iter::traits::accum::(Sum|Product)\b', f['_xid']) or '::tests' in f['_nid']:
            continue
        n += 1
        params = {p_['i'] for p_ in f.get('params', []) if p_.get('k') == 'bind'}
        bad = [c for c in hirq.calls(f['body']) if (callee(c) or '') in ('core::iter::traits::iterator::Iterator::sum', 'core::iter::traits::iterator::Iterator::product')
               and peel(c.get('recv', {})).get('k') == 'local' and peel(c['recv']).get('i') in params]
        ck.record(rule, f'{f["_xid"]}:terminates', not bad, 'does not re-enter itself through Iterator::sum / product',
                  f'{f["_xid"]} calls Iterator::sum / product directly on its iterator parameter: the call resolves to this very impl, every use recurses until the '
                  f'stack overflows', hirq.fn_loc(f))
    ck.floor(rule, 'Sum / Product impls', n, 20)


C10_PARTIAL_COEFFICIENTS = {
    'midnight_curves::ff_ext::quadratic::QuadExtField::conjugate': 'conjugation negates c1 in place and leaves c0 untouched',
}


def r4_all_coefficients(ck, w, rule='C10.R4'):
    """componentwise operations of the tower fields look at every coefficient"""
    import re
    from ..core import norm
    ck.rule(rule, 'tower construction: a method of the generic extension fields (QuadExtField c0 + c1 u, CubicExtField c0 + c1 v + c2 v^2, and their serde mirrors) '
                  'that reads or builds one coefficient reads or builds all of them (is_zero, ct_eq, conditional_select, neg, add, double, random, encodings, ...). '
                  'A predicate or operation that forgets a coefficient mis-handles every element that differs from another one only there '
                  '(is_zero ignoring c2 calls the invertible (0, 0, c2) zero).  Legitimately partial methods are tabled.')
    comp = {}
    for a in w.adts():
        if a['kind'] != 'Struct':
            continue
        fs = [fd['name'] for fd in a['variants'][0]['fields']]
        nid = norm(a['id'])
        if nid.startswith('midnight_curves::') and len(fs) >= 2 and all(re.fullmatch(r'c\d', x) for x in fs):
            comp[nid] = set(fs)
    n = 0
    for f in w.all_fns(['curves']):
        if '::tests' in f['_nid']:
            continue
        selfty = (f.get('impl') or {}).get('self', '')
        base = norm(selfty.split('<')[0]) if selfty else ''
        if base not in comp:
            continue
        read = set()
        for x in walk(f['body']):
            if x.get('k') == 'field' and re.fullmatch(r'c\d', x.get('n', '')):
                read.add(x['n'])
            if x.get('k') == 'struct':
                read |= {fl[0] for fl in x.get('fs', []) if re.fullmatch(r'c\d', fl[0])}
        if not read:
            continue
        n += 1
        missing = sorted(comp[base] - read)
        tab = C10_PARTIAL_COEFFICIENTS.get(f['_xid']) or C10_PARTIAL_COEFFICIENTS.get(f['_nid'])
        if missing and tab:
            ck.ok(rule, f'{f["_xid"]}:all-coefficients', 'tabled: ' + tab, hirq.fn_loc(f))
        else:
            ck.record(rule, f'{f["_xid"]}:all-coefficients', not missing, f'touches {sorted(read)}',
                      f'{f["_xid"]} touches the coefficients {sorted(read)} but never {missing}: elements that differ only in {missing} are treated alike', hirq.fn_loc(f))
    ck.floor(rule, 'coefficient-wise methods', n, 30)


def r5_constants(ck, w, rule='C10.R5'):
    """published constants satisfy their defining equations"""
    from ..engines import consteq
    ck.rule(rule, 'published constants: for every prime field that publishes its modulus as a string and stores elements as plain limb arrays, the values the '
                  'COMPILER computed for the constants (const evaluation, dumped by the driver; nothing of the program is run) satisfy their defining equations '
                  'modulo p: NUM_BITS / CAPACITY, 2*TWO_INV = 1, p - 1 = 2^S * t with t odd, ROOT_OF_UNITY primitive of order 2^S and equal to GENERATOR^t, '
                  'ROOT_OF_UNITY * ROOT_OF_UNITY_INV = 1, DELTA = GENERATOR^(2^S), GENERATOR a non-residue, ZETA a primitive cube root of unity.  The '
                  'representation is calibrated on the type\'s own ONE (value = raw / raw(ONE)), which covers canonical and Montgomery forms.  The threshold '
                  'constant of lexicographically_largest (`x >= HALF_MODULUS` by a borrow chain) equals (p - 1)/2 + 1.  Extension fields and opaque '
                  'wrappers (k256, dalek) are listed as not decided.')
    consts = consteq.load(w)
    fields = consteq.prime_fields(consts)
    nf = ne = 0
    moduli = {}
    for t, fc in sorted(fields.items()):
        res = consteq.equations(fc)
        if len(res) == 1 and res[0][1] is None:
            ck.ok(rule, f'{short(t)}:not-decided', res[0][2], nontrivial=False)
            continue
        nf += 1
        moduli[t] = int(fc.c['MODULUS']['str'], 16)
        for key, ok, detail in res:
            ne += 1
            ck.record(rule, f'{t}:{key}', ok, detail, f'{t}::{key}: the published constant does not satisfy its defining equation ({detail}): generic code that relies on it '
                      f'(FFT domains, square roots, permutation cosets, endomorphisms) computes with a wrong value', fc.loc.get(key.split('~')[0], ''))
    # Montgomery / modulus constants kept next to the field types
    nm = 0
    for cid, name, ok, detail, loc in consteq.module_equations(consts, fields):
        nm += 1
        ck.record(rule, f'{cid}', ok, detail, f'{cid}: the constant does not satisfy its definition ({detail}): Montgomery reduction / conversion / canonicity tests '
                  f'that use it compute with a wrong value', loc)
    ck.floor(rule, 'Montgomery and modulus constants', nm, 20)
    # threshold of lexicographically_largest
    nh = 0
    for c in consts:
        if not c['id'].endswith('::lexicographically_largest::HALF_MODULUS') or 'hex' not in c:
            continue
        t = c['id'][:-len('::lexicographically_largest::HALF_MODULUS')]
        p_ = moduli.get(t)
        f = w.fn(t + '::lexicographically_largest', required=False)
        if p_ is None or f is None:
            ck.ok(rule, f'{short(t)}:HALF_MODULUS:not-decided', 'modulus of the type not published as a string', nontrivial=False)
            continue
        borrow_form = any((callee(x) or '').endswith('arithmetic::sbb') for x in hirq.calls(f['body'])) and any(x.get('k') == 'un' and x.get('op') == '!' for x in walk(f['body']))
        if not borrow_form:
            ck.ok(rule, f'{t}:HALF_MODULUS:not-decided', 'comparison is not the recognised borrow chain `!(x - HALF_MODULUS borrows)`', nontrivial=False)
            continue
        nh += 1
        v = consteq.le(c['hex'])
        ck.record(rule, f'{t}:HALF_MODULUS', v == (p_ - 1) // 2 + 1, 'x >= (p - 1)/2 + 1 <=> x > -x',
                  f'{t}::lexicographically_largest compares with {hex(v)} but (p - 1)/2 + 1 = {hex((p_ - 1) // 2 + 1)}: at the boundary both x and -x (or neither) '
                  f'claim to be the largest', f"{c['file']}:{c['line']}")
    ck.floor(rule, 'prime fields with decided constants', nf, 4)
    ck.floor(rule, 'constant equations', ne, 40)
    ck.floor(rule, 'lexicographically_largest thresholds', nh, 1)


def mentions_modulus(n):
    return any(x.get('k') == 'path' and 'MODULUS' in (x.get('p') or '').rsplit('::', 1)[-1] for x in walk(n))


def is_lit(n, v):
    n = peel(n)
    return n.get('k') == 'lit' and n.get('v') in (f'i:{v}', f'bool:{v}', str(v))


def lit_bool(n):
    n = peel(n)
    while n.get('k') == 'block' and not n.get('ss') and 'e' in n:
        n = peel(n['e'])
    if n.get('k') == 'block' and len(n.get('ss', [])) == 1 and 'e' not in n:
        n = peel(n['ss'][0])
        while n.get('k') in ('semi', 'stmt'):
            n = peel(n['e'])
    if n.get('k') == 'ret' and 'e' in n:
        n = peel(n['e'])
    if n.get('k') == 'lit' and n.get('v') in ('bool:true', 'bool:false'):
        return n['v'] == 'bool:true'
    return None


def classify_validator(f):
    """(forms recognised, problems) for a function deciding `candidate < modulus`"""
    body = f['body']
    forms, problems = [], []
    # ---- form B: borrow chain  x - p  (borrow set  <=>  x < p)
    sbbs = [n for n in hirq.calls(body) if (callee(n) or '').endswith('arithmetic::sbb')]
    msbbs = [n for n in sbbs if any(mentions_modulus(a) for a in n.get('args', []))]
    if msbbs:
        forms.append('borrow-chain')
        for n in msbbs:
            a = n['args']
            if not (mentions_modulus(a[1]) and not mentions_modulus(a[0])):
                problems.append(f'line {n.get("l")}: sbb(p, x, ..) subtracts the candidate from the modulus: no borrow <=> x <= p (non-strict)')
        masks = [n for n in walk(body) if n.get('k') == 'bin' and n.get('op') == '&' and (is_lit(n['b'], 1) or is_lit(n['a'], 1))]
        if not masks:
            problems.append('the final borrow is not reduced to its low bit (`borrow as u8 & 1`)')
        for n in walk(body):
            if n.get('k') == 'bin' and n.get('op') in ('==', '!='):
                sides = [peel(n['a']), peel(n['b'])]
                for i in (0, 1):
                    if any(sides[i] is m for m in masks):
                        other = sides[1 - i]
                        good = (n['op'] == '==' and is_lit(other, 1)) or (n['op'] == '!=' and is_lit(other, 0))
                        if not good:
                            problems.append(f'line {n.get("l")}: accepts when the subtraction x - p does NOT borrow, i.e. when x >= p')
    # ---- form A: lexicographic scan from the most significant limb
    for lp in [n for n in walk(body) if n.get('k') == 'for' and mentions_modulus(n['iter'])]:
        forms.append('lexicographic-scan')
        zips = [m for m in walk(lp['iter']) if m.get('k') == 'mcall' and m.get('m') == 'zip']
        if not any(m.get('k') == 'mcall' and m.get('m') == 'rev' for m in walk(lp['iter'])):
            problems.append(f'line {lp.get("l")}: the scan does not start from the most significant limb (.rev() missing)')
        binds = pat_bindings(lp['pat'])
        if len(zips) != 1 or len(binds) != 2:
            problems.append(f'line {lp.get("l")}: unrecognised scan shape')
            continue
        mod_first = mentions_modulus(zips[0]['recv'])
        x_id, p_id = (binds[1]['i'], binds[0]['i']) if mod_first else (binds[0]['i'], binds[1]['i'])
        seen = {}
        for n in walk(lp['body']):
            if n.get('k') != 'if':
                continue
            c = peel(n['c'])
            if c.get('k') != 'bin' or c.get('op') not in ('<', '>', '<=', '>=', '==', '!='):
                continue
            a, b = peel(c['a']), peel(c['b'])
            if a.get('k') != 'local' or b.get('k') != 'local' or {a['i'], b['i']} != {x_id, p_id}:
                continue
            op = c['op']
            if a['i'] == p_id:      # normalise to  x OP p
                op = {'<': '>', '>': '<', '<=': '>=', '>=': '<='}.get(op, op)
            seen[op] = lit_bool(n['a'])
        if seen.get('<') is not True or seen.get('>') is not False or any(o in seen for o in ('<=', '>=')):
            problems.append(f'line {lp.get("l")}: limb decisions are {seen}: expected  x_i < p_i -> true,  x_i > p_i -> false  and nothing else')
        tail = lit_bool(body['e']) if body.get('k') == 'block' and 'e' in body else None
        if tail is not False:
            problems.append('all limbs equal (x == p) must be rejected: the value after the scan is not the literal `false`')
    # ---- form C: comparison operators / Iterator comparison methods against the modulus
    for n in walk(body):
        if n.get('k') == 'mcall' and n.get('m') in ('lt', 'le', 'gt', 'ge', 'cmp', 'partial_cmp') and (mentions_modulus(n['recv']) or any(mentions_modulus(a) for a in n.get('args', []))):
            x_recv = not mentions_modulus(n['recv'])
            m = n['m']
            if (m == 'lt' and x_recv) or (m == 'gt' and not x_recv):
                forms.append('strict-comparison')
            elif m in ('cmp', 'partial_cmp'):
                forms.append('ordering')
                problems.append(f'line {n.get("l")}: decides through an Ordering: not a recognised strict form (needs triage)')
            else:
                forms.append('comparison')
                problems.append(f'line {n.get("l")}: `.{m}()` against the modulus ' + ('accepts x == p (non-strict)' if m in ('le', 'ge') else 'has the operands the wrong way round'))
        if n.get('k') == 'bin' and n.get('op') in ('<', '<=', '>', '>=') and (mentions_modulus(n['a']) != mentions_modulus(n['b'])):
            x_left = not mentions_modulus(n['a'])
            op = n['op']
            if (op == '<' and x_left) or (op == '>' and not x_left):
                forms.append('strict-comparison')
            else:
                forms.append('comparison')
                problems.append(f'line {n.get("l")}: `{op}` against the modulus is not the strict test x < p')
    if not forms:
        problems.append('no recognised comparison against the modulus (borrow chain x - p, most-significant-first scan, or a strict `<`)')
    return forms, problems


def r2_strict(ck, w):
    ck.rule('C10.R2', 'STRICT: every leaf modulus validator decides x < p strictly, in a recognised form: (a) borrow chain sbb(x_i, p_i, borrow) whose final borrow bit '
                      'must be SET; (b) scan from the most significant limb with x_i < p_i -> true, x_i > p_i -> false, equality falling through to `false`; '
                      '(c) a strict `<` / Iterator::lt with the candidate on the left.  `<=`-shaped variants accept the modulus itself as a second encoding of 0.')
    n = 0
    for xid in tables.C10_VALIDATORS:
        f = w.fn_x(xid, required=False)
        if f is None:
            ck.bad('C10.R2', f'{xid}:anchor', f'validator {xid} not found (anchor)')
            continue
        n += 1
        forms, problems = classify_validator(f)
        ck.record('C10.R2', f'{xid}:strict', not problems, f'strict, form(s) {sorted(set(forms))}',
                  f'{xid}: ' + '; '.join(problems), hirq.fn_loc(f))
    ck.floor('C10.R2', 'modulus validators', n, 5)


# ---------------------------------------------------------------- nesting profile (shared with C11)
# conversions and borrows that carry no decision: adding or removing one (a needless clone, `iter()` for `into_iter()`, `to_vec()`) is not an operation of the profile
PLUMBING = {'clone', 'to_owned', 'borrow', 'as_ref', 'as_mut', 'into_iter', 'iter', 'iter_mut', 'copied', 'cloned', 'to_vec', 'as_slice', 'as_mut_slice', 'as_str',
            'to_string', 'deref', 'deref_mut', 'collect', 'by_ref', 'into', 'map', 'for_each', 'try_for_each', 'enumerate', 'par_iter', 'into_par_iter', 'par_iter_mut',
            'take', 'skip'}      # (take / skip: their ADDITION is what the narrowing profile N2 reports)


ASSERT_MACROS = {'assert', 'assert_eq', 'assert_ne', 'debug_assert', 'debug_assert_eq', 'debug_assert_ne'}
# spellings of one operation (`unwrap()` / `expect("..")`)
CANON_CALLEE = {'core::option::Option::expect': 'core::option::Option::unwrap', 'core::result::Result::expect': 'core::result::Result::unwrap',
                'core::result::Result::expect_err': 'core::result::Result::unwrap_err', 'subtle::CtOption::expect': 'subtle::CtOption::unwrap'}


def is_plumbing(c):
    """conversions, borrows and iteration drivers carry no decision of their own: adding or removing one (a needless clone, `iter()` for `into_iter()`, a `for` loop
    for `try_for_each`) is not an operation of the profile — what the loop body or the closure does is"""
    return c.rsplit('::', 1)[-1] in PLUMBING and not c.startswith(('midnight_', '<midnight_'))


def nesting_profile(f, builtin=False):
    """{operation: sorted list of branch depths of its sites}; operation = resolved callee of a call / method call / overloaded operator;
    builtin=True also profiles the built-in integer operators and comparisons (`+=`, `-`, `<`, `<=`, …)"""
    from ..core import children
    prof = {}

    def emptiness(n):
        """`x.is_empty()`, `x.len() == 0`, `0 == x.len()`, `x.len() != 0`, `x.len() > 0`, `x.len() < 1`, `x.len() >= 1`: one idiom (clippy::len_zero rewrites one into
        the other); returns the receiver"""
        n = peel(n)
        if n.get('k') == 'mcall' and n.get('m') == 'is_empty' and not n.get('args'):
            return n['recv']
        if n.get('k') == 'bin' and n.get('op') in ('==', '!=', '>', '<', '>=', '<=') and not n.get('f'):
            a, b = peel(n['a']), peel(n['b'])
            for x, y in ((a, b), (b, a)):
                if x.get('k') == 'mcall' and x.get('m') == 'len' and not x.get('args') and y.get('k') == 'lit' and y.get('v') in ('i:0', 'i:1'):
                    return x['recv']
        return None

    def rec(n, d, under_assert=False, assert_cond=False):
        k = n.get('k')
        ia = any(m in ASSERT_MACROS for m in (n.get('x') or []))
        if ia and not under_assert:
            prof.setdefault('assertion', []).append(d)          # assert!(a == b), assert_eq!(a, b), debug_assert.. : one operation, whatever the macro
        if ia or (assert_cond and k == 'bin' and n.get('op') in ('==', '!=')):
            # code of the macro expansion itself (and the top-level comparison handed to assert!): only the user-written operands count
            for c2 in children(n):
                rec(c2, d, True, ia and k == 'un' and n.get('op') == '!')
            return
        if builtin:
            r = emptiness(n)
            if r is None and k == 'un' and n.get('op') == '!' and not n.get('f'):
                r = emptiness(n['e'])
            if r is not None:
                prof.setdefault('emptiness test', []).append(d)
                rec(r, d)
                return
        if k in ('call', 'mcall') and ('f' in n or 'rs' in n):
            c = callee(n)
            if c and not c.startswith(('core::fmt', 'core::panicking', 'std::panicking', 'core::option::Option::Some', 'core::result::Result::Ok')) \
                    and not (builtin and is_plumbing(c)):
                prof.setdefault(CANON_CALLEE.get(c, c), []).append(d)
        elif k in ('bin', 'assignop', 'un') and n.get('f'):
            fo, op = (n.get('f') or ''), str(n.get('op'))
            if fo.endswith('PartialEq::ne') or op == '!=':
                fo, op = fo.replace('PartialEq::ne', 'PartialEq::eq'), '=='
            prof.setdefault(fo + ':' + op, []).append(d)
        elif builtin and k in ('bin', 'assignop') and n.get('op') not in ('&&', '||'):
            # `&&` / `||` are control flow in disguise (`a && b` <-> `if !a { return .. } b`); `==` and `!=` are one comparison seen from its two branches
            op = '==' if n.get('op') == '!=' else str(n.get('op'))
            prof.setdefault('builtin:' + op + ('=' if k == 'assignop' and not op.endswith('=') else ''), []).append(d)
        elif builtin and k == 'un' and n.get('op') in ('!', '-'):
            prof.setdefault('builtin:unary' + str(n.get('op')), []).append(d)
        if builtin:
            # the remaining value-level shape of bookkeeping code: integer literals, `?`, casts, range constructors
            if k == 'lit' and str(n.get('v', '')).startswith('i:'):
                prof.setdefault('literal ' + str(n['v'])[2:], []).append(d)
            elif k == 'lit' and str(n.get('v', '')).startswith('bool:'):
                prof.setdefault('literal ' + str(n['v'])[5:], []).append(d)          # a flag handed to a call (compressed / checked / is_identity ..)
            elif k == 'try':
                prof.setdefault('operator ?', []).append(d)
            elif k == 'assign':
                l = peel(n['lhs'])
                what = ('.' + str(l.get('n'))) if l.get('k') == 'field' else ('[..]' if l.get('k') == 'index' else 'variable')
                prof.setdefault('store ' + what, []).append(d)          # a plain assignment (state update, reset, cursor move)
            elif k == 'cast' and n.get('t'):
                prof.setdefault('cast as ' + str(n['t']), []).append(d)
            elif k == 'struct' and 'ops::range::' in (n.get('p') or ''):
                prof.setdefault('range inclusive' if 'Inclusive' in str(n['p']) else 'range', []).append(d)
        if k == 'if':
            # `if c { return e; } rest`  and  `if c { return e } else { rest }`  are one shape: the arm opposite to a diverging arm stays at the current depth
            from ..engines.taint import diverges

            def exits(arm):
                if diverges(arm):
                    return True
                t = peel(arm)
                while t.get('k') == 'block' and isinstance(t.get('e'), dict) and not t.get('ss'):
                    t = peel(t['e'])
                if t.get('k') == 'block' and isinstance(t.get('e'), dict):
                    t = peel(t['e'])
                return t.get('k') == 'call' and (t.get('f') or '').endswith('Result::Err')
            a_div = exits(n['a'])
            b_div = 'b' in n and exits(n['b'])
            rec(n['c'], d)
            rec(n['a'], d if b_div and not a_div else d + 1)
            if 'b' in n:
                rec(n['b'], d if a_div and not b_div else d + 1)
            return
        if k == 'match' and n.get('src') == 'match':
            rec(n['e'], d)
            for a in n['arms']:
                if 'guard' in a:
                    rec(a['guard'], d + 1)
                rec(a['body'], d + 1)
            return
        for c2 in children(n):
            rec(c2, d)
    rec(f['body'], 0)
    for key, n_ in use_profile(f).items():
        prof[key] = [0] * n_
    return {k2: sorted(v) for k2, v in prof.items()}


def use_profile(f):
    """One-level def-use shape of the calls of workspace functions: {`use <callee> arg<j> <- <origin>`: sites}.  The origin of an argument is where its value
    comes from, named without any local name: a parameter position (`#2`, `#2.x` for a field of a parameter), the callee whose result it is (directly or through a
    `let`), a constant / literal, or `expr`.  Exchanging two operands, handing a call the wrong (type-compatible) variable or the wrong field changes an origin."""
    from collections import Counter
    from ..core import alias_roots, pat_bindings
    params = {}
    for j, p_ in enumerate(f.get('params', [])):
        for b in pat_bindings(p_):
            params[b['i']] = f'#{j}'
    lets = {}
    mutated = set()
    for x in walk(f['body']):
        if x.get('k') == 'let' and 'init' in x and x.get('pat', {}).get('k') == 'bind':
            lets[x['pat']['i']] = x['init']
            if x['pat'].get('mut'):
                mutated.add(x['pat']['i'])
        elif x.get('k') in ('assign', 'assignop'):
            l = peel(x['lhs'])
            while l.get('k') in ('field', 'index'):
                l = peel(l['e'])
            if l.get('k') == 'local':
                mutated.add(l['i'])

    # locals bound by a destructuring pattern (match arm, if let, let (a, b) = .., for (a, b) in .., closure |(a, b)|): named by their POSITION in the pattern
    # (`pat Product.1`, `pat .0`, `pat Point.x`), never by their name — two values that come out of one pattern are no longer the same origin
    patpos = {}

    def name_pat(p_, path):
        k_ = p_.get('k')
        if k_ == 'bind':
            if path and p_['i'] not in params:
                patpos.setdefault(p_['i'], 'pat ' + path)
            if 'sub' in p_:
                name_pat(p_['sub'], path)
        elif k_ == 'ts':
            v = short(norm_(p_.get('p') or '')).rsplit('::', 1)[-1]
            for j_, s_ in enumerate(p_.get('subs', [])):
                name_pat(s_, f'{v}.{j_}')
        elif k_ == 'tuple':
            for j_, s_ in enumerate(p_.get('subs', [])):
                name_pat(s_, f'{path}.{j_}' if path else f'.{j_}')
        elif k_ == 'struct':
            v = short(norm_(p_.get('p') or '')).rsplit('::', 1)[-1]
            for fs_ in p_.get('fs', []):
                name_pat(fs_[1], f'{v}.{fs_[0]}')
        elif k_ in ('ref', 'guard'):
            name_pat(p_['sub'], path)
        elif k_ == 'or':
            for s_ in p_.get('subs', []):
                name_pat(s_, path)

    def find_pats(n_):
        if isinstance(n_, dict):
            pt = n_.get('pat')
            if isinstance(pt, dict) and pt.get('k') != 'bind':
                name_pat(pt, '')
            if n_.get('k') == 'closure':
                for q in n_.get('params', []):
                    if isinstance(q, dict) and q.get('k') != 'bind':
                        name_pat(q, '')
            for v_ in n_.values():
                if isinstance(v_, (dict, list)):
                    find_pats(v_)
        elif isinstance(n_, list):
            for v_ in n_:
                find_pats(v_)
    find_pats(f['body'])

    def origin(e, hops=0, nest=0):
        """hops: `let` bindings followed (bounded, helper expansion adds a few); nest: 1 while naming the inputs of a producing call (one level only)"""
        e = peel(e)
        while e.get('k') in ('try', 'cast', 'stmt') or (e.get('k') == 'mcall' and not e.get('args') and (callee(e) or '').rsplit('::', 1)[-1] in PLUMBING):
            e = peel(e['recv'] if e.get('k') == 'mcall' else e['e'])
        k = e.get('k')
        if k == 'block' and isinstance(e.get('e'), dict):
            return origin(e['e'], hops, nest)          # the value of a block is its tail expression
        if k == 'lit':
            return 'literal'
        if k == 'path':
            return 'const ' + short(norm_(e.get('p') or ''))
        if k == 'call' and e.get('dk') == 'Ctor' and (e.get('f') or '').endswith(('Result::Ok', 'Option::Some')) and len(e.get('args', [])) == 1:
            return origin(e['args'][0], hops, nest)          # Ok(x)? / Some(x): the wrapped value
        if k == 'iret' and isinstance(e.get('e'), dict):
            return origin(e['e'], hops, nest)
        if k in ('call', 'mcall'):
            c = callee(e)
            if not c:
                return 'expr'
            # which inputs the producing call was given (one level): tells `is_equal(p.x, q.x)` from `is_equal(p.y, q.y)`, `query(cfg.q_a)` from `query(cfg.q_b)`
            inner = []
            if nest == 0:
                for a in ([e['recv']] if k == 'mcall' else []) + list(e.get('args', [])):
                    t = (peel(a).get('t') or a.get('t') or '')
                    if 'Layouter' in t or 'Region' in t:
                        continue
                    o = origin(a, hops, 1)
                    if o.startswith(('#', 'const ', '(', 'pat ')) and o != '#0':
                        inner.append(o)
            return 'result of ' + short(c) + ('(' + ', '.join(inner) + ')' if inner else '')
        if k in ('bin', 'un') and e.get('f'):
            return 'result of ' + short(norm_(e['f'])) + ':' + str(e.get('op'))
        if k == 'bin' and e.get('op') in ('+', '-', '*', '/', '%', '<<', '>>'):
            # built-in arithmetic handed to a call (a bound, a width, an offset): its shape over named leaves, e.g. `((const M + literal) - #3)`
            if nest < 3:
                a_, b_ = origin(e['a'], hops, max(nest, 1) + 1), origin(e['b'], hops, max(nest, 1) + 1)
                if any(x.startswith(('#', 'const ', 'result of', '(', 'pat ')) for x in (a_, b_)):
                    return '(' + a_ + ' ' + str(e['op']) + ' ' + b_ + ')'
            return 'expr'
        if k == 'field' and not str(e.get('n', '')).isdigit():
            o = origin(e['e'], hops, nest)
            return o + '.' + e['n'] if o.startswith('#') else o
        if k in ('field', 'index'):
            return origin(e['e'], hops, nest)
        if k == 'local':
            i = e['i']
            if i in params:
                return params[i]
            if i in mutated:
                return 'mutable local'
            if i in lets and hops < 10:
                return origin(lets[i], hops + 1, nest)
            if i in patpos:
                return patpos[i]
            return 'local'
        if k == 'closure':
            return 'closure'
        return 'expr'
    prof = Counter()
    for x in walk(f['body']):
        if x.get('k') == 'struct' and (x.get('p') or '').startswith(('midnight_', '<midnight_')) and len(x.get('fs', [])) >= 2:
            # a struct literal of the workspace: which value each field receives (exchanged coordinates / limbs / channels)
            for fname, fe in x['fs']:
                o = origin(fe)
                if o not in ('expr', 'local', 'literal'):
                    prof[f'field {short(norm_(x["p"]))}.{fname} <- {o}'] += 1
            continue
        if x.get('k') not in ('call', 'mcall'):
            continue
        c = callee(x) or ''
        if not c.startswith(('midnight_', '<midnight_')) or c.rsplit('::', 1)[-1] in PLUMBING:
            continue
        args = ([x['recv']] if x.get('k') == 'mcall' else []) + list(x.get('args', []))
        for j, a in enumerate(args):
            t = (peel(a).get('t') or a.get('t') or '')
            if 'Layouter' in t or 'Region' in t:
                continue
            o = origin(a)
            if o in ('expr', 'local', 'closure', '#0') and j == 0 and x.get('k') == 'mcall':
                continue            # the receiver chip / self
            prof[f'use {short(c)} arg{j} <- {o}'] += 1
    return dict(prof)


def profile_dominates(cur, ref):
    """every reference site still exists at the same or a shallower branch depth (sites may be added or hoisted, not removed or pushed into a branch)"""
    cur = sorted(cur)
    for i, d in enumerate(sorted(ref)):
        if i >= len(cur) or cur[i] > d:
            return False
    return True


def curves_scope(file, prop):
    c11 = any(x in file for x in ('/g1.rs', '/g2.rs', 'curve.rs', 'curve25519/affine.rs', 'hash_to_curve', 'derive/curve', '/gt.rs', 'pairing'))
    return (prop == 'C11') == c11


def mine_nesting(w, config):
    rows = []
    from collections import Counter
    seen = Counter(f['_xid'] for f in w.all_fns(['curves']))
    for f in w.all_fns(['curves']):
        if '::tests::' in f['_nid'] or '/tests' in f['file'] or f['file'].endswith('tests.rs'):
            continue
        if seen[f['_xid']] > 1:
            continue            # several impls print the same id (operator impls for T and &T): not addressable, skipped
        prop = 'C11' if curves_scope(f['file'], 'C11') else 'C10'
        for op, depths in sorted(nesting_profile(f).items()):
            rows.append(dict(property=prop, config=config, fn=f['_xid'], op=op, depths=depths))
    return rows


def eval_nesting(ck, w, prop, rule):
    import json, os
    from .. import facts
    path = os.path.join(facts.VERIF, 'rules', 'nesting.json')
    rows = [r for r in json.load(open(path)) if r['property'] == prop and r['config'] == ck.config]
    ck.rule(rule, 'branch-nesting profile of the arithmetic code (rules/nesting.json, mined per feature configuration): for every function of the curves crate in '
                  'the scope of this property and every operation it performs (resolved callee, overloaded operator), each site of the reference tree still '
                  'exists at the same or a shallower branch depth.  Field and curve formulas are straight-line code taken from the literature; a step that '
                  'disappears, or that moves under an `if` / into one `match` arm, changes the formula on the other paths.  Added and hoisted steps never fire; '
                  'the arithmetic itself (operands, constants) is NOT decided.')
    byfn = {}
    for r in rows:
        byfn.setdefault(r['fn'], []).append(r)
    n = 0
    missing = 0
    for fx, rs in sorted(byfn.items()):
        f = w.fn_x(fx, required=False)
        if f is None:
            missing += 1
            ck.bad(rule, f'{fx}:anchor', f'function {fx} of the nesting table not found (renamed/removed: needs triage)')
            continue
        cur = nesting_profile(f)
        bad = []
        for r in rs:
            n += 1
            if not profile_dominates(cur.get(r['op'], []), r['depths']):
                bad.append((r['op'], r['depths'], cur.get(r['op'], [])))
        if bad:
            for op, ref, now in bad[:4]:
                ck.bad(rule, f'{fx}|{short(op)}', f'{fx}: `{op}` had sites at branch depths {ref} on the reference tree and has {now} now: a step of the formula was '
                       f'removed or moved under a condition', hirq.fn_loc(f))
        else:
            ck.ok(rule, f'{fx}', f'{len(rs)} operations keep their sites', hirq.fn_loc(f))
    ck.floor(rule, 'operation profiles', n, 1000 if prop == 'C10' else 600)


OPS_SCOPES = {
    # property -> (crates, file prefixes): code whose operations (resolved callees, overloaded operators, built-in operators, literals, def-use shape ...) are
    # profiled.  Scopes overlap on purpose: a file belongs to every property whose behaviour it takes part in; every anchor file of properties.jsonl is covered.
    'C01': (['proofs', 'zk_stdlib'], ('proofs/src/plonk/', 'proofs/src/poly/', 'proofs/src/circuit/', 'proofs/src/utils/arithmetic.rs', 'proofs/src/transcript/',
                                      'zk_stdlib/src/utils/plonk_api.rs')),
    'C02': (['proofs'], ('proofs/src/plonk/', 'proofs/src/dev/mod.rs', 'proofs/src/dev/util.rs', 'proofs/src/dev/failure.rs', 'proofs/src/circuit/')),
    'C03': (['proofs', 'zk_stdlib', 'circuits', 'curves'], ('proofs/src/transcript/', 'proofs/src/plonk/verifier.rs', 'proofs/src/plonk/mod.rs', 'proofs/src/poly/kzg/mod.rs',
                                                            'proofs/src/poly/kzg/msm.rs', 'zk_stdlib/src/lib.rs', 'zk_stdlib/src/utils/plonk_api.rs',
                                                            'circuits/src/hash/poseidon/poseidon_cpu.rs', 'curves/src/bls12_381/g1.rs', 'curves/src/bls12_381/fq.rs')),
    'C04': (['circuits', 'zk_stdlib'], ('circuits/src/field/native/', 'circuits/src/field/decomposition/', 'circuits/src/vec/', 'circuits/src/map/', 'circuits/src/utils/',
                                        'circuits/src/instructions/', 'circuits/src/types', 'zk_stdlib/src/lib.rs')),
    'C05': (['circuits', 'zk_stdlib'], ('circuits/src/field/foreign/', 'circuits/src/biguint/', 'zk_stdlib/src/lib.rs')),
    'C06': (['circuits', 'zkir'], ('circuits/src/ecc/', 'circuits/src/instructions/ecc.rs', 'circuits/src/utils/util.rs', 'zkir/src/instructions/operations/into_bytes.rs')),
    'C07': (['circuits', 'zk_stdlib'], ('circuits/src/hash/', 'circuits/src/instructions/hash.rs', 'circuits/src/instructions/sponge.rs', 'zk_stdlib/src/external/',
                                        'zk_stdlib/src/lib.rs')),
    'C08': (['circuits', 'zk_stdlib', 'zkir', 'aggregator', 'proofs'], ('circuits/src/', 'zk_stdlib/src/', 'zkir/src/', 'aggregator/src/', 'proofs/src/plonk/mod.rs')),
    'C09': (['proofs', 'circuits', 'zk_stdlib'], ('proofs/src/plonk/keygen.rs', 'proofs/src/plonk/prover.rs', 'proofs/src/circuit/', 'proofs/src/dev/cost_model.rs',
                                                  'circuits/src/field/native/native_chip.rs', 'circuits/src/ecc/', 'circuits/src/vec/', 'circuits/src/map/',
                                                  'circuits/src/field/foreign/field_chip.rs', 'zk_stdlib/src/lib.rs')),
    'C12': (['curves', 'proofs'], ('curves/src/msm.rs', 'curves/src/fft.rs', 'proofs/src/poly/domain.rs', 'proofs/src/poly/mod.rs', 'proofs/src/utils/arithmetic.rs',
                                   'proofs/src/utils/rational.rs', 'proofs/src/poly/kzg/msm.rs', 'proofs/src/poly/kzg/params.rs')),
    'C13': (['curves', 'proofs'], ('curves/src/bls12_381/bls_pairing.rs', 'curves/src/bls12_381/gt.rs', 'curves/src/bls12_381/fp12.rs', 'curves/src/bls12_381/mod.rs',
                                   'curves/src/bls12_381/g2.rs', 'proofs/src/poly/kzg/msm.rs')),
    'C14': (['proofs', 'circuits'], ('proofs/src/poly/', 'proofs/src/utils/arithmetic.rs', 'circuits/src/verifier/kzg.rs')),
    'C15': (['proofs', 'circuits', 'zk_stdlib'], ('proofs/src/poly/commitment.rs', 'proofs/src/poly/kzg/', 'circuits/src/verifier/accumulator.rs', 'circuits/src/verifier/msm.rs',
                                                   'zk_stdlib/src/lib.rs')),
    'C16': (['proofs', 'zk_stdlib', 'zkir', 'aggregator', 'curves', 'circuits'],
            ('proofs/src/utils/', 'proofs/src/plonk/mod.rs', 'proofs/src/poly/kzg/', 'proofs/src/poly/mod.rs', 'proofs/src/plonk/verifier.rs', 'proofs/src/plonk/permutation.rs',
             'proofs/src/plonk/lookup/verifier.rs', 'proofs/src/plonk/trash/verifier.rs', 'proofs/src/plonk/vanishing/verifier.rs', 'proofs/src/plonk/permutation/verifier.rs',
             'proofs/src/transcript/', 'zk_stdlib/src/utils/', 'zk_stdlib/src/lib.rs', 'zkir/src/', 'aggregator/src/light_aggregator.rs', 'curves/src/bls12_381/g1.rs',
             'curves/src/bls12_381/g2.rs', 'curves/src/bls12_381/fq.rs', 'curves/src/serde_impl.rs', 'circuits/src/parsing/serialization.rs')),
    'C17': (['proofs', 'zk_stdlib'], ('proofs/src/plonk/', 'proofs/src/poly/', 'proofs/src/utils/helpers.rs', 'proofs/src/utils/arithmetic.rs', 'zk_stdlib/src/utils/',
                                      'zk_stdlib/src/lib.rs')),
    'C18': (['zkir'], ('zkir/src/',)),
    'C19': (['circuits'], ('circuits/src/parsing/', 'circuits/src/instructions/base64.rs')),
    'C20': (['aggregator', 'circuits'], ('aggregator/src/', 'circuits/src/verifier/')),
}
OPS_CONFIGS = ('default', 'truncated')


def ops_functions(w, prop):
    from collections import Counter
    if prop in ('C10', 'C11'):
        seen = Counter(f['_xid'] for f in w.all_fns(['curves']))
        for f in w.all_fns(['curves']):
            if '::tests::' in f['_nid'] or '/tests' in f['file'] or f['file'].endswith('tests.rs') or seen[f['_xid']] > 1:
                continue
            if (prop == 'C11') == curves_scope(f['file'], 'C11'):
                yield f
        return
    crates, prefixes = OPS_SCOPES[prop]
    crates = [c for c in crates if c in w.crates()]
    seen = Counter(f['_xid'] for f in w.all_fns(crates))
    for f in w.all_fns(crates):
        if '::tests::' in f['_nid'] or '/tests' in f['file'] or f['file'].endswith('tests.rs') or not f['file'].startswith(prefixes) or seen[f['_xid']] > 1:
            continue
        if prop == 'C08' and not any(t in (f.get('name') or '') for t in ('public_input', 'publish', 'format_instance', 'committed_scalars', 'transcript_repr', 'from_parts', 'hash_into')) \
                and not f['file'].endswith(('circuits/src/verifier/msm.rs', 'circuits/src/verifier/accumulator.rs', 'circuits/src/instructions/public_input.rs',
                                            'zkir/src/instructions/operations/publish.rs', 'circuits/src/biguint/types.rs', 'circuits/src/utils/types.rs')):
            continue            # the encoders and binders of public inputs, wherever they live, and the whole of the anchor files that only deal with exposed values
        yield f


RESTRICTING = ('take', 'skip', 'filter', 'step_by', 'take_while', 'skip_while', 'filter_map', 'nth', 'split_at', 'split_first', 'split_last', 'find', 'position',
               'truncate', 'pop', 'dedup', 'retain')


def restrict_profile(f):
    """{kind: number of sites} of the constructs that NARROW an iteration or a collection: restricting iterator adaptors, sub-slicing with a range,
    `continue` / `break` inside loops"""
    from collections import Counter
    prof = Counter()
    for n in walk(f['body']):
        k = n.get('k')
        if k == 'mcall' and n.get('m') in RESTRICTING:
            c = callee(n) or ''
            if c.startswith(('core::iter', 'core::slice', 'alloc::vec', 'alloc::collections', 'rayon', '<')) or '::Iterator::' in c or 'Iterator' in c:
                prof[n['m']] += 1
        elif k == 'index' and 'Range' in (n.get('ixt') or ''):
            prof['[range]'] += 1
        elif k in ('continue', 'break'):
            prof[k] += 1
        elif k == 'call' and n.get('dk') == 'Ctor' and (n.get('f') or '').endswith('core::result::Result::Err'):
            prof['error exit'] += 1          # `return Err(e)`, `Err(e)?`, an arm whose value is `Err(e)`: a rejection, however it is spelled
        elif k == 'ret':
            e = peel(n['e']) if isinstance(n.get('e'), dict) else None
            ok_ctor = e is not None and e.get('k') == 'call' and ((e.get('f') or '') + (peel(e.get('fe', {})).get('p') or '') if isinstance(e.get('fe'), dict) else (e.get('f') or '')).endswith('Result::Ok')
            unit = e is None or (e.get('k') == 'tup' and not e.get('es'))
            if ok_ctor or unit:
                prof['early success return'] += 1
    return dict(prof)


def mine_ops(w, config='default'):
    """{property: {function: {operation: depths}}} and {property: {function: {restriction kind: sites}}}"""
    ops, rst = {}, {}
    for prop in sorted(OPS_SCOPES) + ['C10', 'C11']:
        if config == 'devcurves' and prop not in ('C10', 'C11'):
            continue
        o, r = ops.setdefault(prop, {}), rst.setdefault(prop, {})
        for f in ops_functions(w, prop):
            o[f['_xid']] = nesting_profile(f, builtin=True)
            rp = restrict_profile(f)
            if rp:
                r[f['_xid']] = rp
    return ops, rst


def write_ops_tables(worlds):
    """worlds: {config: World}.  The default configuration is stored in full, the others as the functions that differ from it."""
    import json, os
    from .. import facts
    out_o, out_r = {}, {}
    base_o = base_r = None
    for cfg in OPS_CONFIGS + ('devcurves',):
        o, r = mine_ops(worlds[cfg], cfg)
        if base_o is None:
            base_o, base_r = o, r
            out_o[cfg], out_r[cfg] = o, r
        else:
            out_o[cfg] = {p: {fn: v for fn, v in d.items() if base_o.get(p, {}).get(fn) != v} for p, d in o.items()}
            out_o[cfg + ':absent'] = {p: sorted(fn for fn in base_o.get(p, {}) if fn not in o.get(p, {})) for p in o}
            out_r[cfg] = {p: {fn: v for fn, v in d.items() if base_r.get(p, {}).get(fn) != v} for p, d in r.items()}
            out_r[cfg + ':absent'] = {p: sorted(fn for fn in base_r.get(p, {}) if fn not in r.get(p, {})) for p in r}
    for name, data in (('ops.json', out_o), ('restrict.json', out_r)):
        path = os.path.join(facts.VERIF, 'rules', name)
        with open(path + '.tmp', 'w') as fh:
            json.dump(data, fh)
        os.replace(path + '.tmp', path)          # atomic: a check that runs meanwhile reads the old or the new table, never half of one
    return sum(len(d) for d in out_o['default'].values()), sum(len(d) for d in out_r['default'].values())


def _table(name, prop, config):
    import json, os
    from .. import facts
    d = json.load(open(os.path.join(facts.VERIF, 'rules', name)))
    t = dict(d.get('default', {}).get(prop, {}))
    if config != 'default' and config in d:
        for fn in d.get(config + ':absent', {}).get(prop, []):
            t.pop(fn, None)
        t.update(d[config].get(prop, {}))
    return t


def eval_ops(ck, w, prop, rule):
    if any(r == rule for r in ck.rules):
        return
    table = _table('ops.json', prop, ck.config)
    ck.rule(rule, 'operation profile (rules/ops.json): for every function in ' + (', '.join(OPS_SCOPES[prop][1]) if prop in OPS_SCOPES else 'the curves crate in the scope of this property') +
                  ' and every operation it performs — resolved callees, overloaded operators, the BUILT-IN integer / boolean operators and comparisons, integer literals, `?`, '
                  'casts and range constructors — each site of '
                  'the reference tree still exists at the same or a shallower branch depth.  Index, offset, width and cursor arithmetic (`offset += n`, `i < len`, '
                  '`bits - 1`) is where off-by-one errors live; an operation that disappears (replaced by another one) or moves under a condition is reported.  '
                  'Added operations never fire; the values themselves are not decided.  New helpers are expanded and renamed functions are matched first.')
    n = 0
    for fx, ops in sorted(table.items()):
        f = w.fn_x(fx, required=False)
        if f is None:
            ck.bad(rule, f'{fx}:anchor', f'function {fx} of the operation table not found (removed: needs triage)')
            continue
        cur = nesting_profile(f, builtin=True)
        bad = [(op, ref, cur.get(op, [])) for op, ref in ops.items() if not profile_dominates(cur.get(op, []), ref)]
        n += len(ops)
        if bad:
            for op, ref, now in bad[:4]:
                ck.bad(rule, f'{fx}|{short(op)}', f'{fx}: `{op}` had sites at branch depths {ref} on the reference tree and has {now} now: an operation was removed, '
                       f'replaced or moved under a condition', hirq.fn_loc(f))
        else:
            ck.ok(rule, f'{fx}', f'{len(ops)} operations keep their sites', hirq.fn_loc(f))
    ck.floor(rule, 'operation profiles', n, 100)


def eval_restrict(ck, w, prop, rule):
    """N2: iteration domains are not narrowed"""
    from ..core import reference_fn_ids
    table = _table('restrict.json', prop, ck.config)
    ref = reference_fn_ids() or frozenset()
    ck.rule(rule, 'iteration domains are not narrowed (rules/restrict.json): no function of ' + (', '.join(OPS_SCOPES[prop][1]) if prop in OPS_SCOPES else 'the curves crate in the scope of this property') + ' gains a construct that narrows an '
                  'iteration or a collection — a restricting iterator adaptor (filter, skip, take, step_by, take_while, filter_map, find, position, nth, split_*), '
                  'a truncation (truncate, pop, retain, dedup), a sub-slice by a range, a `continue`, a `break`, an early `return Ok(..)` / `return;` or a new `Err(..)` (a rejection the reference tree does not have, whether returned, propagated or the value of an arm: the checker cannot tell a '
                  'redundant rejection from an over-strict one) — beyond those it has on the reference tree.  '
                  'Skipping an element of a protocol fold, of a per-element check or of a table is how one side of a protocol, or one element of a batch, '
                  'silently falls out of what is enforced.  Functions that are new are expanded into their callers first; removing a restriction never fires.')
    n = 0
    for f in ops_functions(w, prop):
        if f['_nid'] not in ref:
            continue            # a new function: judged where it is expanded
        n += 1
        allowed = table.get(f['_xid'], {})
        cur = restrict_profile(f)
        extra = sorted((k, v, allowed.get(k, 0)) for k, v in cur.items() if v > allowed.get(k, 0))
        if extra or cur:
            ck.record(rule, f'{f["_xid"]}', not extra, f'narrowing constructs {cur} (reference: {allowed})',
                      f'{f["_xid"]} gained narrowing construct(s) (kind, sites now, sites on the reference tree): {extra}: elements that were processed are now skipped',
                      hirq.fn_loc(f))
    ck.ok(rule, 'functions inspected', f'{n} functions')
    ck.floor(rule, 'functions inspected', n, 20)
