"""C10 — field types: the decoder clause only (checked decoders reject non-canonical encodings)."""
from ..engines import checked
from .. import tables


def run(ck):
    w = ck.world()
    ck.explanation = (
        'Decides only the decoder clause of the property: every checked field decoder (from_repr, from_bytes[_le/_be], from_u64s_le, SerdeObject::from_raw_bytes / '
        'read_raw) of the BLS12-381 scalar and base fields, Fp2, the Jubjub scalar field, Curve25519 and secp256k1 base fields reaches the modulus comparison of '
        'its type, uses its result and returns failures instead of unwrapping. All arithmetic, constants, tower construction, square roots and uniform reduction '
        'are numerical and NOT decided by static analysis.')
    ck.rule('C10.R1', 'CHECKED(field decoders): call closure contains the canonicity validator, its result is live, no unwrap in the decoder')
    n = checked.check_rows(ck, w, 'C10.R1', tables.C10_DECODERS)
    ck.floor('C10.R1', 'decoder/validator obligations', n, 15)
