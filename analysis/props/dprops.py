"""Shared constraint-flow lints (D1, D3, D4, D5) for the gadget properties C04–C07, C19 (and the gadget part of C20)."""
import json, os
from ..core import norm, short, walk, callee, callee_decl, peel, last_seg, mir_callee, pat_bindings
from ..engines import dlint, hirq, mustcall as mc, reach, valflow
from .. import tables, facts

SCOPES = {
    'C04': ('circuits/src/field/native/', 'circuits/src/field/decomposition/', 'circuits/src/instructions/', 'circuits/src/vec/', 'circuits/src/map/',
            'circuits/src/utils/', 'circuits/src/types', 'zk_stdlib/src/lib.rs'),
    'C05': ('circuits/src/field/foreign/', 'circuits/src/biguint/'),
    'C06': ('circuits/src/ecc/',),
    'C07': ('circuits/src/hash/', 'zk_stdlib/src/external/'),
    'C19': ('circuits/src/parsing/', 'circuits/src/instructions/base64.rs'),
    'C20': ('circuits/src/verifier/', 'aggregator/src/'),
    'C18': ('zkir/src/',),
}
CRATES = ['circuits', 'zk_stdlib', 'zkir', 'aggregator']
CT = {'AssignedBit', 'AssignedByte', 'AssignedBounded', 'AssignedField', 'AssignedNativePoint', 'AssignedScalarOfNativeCurve', 'AssignedBigUint',
      'AssignedForeignPoint', 'AssignedVector'}
UNSAFE = ('convert_unsafe', 'update_bound', 'from_limbs_unsafe', 'to_assigned_bounded_unsafe', 'point_from_coordinates_unsafe', 'assign_point_unchecked',
          'unsafe_convert_to_bytes', 'incomplete_add', 'incomplete_assert_different_x')


def in_scope(f, prop):
    if '::tests::' in f['_nid'] or '/tests' in f['file'] or f['file'].endswith('tests.rs'):
        return False
    return f['file'].startswith(SCOPES[prop])


def prop_of_file(file):
    for p, pre in SCOPES.items():
        if file.startswith(pre):
            return p
    return None


def enumerate_d4(w):
    from collections import defaultdict
    sites = defaultdict(set)
    for f in w.all_fns(CRATES):
        if '::tests::' in f['_nid'] or '/tests' in f['file']:
            continue
        for n in walk(f['body']):
            if n.get('k') == 'call' and n.get('dk') == 'Ctor':
                nm = last_seg(n.get('f') or '')
                if nm in CT:
                    sites['ctor:' + nm].add(f['_xid'])
            if n.get('k') == 'struct':
                nm = last_seg(n.get('p') or '')
                if nm in CT:
                    sites['lit:' + nm].add(f['_xid'])
            if n.get('k') in ('call', 'mcall') and 'f' in n:
                c = callee(n) or ''
                if last_seg(c) in UNSAFE:
                    sites['unsafe:' + last_seg(c)].add(f['_xid'])
    return sites


def assertish(c):
    n = last_seg(c)
    return n.startswith(('assert_', 'constrain_', 'enforce_', 'range_check', 'cond_assert')) or n in ('normalize', 'make_canonical', 'load', 'load_table', 'finalize', 'check_params')


def mine_mustcalls(w):
    midx = w.mir_index()
    rows = []
    allb = sorted(((b['_xid'], b) for nid0 in midx for b in w.mir_bodies(nid0)), key=lambda x: x[0])
    for nid, b in allb:
        if b['_crate'] not in ('circuits', 'zk_stdlib', 'aggregator') or '::tests::' in nid or '/tests' in b['file'] or '{closure' in nid:
            continue
        prop = prop_of_file(b['file'])
        if prop is None:
            continue
        callees = sorted({mir_callee(t) for _, t in mc.call_blocks(b, lambda c, t: assertish(c) and c.startswith(('midnight_', '<midnight_')))})
        for g in callees:
            ok, _ = mc.must_call(b, lambda c, t, g=g: c == g)
            if ok:
                rows.append(dict(property=prop, fn=nid, must_call=g))
    return rows


ITER_ADAPTORS = {'map', 'try_for_each', 'for_each', 'filter_map', 'flat_map', 'fold', 'try_fold', 'all', 'any', 'zip', 'scan'}


RESTRICTING = {'take', 'skip', 'filter', 'step_by', 'take_while', 'skip_while', 'filter_map', 'zip', 'chunks', 'chunks_exact', 'windows', 'nth', 'last', 'first',
               'split_at', 'split_first', 'split_last', 'find', 'position'}


def chain_restrictions(e):
    """restricting adaptors / sub-slicing on the receiver chain of an iteration source"""
    out = []
    e = peel(e)
    while True:
        k = e.get('k')
        if k == 'mcall':
            if e.get('m') in RESTRICTING:
                out.append(e['m'])
            e = peel(e['recv'])
        elif k == 'index':
            if 'Range' in (e.get('ixt') or ''):
                out.append('[range]')
            e = peel(e['e'])
        elif k in ('try', 'field', 'cast'):
            e = peel(e['e'])
        else:
            return out


def looped_checks(f, with_restrictions=False):
    """assert-like workspace callees invoked inside a loop / iterator closure of f (HIR);
    with_restrictions: {callee: sorted list of restricting adaptors on the iteration sources it sits under}"""
    from ..core import children
    out = {}

    def rec(n, in_loop, restr):
        k = n.get('k')
        if k in ('call', 'mcall') and 'f' in n:
            c = callee(n) or ''
            if in_loop and assertish(c) and c.startswith(('midnight_', '<midnight_')):
                out.setdefault(c, []).extend(restr)
            if k == 'mcall' and n.get('m') in ITER_ADAPTORS:
                rec(n['recv'], in_loop, restr)
                r2 = restr + chain_restrictions(n['recv']) + ([n['m']] if n['m'] in RESTRICTING else [])
                for a in n.get('args', []):
                    if peel(a).get('k') == 'closure':
                        rec(a, True, r2)
                    else:
                        rec(a, in_loop, restr)
                return
        if k == 'for':
            rec(n['iter'], in_loop, restr)
            rec(n['body'], True, restr + chain_restrictions(n['iter']))
            return
        if k == 'loop':
            rec(n['body'], True, restr)
            return
        for c2 in children(n):
            rec(c2, in_loop, restr)
    rec(f['body'], False, [])
    if with_restrictions:
        return {c: sorted(v) for c, v in out.items()}
    return set(out)


def mine_looped(w):
    rows = []
    for f in w.all_fns(CRATES):
        if '::tests::' in f['_nid'] or '/tests' in f['file']:
            continue
        prop = prop_of_file(f['file'])
        if prop is None:
            continue
        for g, restr in sorted(looped_checks(f, with_restrictions=True).items()):
            rows.append(dict(property=prop, fn=f['_xid'], looped_call=g, restrictions=restr))
    return rows


def bound_flows(f):
    """{(parameter, workspace circuit-building callee)} such that the parameter reaches a bound-typed argument of the callee by value"""
    vf = valflow.ValFlow(f)
    out = {}
    for n, c, deps in vf.call_sites():
        if not c.startswith(('midnight_', '<midnight_')) or not valflow.circuit_call(n):
            continue
        for p in deps:
            out.setdefault((p, c), n)
    return out


def mine_boundflow(w):
    rows = []
    for f in w.all_fns(CRATES):
        if '::tests::' in f['_nid'] or '/tests' in f['file']:
            continue
        prop = prop_of_file(f['file'])
        if prop is None or not valflow.bound_params(f):
            continue
        for (p, c) in sorted(bound_flows(f)):
            rows.append(dict(property=prop, fn=f['_xid'], param=p, reaches=c))
    return rows


def assigned_params(f):
    out = []
    for tok, i, t, n in valflow.param_table(f):
        if n != 'self' and dlint.has_assigned(t):
            out.append((tok, i, t))
    return out


def arg_flows(f):
    """{(assigned parameter, workspace circuit-building callee): number of call sites of the callee that receive a value derived from the parameter}"""
    src = assigned_params(f)
    if not src:
        return {}
    vf = valflow.ValFlow(f, sources=src)
    out = {}
    for n, c, deps in vf.call_sites(typed=dlint.has_assigned):
        if not c.startswith(('midnight_', '<midnight_')) or not valflow.circuit_call(n):
            continue
        for p in deps:
            out[(p, c)] = out.get((p, c), 0) + 1
    return out


def arg_flows_fields(f):
    """like arg_flows, but a parameter of a struct type whose fields are read directly (`p.x`, `p.is_id`, `x.limbs`) contributes one source PER FIELD
    ('#2.x'): {(parameter.field, callee): sites}.  Re-routing a check from one coordinate to its sibling keeps every call and every parameter in place."""
    src = assigned_params(f)
    if not src:
        return {}
    ids = {i: tok for tok, i, t in src}
    read = set()
    for n in walk(f['body']):
        if n.get('k') == 'field' and not str(n.get('n', '')).isdigit():
            b = peel(n['e'])
            if b.get('k') == 'local' and b.get('i') in ids:
                read.add(b['i'])
    if not read:
        return {}
    vf = valflow.ValFlow(f, sources=[], field_sources={i: ids[i] for i in read})
    out = {}
    for n, c, deps in vf.call_sites(typed=dlint.has_assigned):
        if not c.startswith(('midnight_', '<midnight_')) or not valflow.circuit_call(n):
            continue
        for p in deps:
            if '.' in p:
                out[(p, c)] = out.get((p, c), 0) + 1
    return out


def mine_argflow_fields(w):
    rows = []
    for f in w.all_fns(CRATES):
        if '::tests::' in f['_nid'] or '/tests' in f['file']:
            continue
        prop = prop_of_file(f['file'])
        if prop is None:
            continue
        for (p, c), k in sorted(arg_flows_fields(f).items()):
            rows.append(dict(property=prop, fn=f['_xid'], param=p, reaches=c, sites=k))
    return rows


def mine_argflow(w):
    rows = []
    for f in w.all_fns(CRATES):
        if '::tests::' in f['_nid'] or '/tests' in f['file']:
            continue
        prop = prop_of_file(f['file'])
        if prop is None:
            continue
        for (p, c), k in sorted(arg_flows(f).items()):
            rows.append(dict(property=prop, fn=f['_xid'], param=p, reaches=c, sites=k))
    return rows


def eval_looped_row(ck, rule, f, r):
    from collections import Counter
    cur = looped_checks(f, with_restrictions=True)
    ok = r['looped_call'] in cur
    ck.record(rule, f'{r["fn"]}|{short(r["looped_call"])}', ok, f'{short(r["looped_call"])} applied per element',
              f'{r["fn"]} no longer applies {r["looped_call"]} inside its iteration: the per-element check was dropped or hoisted out of the loop', hirq.fn_loc(f))
    if ok:
        ref, now = Counter(r.get('restrictions', [])), Counter(cur[r['looped_call']])
        extra = sorted((now - ref).elements())
        ck.record(rule, f'{r["fn"]}|{short(r["looped_call"])}:domain', not extra, f'iteration domain not narrowed (restricting adaptors {sorted(now.elements())})',
                  f'{r["fn"]}: the iteration under which {r["looped_call"]} is applied gained the restricting adaptor(s) {extra} (reference: '
                  f'{sorted(ref.elements())}): some elements that were checked are now skipped', hirq.fn_loc(f))


def _if_arms(n):
    """arms of an if / else-if chain that ends in a plain else; None when some path falls through without an arm"""
    arms = [n['a']]
    b = n.get('b')
    while b is not None:
        pb = peel(b)
        if pb.get('k') == 'if':
            arms.append(pb['a'])
            b = pb.get('b')
        else:
            arms.append(pb)
            return arms
    return None


def sym_updates(f):
    """{place: number of if/else sites inside a loop whose EVERY arm assigns the place} (plain `=` assignments)"""
    from collections import Counter
    from ..core import children, expr_str
    res = Counter()

    def assigned(block):
        return {expr_str(x['lhs']) for x in walk(block, into_closures=False) if x.get('k') == 'assign'}

    def rec(n, in_loop, else_if):
        k = n.get('k')
        if k == 'if' and in_loop and not else_if:
            arms = _if_arms(n)
            if arms and len(arms) >= 2:
                for v in set.intersection(*[assigned(a) for a in arms]):
                    res[v] += 1
        for c in children(n):
            il = False if k == 'closure' else (in_loop or k in ('for', 'loop'))
            rec(c, il, k == 'if' and c is n.get('b') and peel(c).get('k') == 'if')
    rec(f['body'], False, False)
    return res


def mine_symupdates(w):
    rows = []
    for f in w.all_fns(CRATES):
        if '::tests::' in f['_nid'] or '/tests' in f['file']:
            continue
        prop = prop_of_file(f['file'])
        if prop is None:
            continue
        for v, c in sorted(sym_updates(f).items()):
            rows.append(dict(property=prop, fn=f['_xid'], place=v, sites=c))
    return rows


def ret_cover(f):
    """[(rendered returned expression, parameters that the returned value or the conditions guarding the return depend on)] for explicit `return`s"""
    from ..core import children, expr_str
    params = [(tok, i, t) for tok, i, t, n in valflow.param_table(f) if n not in ('self', 'layouter', 'region', 'offset')]
    if not params:
        return []
    vf = valflow.ValFlow(f, sources=params)
    out = []

    def rec(n, conds):
        k = n.get('k')
        if k == 'ret' and 'e' in n:
            cov = set(vf.ev(n['e']))
            for c in conds:
                cov |= set(vf.ev(c))
            out.append((expr_str(n['e'])[:80], sorted(cov), n))
        if k == 'if':
            rec(n['c'], conds)
            rec(n['a'], conds + [n['c']])
            if 'b' in n:
                rec(n['b'], conds + [n['c']])
            return
        if k == 'match':
            rec(n['e'], conds)
            for a in n['arms']:
                rec(a['body'], conds + [n['e']] + ([a['guard']] if 'guard' in a else []))
            return
        if k == 'closure':
            return
        for c in children(n):
            rec(c, conds)
    rec(f['body'], [])
    return [(e, c, n) for e, c, n in out if not e.startswith(('Err', 'Result::Err'))]


def mine_retcover(w):
    rows = []
    for f in w.all_fns(CRATES):
        if '::tests::' in f['_nid'] or '/tests' in f['file']:
            continue
        prop = prop_of_file(f['file'])
        if prop is None:
            continue
        seen = set()
        for e, cov, _ in ret_cover(f):
            if e in seen or not cov:
                continue
            seen.add(e)
            # several returns with the same rendering: keep the intersection (what every one of them covers)
            allc = [set(c) for e2, c, _ in ret_cover(f) if e2 == e]
            rows.append(dict(property=prop, fn=f['_xid'], returns=e, covered=sorted(set.intersection(*allc))))
    return rows


def dead_index_tests(f):
    """comparisons `i == BOUND` inside a loop whose index i never reaches BOUND:
       for (i, _) in arr.chunks(R).enumerate()  with arr: [T; N]   and   i == N / R      (i <= N/R - 1 when R divides N, else i <= N/R and N/R is the partial chunk)
       for i in 0..K                                              and   i == K
    Yields (node, rendering)."""
    from ..core import expr_str
    out = []

    def same(a, b):
        return expr_str(peel(a)) == expr_str(peel(b))

    for lp in [n for n in walk(f['body']) if n.get('k') == 'for']:
        binds = pat_bindings(lp['pat'])
        it = peel(lp['iter'])
        bound = None          # (index local id, expression the index stays strictly below, rendered)
        if it.get('k') == 'mcall' and it.get('m') == 'enumerate':
            src = peel(it['recv'])
            if src.get('k') == 'mcall' and src.get('m') in ('chunks', 'chunks_exact') and src.get('args'):
                base_t = (peel(src['recv']).get('t') or '').lstrip('&').strip()
                if base_t.startswith('[') and ';' in base_t:
                    n_len = base_t.rsplit(';', 1)[1].rstrip(']').strip()
                    idx = [b for b in binds if (b.get('t') or '') == 'usize']
                    if idx:
                        bound = (idx[0]['i'], ('div', n_len, src['args'][0]), f'{n_len} / {expr_str(peel(src["args"][0]))}')
        elif it.get('k') == 'struct' and (it.get('p') or '').endswith('ops::range::Range') and len(binds) == 1:
            fs = dict((nm, e) for nm, e in it.get('fs', []))
            if 'start' in fs and 'end' in fs and peel(fs['start']).get('v') == 'i:0':
                bound = (binds[0]['i'], ('expr', fs['end']), expr_str(peel(fs['end'])))
        if not bound:
            continue
        for n in walk(lp['body']):
            if n.get('k') != 'bin' or n.get('op') != '==':
                continue
            for a, b in ((n['a'], n['b']), (n['b'], n['a'])):
                pa = peel(a)
                if not (pa.get('k') == 'local' and pa.get('i') == bound[0]):
                    continue
                pb = peel(b)
                hit = False
                if bound[1][0] == 'div':
                    if pb.get('k') == 'bin' and pb.get('op') == '/' and expr_str(peel(pb['a'])).rsplit('::', 1)[-1] == bound[1][1].rsplit('::', 1)[-1] and same(pb['b'], bound[1][2]):
                        hit = True
                else:
                    hit = same(pb, bound[1][1])
                if hit:
                    out.append((n, f'{expr_str(n)[:60]} inside a loop whose index stays below {bound[2]}'))
    return out


def selector_enables(f):
    """{rendered selector place: number of `.enable(..)` call sites} (Selector::enable / Region::enable_selector)"""
    from collections import Counter
    from ..core import expr_str
    out = Counter()
    for n in hirq.calls(f['body']):
        c = callee(n) or ''
        if c.endswith('Selector::enable') and 'recv' in n:
            out[expr_str(peel(n['recv']))[:80]] += 1
        elif c.endswith('Region::enable_selector') and len(n.get('args', [])) >= 2:
            out[expr_str(peel(n['args'][1]))[:80]] += 1
    return out


def mine_selectors(w):
    rows = []
    for f in w.all_fns(CRATES):
        if '::tests::' in f['_nid'] or '/tests' in f['file']:
            continue
        prop = prop_of_file(f['file'])
        if prop is None:
            continue
        for sel, k in sorted(selector_enables(f).items()):
            rows.append(dict(property=prop, fn=f['_xid'], selector=sel, sites=k))
    return rows


GATE_CALLS = ('create_gate', 'lookup', 'lookup_any', 'shuffle')


def gate_profiles(f):
    """[(label, {operation: number of sites})] for every gate / lookup declared by f: operations of the closure handed to ConstraintSystem::create_gate /
    lookup / lookup_any (resolved callees, overloaded operators on expressions, query calls, Rotation constructors with their literal, and the NUMBER OF
    ELEMENTS of the array / vec literals, i.e. of the constraint list)"""
    from collections import Counter
    from ..core import expr_str
    from .c10 import nesting_profile
    out = []
    k = 0
    for c in hirq.calls(f['body']):
        cc = callee(c) or ''
        if not (cc.startswith('midnight_proofs::plonk::circuit::ConstraintSystem::') and cc.rsplit('::', 1)[1] in GATE_CALLS):
            continue
        args = c.get('args', [])
        clos = [peel(a) for a in args if peel(a).get('k') == 'closure']
        if not clos:
            continue
        name = next((peel(a).get('v') for a in args if peel(a).get('k') == 'lit' and str(peel(a).get('v', '')).startswith('s:')), None)
        prof = Counter()
        for op, depths in nesting_profile({'body': clos[0]['body'], 'params': clos[0].get('params', [])}, builtin=True).items():
            prof[op] += len(depths)          # operations, literals (column indices, rotations, coefficients) and the def-use shape of the closure
        for x in walk(clos[0]['body']):
            if x.get('k') == 'array':
                prof['constraint-list elements'] += len(x.get('es', []))
            if x.get('k') == 'call' and (callee(x) or '').endswith('poly::Rotation') and x.get('args'):
                a0 = peel(x['args'][0])
                prof[f'Rotation({a0.get("v") if a0.get("k") == "lit" else expr_str(a0)[:20]})'] += 1
        out.append((f'{cc.rsplit("::", 1)[1]}#{k}', name, dict(prof)))
        k += 1
    return out


def mine_gates(w):
    rows = []
    for f in w.all_fns(CRATES):
        if '::tests::' in f['_nid'] or '/tests' in f['file']:
            continue
        prop = prop_of_file(f['file'])
        if prop is None:
            continue
        for label, name, prof in gate_profiles(f):
            rows.append(dict(property=prop, fn=f['_xid'], gate=label, name=name, ops=dict(sorted(prof.items()))))
    return rows


def load_rules(name):
    p = os.path.join(facts.VERIF, 'rules', name)
    with open(p) as fh:
        return json.load(fh)


def run_d(ck, w, prop, floors):
    """D1 hint coverage, D3 dead circuit values, D4 constructor discipline, D5 must-call table — restricted to the files of `prop`."""
    P = prop
    S = dlint.RegionSummaries(w)
    fns = [f for f in w.all_fns(CRATES) if in_scope(f, prop)]
    ck.count('functions in scope', len(fns))
    # ------------------------------------------------------------------ D1
    ck.rule(f'{P}.D1', 'hint coverage: every Region::assign_advice site lies in a region unit (assign_region closure or Region-taking helper) that activates a '
                       'constraint (Selector::enable / constrain_equal / copy_advice / constrain_constant, directly or through a Region-taking helper) at an offset '
                       'with the same root within 3 rows; free-witness entry points and caller-activated helpers are tabled')
    nsites = 0
    for f in fns:
        for uname, node in dlint.region_units(f):
            sites = dlint.advice_sites(node)
            if not sites:
                continue
            acts = dlint.activation_offsets(node, S)
            for s in sites:
                nsites += 1
                ann = dlint.lit_annotation(s)
                key = f'{f["_xid"]}|{ann}'
                tab = tables.D1_TABLE.get(f'{f["_nid"]}|{ann}') or tables.D1_TABLE.get(f['_nid'] + '|*')
                off = dlint.offset_key(s['args'][2]) if len(s.get('args', [])) >= 3 else None
                precise = [a for a in acts if a[1] is not None and off is not None and a[1][0] == off[0] and abs(a[1][1] - off[1]) <= 3]
                loose = [a for a in acts if a[1] is None or off is None or (off[0] and not off[0].isidentifier()) or (a[1][0] and not a[1][0].isidentifier())]
                if tab:
                    ck.ok(f'{P}.D1', key, 'tabled: ' + tab, hirq.fn_loc(f, s))
                elif precise:
                    ck.ok(f'{P}.D1', key, f'activated by {precise[0][0]} at offset {precise[0][1]} [offset-root mode]', hirq.fn_loc(f, s))
                elif loose:
                    ck.ok(f'{P}.D1', key, f'region unit activates ({loose[0][0]}) [region mode: offsets not comparable]', hirq.fn_loc(f, s))
                else:
                    ck.bad(f'{P}.D1', key, f'{f["_nid"]}: advice cell "{ann}" (offset {off}) is witnessed but no selector / equality / copy is activated at a '
                           f'matching offset in its region (activations: {[(a[0], a[1]) for a in acts][:4]}): an unconstrained hint lets the prover choose it freely',
                           hirq.fn_loc(f, s))
    ck.floor(f'{P}.D1', 'assign_advice sites', nsites, floors.get('advice', 0))
    # ------------------------------------------------------------------ D3
    ck.rule(f'{P}.D3', 'dead circuit values: in functions that take a Layouter, no value of an assigned-cell type is computed and then never used '
                       '(unused binding, `let _ =`, or discarded call result); region-level position-covered helpers are tabled')
    ngad = 0
    for f in fns:
        gadget_level = any('Layouter' in t for t in f.get('inputs', [])) or any('Layouter' in p for p in f.get('preds', []))
        region_level = any('midnight_proofs::circuit::Region' in t for t in f.get('inputs', []))
        if not (gadget_level or region_level):
            continue
        ngad += 1
        for kind, name, t, n in dlint.dead_values(f):
            if kind == 'discarded-result':
                e = peel(n['e'])
                while e.get('k') == 'try':
                    e = peel(e['e'])
                c = callee(e) or ''
                if not c.startswith(('midnight_', '<midnight_')) or c.startswith(('midnight_proofs::circuit::', '<midnight_proofs')):
                    continue      # region primitives (copy_advice / assign_fixed ...) act by position
            key = f'{f["_nid"]}|{kind}|{name[:40]}'
            tab = tables.D3_TABLE.get(f'{f["_nid"]}|{kind}') or tables.D3_TABLE.get(key)
            if tab:
                ck.ok(f'{P}.D3', key, 'tabled: ' + tab, hirq.fn_loc(f, n))
            else:
                ck.bad(f'{P}.D3', key, f'{f["_nid"]}: {kind} `{name}` of type {str(t)[:60]} is computed and never used: a constraint that consumed it was '
                       f'dropped, or the value is unconstrained', hirq.fn_loc(f, n))
    ck.floor(f'{P}.D3', 'gadget/region-level functions', ngad, floors.get('gadget_fns', 1))
    ck.ok(f'{P}.D3', 'no-dead-values', f'{ngad} functions inspected')
    # ------------------------------------------------------------------ D4
    ck.rule(f'{P}.D4', 'typestate constructors: literals / tuple constructors of invariant-carrying assigned types and calls of the *_unsafe escape hatches '
                       'appear only in the functions of the frozen who-may-construct table (rules/d4_sites.json)')
    allowed = load_rules('d4_sites.json')
    cur = enumerate_d4(w)
    nd4 = 0
    for cls, sites in sorted(cur.items()):
        for nid in sorted(sites):
            f = w.fn_x(nid, required=False)
            if f is None or not in_scope(f, prop):
                continue
            nd4 += 1
            ck.record(f'{P}.D4', f'{cls}|{nid}', nid in allowed.get(cls, []), 'in the who-may-construct table',
                      f'{nid} builds/uses {cls} but is not in the who-may-construct table: the invariant of the type (booleanity, byte range, bound, '
                      f'well-formed limbs, subgroup membership…) is asserted without a tabled justification', hirq.fn_loc(f))
    ck.floor(f'{P}.D4', 'constructor / escape-hatch sites', nd4, floors.get('d4', 0))
    # ------------------------------------------------------------------ D6
    ck.rule(f'{P}.D6', 'parallel-projection symmetry: when a two-argument operation combines numeric tuple components of two sibling values of the same tuple type '
                       '(e.g. the (lower, upper) limb bounds of x and y), both sides use the same component; cross combinations are tabled (interval subtraction)')
    n6 = 0
    def tupfield(n):
        n = peel(n)
        while n.get('k') == 'mcall' and n.get('m') in ('clone',):
            n = peel(n['recv'])
        if n.get('k') == 'field' and n['n'].isdigit():
            b = peel(n['e'])
            if b.get('k') == 'local':
                return (b['i'], b['n'], n['n'], b.get('t'))
        return None
    for f in fns:
        for n in walk(f['body']):
            args = None
            if n.get('k') in ('call', 'mcall'):
                args = ([n['recv']] if 'recv' in n else []) + n.get('args', [])
            elif n.get('k') == 'bin':
                args = [n['a'], n['b']]
            if not args or len(args) != 2:
                continue
            a, b = tupfield(args[0]), tupfield(args[1])
            if a and b and a[0] != b[0] and a[3] == b[3]:
                n6 += 1
                key = f'{f["_nid"]}|{a[1]}.{a[2]}~{b[1]}.{b[2]}'
                if a[2] == b[2]:
                    ck.ok(f'{P}.D6', key, 'same component on both sides', hirq.fn_loc(f, n))
                elif key in tables.D6_TABLE:
                    ck.ok(f'{P}.D6', key, 'tabled: ' + tables.D6_TABLE[key], hirq.fn_loc(f, n))
                else:
                    ck.bad(f'{P}.D6', key, f'{f["_nid"]}: combines component .{a[2]} of `{a[1]}` with component .{b[2]} of `{b[1]}` (same tuple type): every sibling '
                           f'site pairs equal components; a lower bound mixed with an upper bound mis-states the bookkeeping the later checks rely on', hirq.fn_loc(f, n))
    ck.count(f'{P}.D6 sites', n6)
    # ------------------------------------------------------------------ D5
    ck.rule(f'{P}.D5', 'must-call table: each listed function reaches the listed constraint-emitting call on every success path (rules/mustcall.json: '
                       'pairs that hold unconditionally on the reference tree; a pair may be satisfied through a callee that itself must-calls)')
    rows = [r for r in load_rules('mustcall.json') if r['property'] == prop]
    n5 = 0
    for r in rows:
        b = w.mir_body_x(r['fn'], required=False)
        if b is None:
            ck.bad(f'{P}.D5', f'{r["fn"]}|{short(r["must_call"])}:anchor', f'function {r["fn"]} of the must-call table not found (renamed/removed: needs triage)')
            continue
        n5 += 1
        g = r['must_call']
        ok, _ = mc.must_call(b, lambda c, t: c == g)
        if not ok:
            # through a callee that itself must-calls g (one level)
            def via(c, t):
                bb = w.mir_index().get(c)
                return bb is not None and mc.must_call(bb, lambda c2, t2: c2 == g)[0]
            ok, _ = mc.must_call(b, lambda c, t: c == g or via(c, t))
        ck.record(f'{P}.D5', f'{r["fn"]}|{short(g)}', ok, f'calls {short(g)} on every success path',
                  f'{r["fn"]} no longer reaches {g} on every success path: the check it emitted unconditionally can now be skipped', reach.loc(b))
    ck.floor(f'{P}.D5', 'must-call pairs', n5, floors.get('mustcall', 0))
    # looped checks: (function, check) pairs where the check is applied to every element of an iteration
    ck.rule(f'{P}.D5b', 'looped checks: each listed function still applies the listed constraint-emitting call inside a loop / iterator closure '
                        '(rules/looped.json: per-element checks — limb range checks, byte re-linking, per-bit assertions — that a must-call rule cannot see '
                        'because a loop may run zero times)')
    rowsl = [r for r in load_rules('looped.json') if r['property'] == prop]
    for r in rowsl:
        f = w.fn_x(r['fn'], required=False)
        if f is None:
            ck.bad(f'{P}.D5b', f'{r["fn"]}|{short(r["looped_call"])}:anchor', f'function {r["fn"]} of the looped-check table not found (needs triage)')
            continue
        eval_looped_row(ck, f'{P}.D5b', f, r)
    ck.count(f'{P}.D5b pairs', len(rowsl))
    # ------------------------------------------------------------------ D7
    ck.rule(f'{P}.D7', 'declared bounds reach their checks by VALUE: for each (function, integer parameter, constraint-emitting callee) of rules/boundflow.json the '
                       'parameter still flows, as a value (element values of collections; not merely through a length or repetition count), into a bound-typed '
                       'argument of that callee.  A range check whose limit no longer depends on the declared bit length / size enforces some other bound.')
    rows7 = [r for r in load_rules('boundflow.json') if r['property'] == prop]
    byfn = {}
    for r in rows7:
        byfn.setdefault(r['fn'], []).append(r)
    for fx, rs in sorted(byfn.items()):
        f = w.fn_x(fx, required=False)
        if f is None:
            ck.bad(f'{P}.D7', f'{fx}:anchor', f'function {fx} of the bound-flow table not found (needs triage)')
            continue
        cur = bound_flows(f)
        for r in rs:
            ok = (r['param'], r['reaches']) in cur
            pn_ = valflow.param_name(f, r['param'])
            ck.record(f'{P}.D7', f'{fx}|{r["param"]}|{short(r["reaches"])}', ok, f'`{pn_}` reaches {short(r["reaches"])} by value',
                      f'{fx}: the declared bound `{pn_}` (parameter {r["param"]}) no longer reaches {r["reaches"]} by value (it may still decide how many checks run, but not '
                      f'their limits): the limit that call enforces is now independent of the declared bound', hirq.fn_loc(f))
    ck.count(f'{P}.D7 triples', len(rows7))
    # ------------------------------------------------------------------ D8
    ck.rule(f'{P}.D8', 'input-use preservation: for each (function, assigned-cell parameter, constraint-emitting callee) of rules/argflow.json, at least as many '
                       'call sites of the callee as on the reference tree still receive a value derived from that parameter.  Re-routing a check to another '
                       'input (a length, a flag, a sibling operand of the same type) type-checks and keeps every call in place, but the check then constrains '
                       'the wrong value.  Additional uses never fire.')
    rows8 = [r for r in load_rules('argflow.json') if r['property'] == prop]
    byfn = {}
    for r in rows8:
        byfn.setdefault(r['fn'], []).append(r)
    for fx, rs in sorted(byfn.items()):
        f = w.fn_x(fx, required=False)
        if f is None:
            ck.bad(f'{P}.D8', f'{fx}:anchor', f'function {fx} of the input-use table not found (needs triage)')
            continue
        cur = arg_flows(f)
        for r in rs:
            have = cur.get((r['param'], r['reaches']), 0)
            pn_ = valflow.param_name(f, r['param'])
            ck.record(f'{P}.D8', f'{fx}|{r["param"]}|{short(r["reaches"])}', have >= r['sites'], f'`{pn_}` reaches {short(r["reaches"])} at {have} site(s)',
                      f'{fx}: input `{pn_}` (parameter {r["param"]}) reached {r["sites"]} call site(s) of {r["reaches"]} on the reference tree and reaches {have} now: a '
                      f'constraint that consumed this input was dropped or re-routed to another value', hirq.fn_loc(f))
    ck.count(f'{P}.D8 triples', len(rows8))
    # field-sensitive variant: which FIELD of a structured operand a check is given
    rows8f = [r for r in load_rules('argflow_fields.json') if r['property'] == prop]
    byfn = {}
    for r in rows8f:
        byfn.setdefault(r['fn'], []).append(r)
    for fx, rs in sorted(byfn.items()):
        f = w.fn_x(fx, required=False)
        if f is None:
            continue            # reported by the parameter-level table above
        cur = arg_flows_fields(f)
        for r in rs:
            have = cur.get((r['param'], r['reaches']), 0)
            tok, fld = r['param'].split('.', 1)
            pn_ = f'{valflow.param_name(f, tok)}.{fld}'
            ck.record(f'{P}.D8', f'{fx}|{r["param"]}|{short(r["reaches"])}', have >= r['sites'], f'`{pn_}` reaches {short(r["reaches"])} at {have} site(s)',
                      f'{fx}: the field `{pn_}` of a structured operand reached {r["sites"]} call site(s) of {r["reaches"]} on the reference tree and reaches {have} now: a '
                      f'constraint that consumed this coordinate / flag / limb vector was dropped or re-routed to a sibling field', hirq.fn_loc(f))
    ck.count(f'{P}.D8 field triples', len(rows8f))
    # ------------------------------------------------------------------ D9
    ck.rule(f'{P}.D9', 'loop-carried state is refreshed on every branch: for each (function, place) of rules/symupdate.json — places that EVERY arm of an if/else '
                       'inside a loop assigns on the reference tree — every arm still assigns it.  When one arm stops refreshing a loop-carried flag, the next '
                       'iteration decides with the value left by an older element.')
    rows9 = [r for r in load_rules('symupdate.json') if r['property'] == prop]
    by9 = {}
    for r in rows9:
        by9[r['fn']] = by9.get(r['fn'], 0) + r['sites']
    for fx, total in sorted(by9.items()):
        f = w.fn_x(fx, required=False)
        if f is None:
            ck.bad(f'{P}.D9', f'{fx}:anchor', f'function {fx} of the symmetric-update table not found (needs triage)')
            continue
        cur9 = sym_updates(f)
        have = sum(cur9.values())
        ck.record(f'{P}.D9', f'{fx}|symmetric-updates', have >= total, f'{have} place(s) assigned in every arm of an if/else inside a loop: {sorted(cur9)}',
                  f'{fx}: {total} place(s) were assigned in every arm of an if/else inside a loop on the reference tree ({sorted(r["place"] for r in rows9 if r["fn"] == fx)}) '
                  f'and {have} are now ({sorted(cur9)}): on the arm that stopped refreshing a loop-carried place the next iteration sees a stale value', hirq.fn_loc(f))
    ck.count(f'{P}.D9 places', len(rows9))
    # ------------------------------------------------------------------ D14
    ck.rule(f'{P}.D14', 'shortcut returns honour every operand: in a function that takes an optional constant factor (`multiplying_constant`), every early `return` '
                        'that hands back (a clone of) another operand is guarded by, or built from, that constant.  `mul(x, one, Some(k))` returning `x` drops k.  '
                        'Sibling rule over all implementations of ArithInstructions::mul (native chip, foreign field chip, gadgets).')
    n14 = 0
    for f in fns:
        ptab = valflow.param_table(f)
        mc_tok = [tok for tok, i, t, n in ptab if n == 'multiplying_constant']
        if not mc_tok:
            continue
        operands = [tok for tok, i, t, n in ptab if n not in ('self', 'layouter', 'multiplying_constant', 'region', 'offset')]
        for e, cov, node in ret_cover(f):
            if not (set(cov) & set(operands)):
                continue
            from ..core import expr_str
            from ..engines import valflow as _vf
            val = set(_vf.ValFlow(f, sources=[(tok, i, t) for tok, i, t, n in ptab if tok in operands]).ev(node['e']))
            if not val:
                continue            # the returned VALUE is not an operand (e.g. the constant zero): nothing to scale
            n14 += 1
            ck.record(f'{P}.D14', f'{f["_xid"]}|return {e[:40]}', mc_tok[0] in cov, 'guarded by / built from the constant factor',
                      f'{f["_nid"]}: `return {e}` hands back the operand {sorted(valflow.param_name(f, v) for v in val)} whatever `multiplying_constant` is: with Some(k), k != 1, the product is '
                      f'returned unscaled and no constraint ties it to k', hirq.fn_loc(f, node))
    ck.count(f'{P}.D14 operand shortcuts', n14)
    # ------------------------------------------------------------------ D13
    ck.rule(f'{P}.D13', 'selector activations are kept: for each (function, selector place) of rules/selectors.json at least as many `.enable(..)` sites as on the '
                        'reference tree remain.  D1 only asks that SOME constraint is active at the offset of a witnessed cell; a region that enables two gates '
                        '(e.g. the arithmetic gate and q_12_minus_34 in cond_swap) and loses one of them still passes D1 while one relation is no longer enforced.')
    rows13 = [r for r in load_rules('selectors.json') if r['property'] == prop]
    cache13 = {}
    for r in rows13:
        f = w.fn_x(r['fn'], required=False)
        if f is None:
            ck.bad(f'{P}.D13', f'{r["fn"]}:anchor', f'function {r["fn"]} of the selector table not found (needs triage)')
            continue
        if r['fn'] not in cache13:
            cache13[r['fn']] = selector_enables(f)
        have = cache13[r['fn']].get(r['selector'], 0)
        ck.record(f'{P}.D13', f'{r["fn"]}|{r["selector"]}', have >= r['sites'], f'`{r["selector"]}` enabled at {have} site(s)',
                  f'{r["fn"]}: selector `{r["selector"]}` was enabled at {r["sites"]} site(s) on the reference tree and is enabled at {have} now: the gate it switches on '
                  f'no longer constrains the cells assigned in that region', hirq.fn_loc(f))
    ck.count(f'{P}.D13 selector places', len(rows13))
    # ------------------------------------------------------------------ D15
    ck.rule(f'{P}.D15', 'gate inventory: for every gate / lookup declared with ConstraintSystem::create_gate / lookup / lookup_any (rules/gates.json), the closure that '
                        'builds its polynomials keeps at least the operations of the reference tree — every query, every multiplication / addition / subtraction '
                        'on expressions, every Rotation, every helper call — and its constraint list keeps its number of elements.  A gate that loses a term, a '
                        'factor or a whole constraint still accepts every honest witness (all tests pass) and accepts forged ones as well.  Gates are matched by '
                        'their name, then by their position; added gates and added terms never fire.')
    rows15 = [r for r in load_rules('gates.json') if r['property'] == prop]
    by15 = {}
    for r in rows15:
        by15.setdefault(r['fn'], []).append(r)
    for fx, rs in sorted(by15.items()):
        f = w.fn_x(fx, required=False)
        if f is None:
            ck.bad(f'{P}.D15', f'{fx}:anchor', f'function {fx} of the gate table not found (needs triage)')
            continue
        cur = gate_profiles(f)
        used = set()
        for r in rs:
            m = next((i for i, (lab, name, prof) in enumerate(cur) if i not in used and name is not None and name == r.get('name')), None)
            if m is None:
                m = next((i for i, (lab, name, prof) in enumerate(cur) if i not in used and lab == r['gate']), None)
            if m is None:
                m = next((i for i, (lab, name, prof) in enumerate(cur) if i not in used and lab.split('#')[0] == r['gate'].split('#')[0]), None)
            gname = (r.get('name') or r['gate'])[2:] if r.get('name') else r['gate']
            if m is None:
                ck.bad(f'{P}.D15', f'{fx}|{r["gate"]}', f'{fx}: the gate / lookup "{gname}" of the reference tree is no longer declared: its constraints are not enforced', hirq.fn_loc(f))
                continue
            used.add(m)
            prof = cur[m][2]
            lost = sorted((op, n_, prof.get(op, 0)) for op, n_ in r['ops'].items() if prof.get(op, 0) < n_)
            ck.record(f'{P}.D15', f'{fx}|{r["gate"]}', not lost, f'gate "{gname}" keeps its {sum(r["ops"].values())} operations',
                      f'{fx}: gate "{gname}" lost operations (operation, reference sites, sites now): {[(short(o), a, b) for o, a, b in lost[:5]]}: a term, a factor, a query or a '
                      f'whole constraint of the gate was dropped — honest witnesses still satisfy it, forged ones may as well', hirq.fn_loc(f))
    ck.count(f'{P}.D15 gates', len(rows15))
    # ------------------------------------------------------------------ D12
    ck.rule(f'{P}.D12', 'dead index tests: inside `for (i, _) in array.chunks(R).enumerate()` (array of N elements) or `for i in 0..K`, a branch guarded by '
                        '`i == N / R` / `i == K` can never be taken: the special handling of the LAST element it was meant to select (e.g. zeroing the filler '
                        'of the last chunk of a variable-length input) never runs')
    nd = 0
    for f in fns:
        for node, what in dead_index_tests(f):
            nd += 1
            ck.bad(f'{P}.D12', f'{f["_nid"]}|{what[:50]}', f'{f["_nid"]}: `{what}`: the guarded branch is dead, the treatment reserved for the last element is '
                   f'never applied', hirq.fn_loc(f, node))
    ck.ok(f'{P}.D12', 'no-dead-index-test', f'{len(fns)} functions inspected, {nd} dead tests')
    # ------------------------------------------------------------------ D11
    from ..engines import ziplint
    ck.rule(f'{P}.D11', 'zip-truncated comparisons: an equality / identity decision taken over `a.iter().zip(b.iter()).all(..)` also compares the lengths of a and b '
                        '(or both are fixed-size arrays); tabled sites: tables.ZIP_EQ_OK')
    ziplint.check(ck, w, f'{P}.D11', CRATES, lambda file: file.startswith(SCOPES[prop]), tables.ZIP_EQ_OK, 0)
    # ------------------------------------------------------------------ D10
    ck.rule(f'{P}.D10', 'shortcut returns stay guarded: for each early `return <value>` of rules/retcover.json, every parameter that the returned value or the '
                        'conditions guarding that return depended on (reference tree) still does.  A shortcut whose guard forgets one operand (a multiplying '
                        'constant, a flag) returns a value that ignores it.  Removed shortcuts are not reported.')
    rows10 = [r for r in load_rules('retcover.json') if r['property'] == prop]
    matched = 0
    cache = {}
    for r in rows10:
        f = w.fn_x(r['fn'], required=False)
        if f is None:
            continue
        if r['fn'] not in cache:
            cache[r['fn']] = ret_cover(f)
        cur = [(c, n) for e, c, n in cache[r['fn']] if e == r['returns']]
        if not cur:
            continue
        matched += 1
        for c, n in cur:
            missing = sorted(set(r['covered']) - set(c))
            ck.record(f'{P}.D10', f'{r["fn"]}|return {r["returns"][:50]}', not missing, f'guarded by / built from {c}',
                      f'{r["fn"]}: `return {r["returns"]}` no longer depends on {missing} (neither the value nor the conditions guarding it): the shortcut is taken '
                      f'whatever {missing} is', hirq.fn_loc(f, n))
    ck.floor(f'{P}.D10', 'shortcut returns matched', matched, (len(rows10) * 3) // 4)
