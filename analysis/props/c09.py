"""C09 — circuit structure never depends on witness or instance values (type-directed effect analysis, DESIGN §3.E)."""
from ..core import norm, short, walk, callee, peel, children, pat_bindings, last_seg
from ..engines import hirq, reach, mustcall as mc
from .. import tables

V = 'midnight_proofs::circuit::value::Value'
COMB = {'map', 'and_then', 'map_with_result', 'assert_if_known', 'error_if_known_and'}
DOWNSTREAM = ['circuits', 'zk_stdlib', 'zkir', 'aggregator']
STRUCT_CALL_MARKS = ('midnight_proofs::circuit::Region::', 'midnight_proofs::circuit::Layouter::', 'midnight_proofs::circuit::layouter::RegionLayouter::',
                     'midnight_proofs::plonk::circuit::Selector::enable', 'midnight_proofs::plonk::circuit::ConstraintSystem::',
                     'midnight_proofs::circuit::Table::', 'midnight_proofs::circuit::AssignedCell::copy_advice',
                     'core::cell::RefCell::borrow_mut', 'core::cell::Cell::set', 'core::cell::Cell::replace', 'core::cell::RefCell::replace')


def run(ck):
    w = ck.world()
    ck.explanation = (
        'Non-interference argument by static effect analysis. Value<V> is opaque outside midnight-proofs (E1: into_option / assign are crate-private and only '
        'called by the assignment back-ends), so circuit structure can depend on a witness only through a closure handed to a Value combinator. E2 enumerates '
        'every such closure in the four downstream crates and requires: no capture by mutable reference (or of a &mut), no call to a Region / Layouter / '
        'Selector / ConstraintSystem / RefCell::borrow_mut / Cell::set API in its body, no write to a captured place; deliberate exceptions are tabled with a '
        'containment rule each. E3: keygen ignores advice closures and the prover ignores fixed/copy/selector calls, so the two passes partition structure and '
        'witness. E4: lazily loaded tables depend only on used_* flags set outside Value closures. Witness-conditioned panics/errors abort proving but do not '
        'change structure and are reported as information. For the tabled witness-index hacks the containment rule also proves that the table element selected '
        'with the witness-derived index only feeds value-only consumers (never returned, cloned into the result or passed on).')
    e1(ck, w)
    e2(ck, w)
    e3(ck, w)
    e4(ck, w)
    e5(ck, w)


def e1(ck, w):
    ck.rule('C09.E1', 'Value::{into_option, assign} are not public and are called only from the assignment back-ends inside midnight-proofs')
    for m in ('into_option', 'assign'):
        f = w.fn(f'{V}::{m}')
        ck.record('C09.E1', f'Value::{m}:visibility', f['vis'] != 'pub', f'visibility `{f["vis"]}`',
                  f'Value::{m} is public: any gadget can branch on witness values', hirq.fn_loc(f))
        callers = reach.callers_of(w, lambda c: c == f'{V}::{m}')
        ck.count(f'Value::{m} call sites', len(callers))
        for nid, bi, t, c in callers:
            base = reach.parent_fn(nid)
            ok = any(base.startswith(p) or base == p for p in tables.C09_VALUE_ESCAPE_CALLERS)
            ck.record('C09.E1', f'Value::{m}:caller:{base}', ok and w.mir_body(nid)['_crate'] == 'proofs',
                      'assignment back-end / value plumbing inside midnight-proofs',
                      f'{nid} extracts a concrete witness value with Value::{m} outside the tabled assignment back-ends', reach.loc(w.mir_body(nid), t))


def closure_sites(w):
    """(fn, call node, closure node, combinator) for every closure handed to a Value combinator in the downstream crates"""
    out = []
    for f in w.all_fns(DOWNSTREAM):
        for n in hirq.calls(f['body']):
            c = callee(n) or ''
            if c.startswith(V + '::') and last_seg(c) in COMB:
                for a in n.get('args', []):
                    a = peel(a)
                    if a.get('k') == 'closure':
                        out.append((f, n, a, last_seg(c)))
    return out


def e2(ck, w):
    ck.rule('C09.E2', 'every closure given to Value::{map, and_then, map_with_result, assert_if_known, error_if_known_and} in circuits / zk_stdlib / zkir / '
                      'aggregator is pure with respect to circuit structure: no &mut capture, no structural API call, no write to a captured place')
    sites = closure_sites(w)
    ck.floor('C09.E2', 'Value-combinator closures', len(sites), 200)
    nviol = 0
    for f, call, clo, comb in sites:
        fn = f['_nid']
        problems = []
        captured = {}
        for cp in clo.get('caps', []):
            captured[cp.get('i')] = cp
            if cp['by'] in ('mut', 'uniq') or cp['t'].startswith('&mut') or cp['t'].startswith('core::cell::RefMut'):
                problems.append(('capture', cp['v'], f'captures `{cp["v"]}` ({cp["t"][:50]}) mutably'))
        for x in hirq.calls(clo['body']):
            c = callee(x) or ''
            cd = norm(x.get('f') or '')
            if any(c.startswith(m) or cd.startswith(m) for m in STRUCT_CALL_MARKS):
                problems.append(('call', short(c), f'calls {short(c)} inside the value closure'))
        for x in walk(clo['body']):
            if x.get('k') in ('assign', 'assignop'):
                r = hirq.recv_root(x['lhs'])
                if r.get('k') == 'local' and r['i'] in captured:
                    problems.append(('write', r['n'], f'writes the captured place `{r["n"]}`'))
        if not problems:
            continue
        # de-duplicate per (fn, subject)
        subjects = sorted({(k, s) for k, s, _ in problems})
        for kind, subj in subjects:
            key = f'{fn}|{kind}:{subj}'
            exc = tables.C09_E2_EXCEPTIONS.get(key)
            msg = '; '.join(m for k2, s2, m in problems if (k2, s2) == (kind, subj))
            if exc:
                ok, why = containment(w, f, clo, exc, subj)
                ck.record('C09.E2', key, ok, f'tabled exception ({exc["reason"]}); containment: {why}',
                          f'{fn}: {msg} — tabled exception but its containment rule fails: {why}', hirq.fn_loc(f, clo))
            else:
                nviol += 1
                ck.bad('C09.E2', key, f'{fn}: a closure passed to Value::{comb} {msg}: code that runs only when the witness is known has an effect outside the Value, '
                       f'so synthesis with unknown witnesses (key generation) and with concrete witnesses (proving) can produce different circuit structure',
                       hirq.fn_loc(f, clo))
    ck.count('closures with effects', nviol)
    pure = len(sites)
    ck.ok('C09.E2', 'pure-closures', f'{pure} closures enumerated; all others capture nothing mutably and call no structural API')


def containment(w, f, clo, exc, subj):
    kind = exc['containment']
    # locate the captured local
    li = None
    for cp in clo.get('caps', []):
        if cp['v'] == subj:
            li = cp.get('i')
    inside = {id(x) for x in walk(clo['body'])}
    uses = [x for x in walk(f['body']) if x.get('k') == 'local' and x.get('i') == li and id(x) not in inside]
    if kind == 'unused':
        return (len(uses) == 0, f'`{subj}` is never read outside the closure' if not uses else f'`{subj}` is read {len(uses)} time(s) outside the closure')
    if kind in ('index-only', 'iter-index'):
        idx_pos, iter_recv = set(), set()
        for x in walk(f['body']):
            if x.get('k') == 'index':
                for y in walk(x['i']):
                    idx_pos.add(id(y))
            if kind == 'iter-index' and x.get('k') == 'mcall' and x.get('m') in ('iter', 'len'):
                for y in walk(x['recv']):
                    iter_recv.add(id(y))
        bad = [u for u in uses if id(u) not in idx_pos and id(u) not in iter_recv]
        if bad:
            return (False, f'`{subj}` is used outside an index position' + (' / iteration' if kind == 'iter-index' else ''))
        ok2, why2 = selected_element_contained(f, clo, li, exc.get('consumers', ()))
        if not ok2:
            return (False, why2)
        return (True, f'every use of `{subj}` outside the closure is an index expression' + (' or an iteration' if kind == 'iter-index' else '') +
                f' ({len(uses)} uses); {why2}')
    if kind == 'cpu-state':
        t = next((cp['t'] for cp in clo.get('caps', []) if cp['v'] == subj), '')
        ok = any(m in t for m in exc.get('types', []))
        return (ok, f'captured type {t[:60]} is off-circuit state' if ok else f'captured type {t[:60]} is not in the allowed off-circuit types')
    if kind == 'proof-bytes':
        ok = all((callee(c) or '').endswith(('extend', 'extend_from_slice', 'clone', 'to_vec', 'iter', 'into_iter', 'collect', 'copied', 'cloned')) or (callee(c) or '').startswith('core::') or (callee(c) or '').startswith('alloc::')
                 for c in hirq.calls(clo['body']))
        return (ok, 'closure only copies bytes into the reader buffer' if ok else 'closure does more than copying bytes')
    return (False, 'unknown containment kind')


def selected_element_contained(f, clo, li, consumers):
    """The element a witness-derived index selects (`table[idx]`, its clones and the locals bound to them) may only (a) be handed by reference to a tabled
    value-only consumer, (b) have its off-circuit value read (`.value()`, a Value-typed field).  Returned, stored or passed anywhere else, its CELLS would
    take part in the circuit, and which cells those are would depend on the witness."""
    body = f['body']
    parent = {}
    for x in walk(body):
        for c in children(x):
            parent[id(c)] = x
    inside = {id(x) for x in walk(clo['body'])}
    derived = {li}
    # closure parameters bound by iterating a derived collection
    changed = True
    while changed:
        changed = False
        for x in walk(body):
            if x.get('k') == 'mcall' and any(peel(a).get('k') == 'closure' for a in x.get('args', [])):
                roots = [y for y in walk(x['recv']) if y.get('k') == 'local' and y.get('i') in derived and id(y) not in inside]
                if roots:
                    for a in x['args']:
                        a = peel(a)
                        if a.get('k') == 'closure':
                            for pp in a.get('params', []):
                                for b in pat_bindings(pp):
                                    if (b.get('t') or '').replace('&', '').strip() in ('usize', 'u32', 'u64') and b['i'] not in derived:
                                        derived.add(b['i']); changed = True
            if x.get('k') == 'for':
                roots = [y for y in walk(x['iter']) if y.get('k') == 'local' and y.get('i') in derived and id(y) not in inside]
                if roots:
                    for b in pat_bindings(x['pat']):
                        if (b.get('t') or '').replace('&', '').strip() in ('usize', 'u32', 'u64') and b['i'] not in derived:
                            derived.add(b['i']); changed = True
    selected_nodes = []
    for x in walk(body):
        if x.get('k') == 'index' and id(x) not in inside:
            if any(y.get('k') == 'local' and y.get('i') in derived for y in walk(x['i'])):
                t = x.get('t') or ''
                if t.replace('&', '').strip() in ('usize', 'u32', 'u64', 'i32'):
                    continue            # the index vector itself (unwrapped[i])
                selected_nodes.append(x)
    sel_locals = set()
    problems = []
    nuses = [0]

    def classify(x):
        nuses[0] += 1
        cur = x
        while True:
            p = parent.get(id(cur))
            if p is None:
                problems.append('selected element is the value of the function body'); return
            k = p.get('k')
            if k in ('ref', 'cast') or (k == 'un' and p.get('op') == '*') or (k == 'block' and p.get('e') is cur and not p.get('ss')):
                cur = p; continue
            if k == 'mcall' and p.get('recv') is cur:
                if p.get('m') == 'clone':
                    cur = p; continue
                if p.get('m') == 'value':
                    return
                problems.append(f'selected element is the receiver of .{p.get("m")}() (line {p.get("l")})'); return
            if k == 'field' and p.get('e') is cur:
                if (p.get('t') or '').lstrip('&').startswith(('midnight_proofs::circuit::Value', 'midnight_proofs::circuit::value::Value')):
                    return
                problems.append(f'cell-bearing field .{p.get("n")} of the selected element is read (line {p.get("l")})'); return
            if k in ('call', 'mcall'):
                c = callee(p) or ''
                if any(c.endswith(cc) for cc in consumers):
                    return
                problems.append(f'selected element is passed to {short(c) or "a constructor"} (line {p.get("l")}), not to a tabled value-only consumer'); return
            if k in ('let', 'letx') and p.get('init') is cur:
                bs = pat_bindings(p['pat'])
                for b in bs:
                    if b['i'] not in sel_locals:
                        sel_locals.add(b['i'])
                        for y in walk(body):
                            if y.get('k') == 'local' and y.get('i') == b['i']:
                                classify(y)
                return
            problems.append(f'selected element flows into a `{k}` expression (line {p.get("l")})'); return
    for x in selected_nodes:
        classify(x)
    if not selected_nodes:
        return (True, 'no element is selected with the index')
    if problems:
        return (False, 'the witness-selected table element escapes: ' + '; '.join(sorted(set(problems))[:3]))
    return (True, f'the selected element ({len(selected_nodes)} site(s), {nuses[0]} uses) only feeds value-only consumers {list(consumers)} and Value reads')


def e3(ck, w):
    ck.rule('C09.E3', 'pass partition: keygen Assembly::assign_advice never evaluates the value closure; prover WitnessCollection::{assign_fixed, copy, '
                      'enable_selector, fill_from_row} are no-ops (call nothing, write nothing)')
    A = 'midnight_proofs::plonk::circuit::Assignment>::'
    ka = w.fn('<midnight_proofs::plonk::keygen::Assembly as ' + A + 'assign_advice')
    calls = list(hirq.calls(ka['body'])) + [n for n in walk(ka['body']) if n.get('k') == 'call' and 'fe' in n]
    ck.record('C09.E3', 'keygen:assign_advice:ignores-closure', not [c for c in calls if c.get('dk') != 'Ctor'],
              'body is `Ok(())`', 'keygen Assembly::assign_advice evaluates something: advice values could influence the keys', hirq.fn_loc(ka))
    for m in ('assign_fixed', 'copy', 'enable_selector', 'fill_from_row'):
        g = w.fn('<midnight_proofs::plonk::prover::WitnessCollection as ' + A + m)
        effects = [c for c in hirq.calls(g['body']) if c.get('dk') != 'Ctor'] + [n for n in walk(g['body']) if n.get('k') in ('assign', 'assignop')]
        ck.record('C09.E3', f'prover:{m}:noop', not effects, 'no-op', f'WitnessCollection::{m} has effects: the proving pass would record structure', hirq.fn_loc(g))


def e4(ck, w):
    ck.rule('C09.E4', 'lazy tables: every ZkStdLib method that uses a table-bearing chip sets its used_* flag outside any Value closure, and '
                      'MidnightCircuit::synthesize loads a table only under the corresponding flag')
    adt = w.adt('midnight_zk_stdlib::ZkStdLib')
    flags = [fd['name'] for fd in adt['variants'][0]['fields'] if fd['name'].startswith('used_')]
    ck.floor('C09.E4', 'used_* flags', len(flags), 3)
    syn = [f for f in w.all_fns(['zk_stdlib']) if f['name'] == 'synthesize' and 'MidnightCircuit' in (f.get('impl') or {}).get('self', '')]
    if not syn:
        ck.bad('C09.E4', 'synthesize:anchor', 'MidnightCircuit::synthesize not found (anchor)')
        return
    s = syn[0]
    for fl in flags:
        setters = []
        for f in w.all_fns(['zk_stdlib']):
            if f['_nid'] == s['_nid']:
                continue
            for n in walk(f['body']):
                if n.get('k') == 'assign' and any(x.get('k') == 'field' and x['n'] == fl for x in walk(n['lhs'])):
                    # inside a Value closure?
                    setters.append((f, n))
        in_value = 0
        for f, n in setters:
            for fx, call, clo, comb in [(a, b, c, d) for a, b, c, d in closure_sites(w) if a['_nid'] == f['_nid']]:
                if id(n) in {id(x) for x in walk(clo['body'])}:
                    in_value += 1
        read_in_syn = any(x.get('k') == 'field' and x['n'] == fl for x in walk(s['body']))
        if not read_in_syn:
            ck.ok('C09.E4', f'flag:{fl}', 'not consulted by MidnightCircuit::synthesize (no lazily loaded table depends on it)', nontrivial=False)
            continue
        ck.record('C09.E4', f'flag:{fl}', bool(setters) and in_value == 0 and read_in_syn,
                  f'{len(setters)} setter(s), none inside a Value closure; consulted by synthesize',
                  f'{fl}: setters={len(setters)}, inside Value closures={in_value}, consulted by MidnightCircuit::synthesize={read_in_syn}', hirq.fn_loc(s))


C09_PEEKS = {
    # function that keeps the Result of a witness test instead of propagating it with `?`: why the structure does not depend on it
    '<midnight_circuits::ecc::foreign::ecc_chip::ForeignEccChip as midnight_circuits::instructions::control_flow::ControlFlowInstructions<midnight_circuits::ecc::foreign::ecc_chip::AssignedForeignPoint>>::select':
        'chooses which OFF-CIRCUIT value (`point`, a Value-only field) the selected point carries; the cells are selected in-circuit just above',
}


def e5(ck, w):
    """a witness test is an error or nothing"""
    ck.rule('C09.E5', 'Value::error_if_known_and / Value::assert_if_known answer a question about the witness with a Result.  That Result is propagated with `?` '
                      '(a witness that fails the test aborts proving; key generation, where the witness is unknown, is unaffected).  Keeping it — binding it, testing '
                      'it with is_ok / is_err / match — turns the witness test into a branch that key generation and proving may take differently: regions '
                      'assigned under it exist in one pass only and every later region moves.  Sites that keep the Result are tabled with the reason why no '
                      'structural call depends on them (tables: C09_PEEKS).')
    n = 0
    for f in w.all_fns(DOWNSTREAM):
        if '::tests::' in f['_nid'] or '/tests' in f['file']:
            continue
        par = {}
        for x in walk(f['body']):
            for c in children(x):
                par[id(c)] = x
        for x in hirq.calls(f['body']):
            c = callee(x) or ''
            if c not in (V + '::error_if_known_and', V + '::assert_if_known'):
                continue
            n += 1
            p_ = par.get(id(x))
            while p_ is not None and p_.get('k') == 'block' and not p_.get('ss'):
                p_ = par.get(id(p_))
            propagated = p_ is not None and p_.get('k') in ('try', 'ret') or (p_ is not None and p_.get('k') == 'block' and p_.get('e') is x and par.get(id(p_)) is None)
            key = f'{f["_xid"]}|{last_seg(c)}'
            if propagated:
                ck.ok('C09.E5', key, 'the Result is propagated', hirq.fn_loc(f, x))
            elif f['_xid'] in C09_PEEKS or f['_nid'] in C09_PEEKS:
                ck.ok('C09.E5', key, 'tabled: ' + (C09_PEEKS.get(f['_xid']) or C09_PEEKS.get(f['_nid'])), hirq.fn_loc(f, x))
            else:
                ck.bad('C09.E5', key, f'{f["_nid"]} keeps the Result of Value::{last_seg(c)} instead of propagating it with `?`: what follows may be decided by the witness '
                       f'(known while proving, unknown during key generation), so regions, rows and copy constraints can differ between the two passes', hirq.fn_loc(f, x))
    ck.floor('C09.E5', 'witness tests', n, 4)
