"""C07 — structural (constraint-flow) clauses: no unconstrained hint, no dropped constraint, typestate constructors, must-call checks."""
from . import dprops
from .. import tables

FLOORS = tables.D_FLOORS['C07']


def run(ck):
    w = ck.world()
    ck.explanation = tables.D_EXPLANATION['C07']
    dprops.run_d(ck, w, 'C07', FLOORS)
    extra = getattr(tables, 'D_EXTRA', {}).get('C07')
    if extra:
        extra(ck, w)
    s1_sponge_twins(ck, w)
    s2_varlen_alignment(ck, w)
    k1_constants(ck, w)


CHIP = '<midnight_circuits::hash::poseidon::poseidon_chip::PoseidonChip as midnight_circuits::instructions::sponge::SpongeInstructions<midnight_proofs::circuit::AssignedCell, midnight_proofs::circuit::AssignedCell>>::'
CPU = 'midnight_circuits::hash::poseidon::poseidon_cpu::<impl midnight_circuits::instructions::sponge::SpongeCPU for midnight_circuits::hash::poseidon::poseidon_chip::PoseidonChip>::'


def skeleton(f):
    """control skeleton of a sponge operation: nesting of if / match / for / return / panic with the state fields written at each place"""
    from ..core import peel, pat_bindings, children
    st = [b['i'] for p in f.get('params', []) for b in pat_bindings(p) if b['n'] == 'state']
    if not st:
        return None
    sid = st[0]

    def field_of(e):
        e = peel(e)
        path = []
        while e.get('k') in ('field', 'index', 'mcall', 'try'):
            if e.get('k') == 'field':
                path.append(e['n'])
            e = peel(e['recv'] if e.get('k') == 'mcall' else e['e'])
        if e.get('k') == 'local' and e.get('i') == sid and path:
            return path[-1]
        return None

    def rec(n):
        k = n.get('k')
        x = n.get('x') or []
        if any('debug_assert' in m for m in x):
            return []
        out = []
        if k == 'if':
            out.append(('if', rec(n['a']), rec(n['b']) if 'b' in n else []))
            return rec(n['c']) + out
        if k == 'match' and n.get('src') == 'match':
            return rec(n['e']) + [('match', [rec(a['body']) for a in n['arms']])]
        if k == 'for':
            return rec(n['iter']) + [('for', rec(n['body']))]
        if k == 'loop':
            return [('loop', rec(n['body']))]
        if k == 'closure':
            return rec(n['body'])
        if k == 'ret':
            return (rec(n['e']) if 'e' in n else []) + ['ret']
        if k in ('assign', 'assignop'):
            fl = field_of(n['lhs'])
            return rec(n['rhs']) + ([f'W:{fl}'] if fl else [])
        if k in ('call', 'mcall'):
            inner = []
            for c in children(n):
                inner += rec(c)
            if n.get('t') == '!':
                return inner + ['panic']
            if k == 'mcall' and n.get('m') in ('extend', 'push', 'clear', 'truncate', 'insert', 'pop', 'drain', 'extend_from_slice'):
                fl = field_of(n['recv'])
                if fl:
                    inner.append(f'W:{fl}')
            for a in n.get('args', []):
                if a.get('k') == 'ref' and a.get('mut'):
                    fl = field_of(a)
                    if fl:
                        inner.append(f'W:{fl}')
            return inner
        for c in children(n):
            out += rec(c)
        return out
    def canon(seq):
        """consecutive state writes are independent of each other: their order is not part of the skeleton"""
        out, run = [], []
        for x in seq:
            if isinstance(x, str) and x.startswith('W:'):
                run.append(x)
                continue
            out += sorted(run)
            run = []
            if isinstance(x, tuple):
                x = tuple(canon(y) if isinstance(y, list) and (not y or not isinstance(y[0], list)) else
                          ([canon(z) for z in y] if isinstance(y, list) else y) for y in x)
            out.append(x)
        return out + sorted(run)
    return canon(rec(f['body']))


def s1_sponge_twins(ck, w):
    ck.rule('C07.S1', 'sponge twins: the in-circuit Poseidon sponge (SpongeInstructions for PoseidonChip) and the off-circuit one (SpongeCPU, which also backs the '
                      'transcript hash) have the same control skeleton operation by operation: the same nesting of branches, loops, early returns and panics, '
                      'writing the same state fields (queue, register, squeeze_position) at the same places.  A branch or early return present on one side '
                      'only makes the two sponges diverge for the call sequences that take it.')
    for op in ('absorb', 'squeeze'):
        a, b = w.fn_x(CHIP + op, required=False), w.fn_x(CPU + op, required=False)
        if a is None or b is None:
            ck.bad('C07.S1', f'{op}:anchor', f'sponge twin {op} not found (in-circuit: {a is not None}, off-circuit: {b is not None})')
            continue
        sa, sb = skeleton(a), skeleton(b)
        ck.record('C07.S1', f'{op}:skeleton', sa is not None and sa == sb, f'identical skeletons ({len(str(sa))} chars)',
                  f'Poseidon sponge `{op}`: in-circuit skeleton {sa} differs from the off-circuit skeleton {sb}', None)


def s2_varlen_alignment(ck, w):
    """variable-length hash gadgets refuse buffer sizes that are not a multiple of their block size"""
    from ..core import walk
    ck.rule('C07.S2', 'variable-length hash gadgets (…_varlen over an AssignedVector of MAX_LEN cells processed in blocks) assert that MAX_LEN is a multiple of the '
                      'block size: the payload is right-aligned in the buffer and the gadget walks whole blocks from the left, so with a ragged MAX_LEN the blocks '
                      'it hashes do not contain the payload (VarLenSha256 with M = 100 hashed filler only and accepted that digest).  Sibling rule: '
                      'poseidon_varlen asserts MAX_LEN % RATE == 0.')
    fs = [f for f in w.all_fns(['circuits']) if f['name'].endswith('_varlen') and '/hash/' in f['file'] and '::tests' not in f['_nid']]
    ck.floor('C07.S2', 'variable-length hash entry points', len(fs), 2)
    for f in fs:
        ok = False
        for n in walk(f['body']):
            if any('assert' in m for m in (n.get('x') or [])):
                if any(y.get('k') == 'bin' and y.get('op') == '%' for y in walk(n)):
                    ok = True
        ck.record('C07.S2', f'{f["_nid"]}:asserts-alignment', ok, 'asserts MAX_LEN % block == 0',
                  f'{f["_nid"]} does not assert that the buffer size is a multiple of its block size: for other sizes it silently hashes the wrong cells',
                  f'{f["file"]}:{f["line"]}')


def k1_constants(ck, w, rule='C07.K1'):
    """the constant tables of the hash chips satisfy the definitions of their standards"""
    from ..engines import consteq
    ck.rule(rule, 'constant tables (values computed by the compiler\'s const evaluator, nothing is run): SHA-256 / SHA-512 round constants and initial values are the '
                  'fractional parts of the cube / square roots of the first primes (FIPS 180-4); RIPEMD-160: K = 2^30 * sqrt(2, 3, 5, 7), K\' = 2^30 * cbrt(2, 3, 5, 7), the '
                  'initial value, the message-word selections r = rho^k and r\' = rho^k pi (pi(i) = 9i + 5 mod 16), and the rotation amounts of both lines are '
                  'functions of (round, message word) — one table read off (s, r) explains (s\', r\').  A wrong entry changes the digest of exactly the messages '
                  'that exercise it.')
    consts = consteq.load(w, 'circuits')
    n = 0
    for cid, ok, detail, loc in consteq.sha2_equations(consts) + consteq.ripemd_equations(consts):
        n += 1
        ck.record(rule, cid, ok, detail, f'{cid} does not satisfy its definition ({detail}): the gadget no longer computes the standard function', loc)
    ck.floor(rule, 'hash constant tables', n, 10)
