"""C15 — batching and accumulation accept exactly the all-valid batches (structural clauses)."""
from ..core import norm, callee, walk, mir_callee, AnchorMissing, short
from ..engines import mustcall as mc, reach, hirq, panics, valflow
from ..core import peel, pat_bindings
import re
from .. import tables

BV = 'midnight_zk_stdlib::batch_verify'
CL = BV + '::{closure#0}'      # replaced at run time by the closure that calls prepare (closure numbers shift when closures are added)
PREP = 'midnight_proofs::plonk::verifier::prepare'
DM = 'midnight_proofs::poly::kzg::msm::DualMSM'
GBV = 'midnight_proofs::poly::commitment::Guard::batch_verify'


def run(ck):
    w = ck.world()
    ck.explanation = (
        'Static rules: (R1) in the per-member closure of batch_verify, on every success path: count check → prepare → '
        'squeeze the member summary from the member transcript → absorb it into the batching transcript → assert_empty; '
        '(R2) the batching challenge is squeezed after all members were processed and every guard but the first is scaled and added; '
        '(R3) DualMSM::scale/add_msm act on both channels, the accumulators hash all inputs; '
        '(R4) totality: every explicit panic site in the bodies of batch_verify / Guard::batch_verify is triaged; '
        '(R5) scaling discipline: in every scale / accumulate-with-r routine each scalar that is stored depends, by value, on the random factor. '
        '(R5) see above. Does not decide the probabilistic "accepts iff all valid" statement.')
    r1_member(ck, w)
    r2_fold(ck, w)
    r3_channels(ck, w)
    r4_totality(ck, w)
    r5_scaling(ck, w)
    r6_repeated_labels(ck, w)


def r1_member(ck, w):
    global CL
    CL = w.closure_calling(BV, lambda c: c == PREP)
    ck.rule('C15.R1', 'per-member must-call order in batch_verify closure: prepare → squeeze_challenge(member transcript) → '
                      'common(batching transcript) → assert_empty, on every success path')
    b = w.mir_body(CL)
    sq = lambda c, t: c.endswith('Transcript>::squeeze_challenge') or c.endswith('Transcript::squeeze_challenge')
    cm = lambda c, t: c.endswith('Transcript>::common') or c.endswith('Transcript::common')
    ae = lambda c, t: c.endswith('::assert_empty')
    chain = [('prepare', lambda c, t: c == PREP), ('squeeze_challenge', sq), ('common', cm), ('assert_empty', ae)]
    for (n1, p1), (n2, p2) in zip(chain, chain[1:]):
        res = mc.calls_after(b, p1, p2)
        ck.record('C15.R1', f'member:{n1}->{n2}', bool(res) and all(ok for _, _, ok in res),
                  f'{n2} follows {n1} on every success path',
                  f'batch_verify member closure: a success path after {n1} skips {n2}', reach.loc(b))
    # HIR: summary is squeezed from the member transcript and absorbed into the *other* transcript
    f = w.fn(BV)
    clos = [n for n in walk(f['body']) if n.get('k') == 'closure' and norm(n['id']) == CL]
    helper = None
    if not clos:
        # the member body may live in a NEW helper function (see World.closure_calling): the shared transcript is then a `&mut` parameter
        helper = w.fn(CL, required=False)
        if helper is None or CL.startswith(BV + '::{closure'):
            raise AnchorMissing('batch_verify member closure')
        clos = [dict(body=helper['body'], caps=[dict(v=p_['n'], by='mut' if str(p_.get('t', '')).startswith('&mut') else 'ref')
                                                 for p_ in helper.get('params', []) if p_.get('k') == 'bind'])]
    c = clos[0]
    sq_recv, cm_recv, cm_arg = None, None, set()
    summary_locals = set()
    for n in walk(c['body']):
        if n.get('k') == 'let' and 'init' in n:
            for m in hirq.calls(n['init']):
                if m.get('m') == 'squeeze_challenge':
                    sq_recv = hirq.recv_root(m['recv']).get('n')
                    from ..core import pat_bindings
                    summary_locals |= {p['i'] for p in pat_bindings(n['pat'])}
    for m in hirq.calls(c['body']):
        if m.get('m') == 'common':
            cm_recv = hirq.recv_root(m['recv']).get('n')
            for a in m.get('args', []):
                cm_arg |= hirq.locals_used(a)
    caps = {cp['v']: cp['by'] for cp in c.get('caps', [])}
    ck.record('C15.R1', 'member:summary-flow', sq_recv is not None and cm_recv is not None and sq_recv != cm_recv
              and bool(summary_locals & cm_arg) and caps.get(cm_recv) == 'mut' and sq_recv not in caps,
              f'summary squeezed from per-member `{sq_recv}` and absorbed into shared `{cm_recv}`',
              f'batch_verify: summary challenge flow broken (squeezed from `{sq_recv}`, absorbed into `{cm_recv}`, '
              f'absorbed-locals∩summary={bool(summary_locals & cm_arg)})', hirq.fn_loc(helper or f, c if helper is None else None))


def r2_fold(ck, w):
    ck.rule('C15.R2', 'batching challenge squeezed after the member loop was fully collected; fold scales and adds every remaining guard; '
                      'final verify is reached on every success path')
    b = w.mir_body(BV)
    sq = lambda c, t: c.endswith('squeeze_challenge')
    collect = lambda c, t: c.endswith('Iterator::collect') or c.endswith('iter::Iterator::collect')
    res = mc.call_blocks(b, sq)
    col = mc.call_blocks(b, collect)
    ok = False
    if res and col:
        from ..core import successors, dominators, dominates
        succ = successors(b); idom = dominators(succ)
        ok = all(any(dominates(idom, ci, si) for ci, _ in col) for si, _ in res)
    ck.record('C15.R2', 'challenge-after-members', ok, 'r is squeezed in a block dominated by the collect() of all member guards',
              'batch_verify squeezes the batching challenge before all members were absorbed', reach.loc(b))
    # fold: scale and add_msm inside a loop over guards; verify at the end
    f = w.fn(BV)
    loops = [n for n in walk(f['body']) if n.get('k') == 'for']
    good = False
    for lp in loops:
        ms = {m.get('m') for m in hirq.calls(lp['body'])}
        if {'scale', 'add_msm'} <= ms:
            # scale argument must be the challenge local
            good = True
    ck.record('C15.R2', 'fold:scale+add', good, 'loop over guards applies scale(r) and add_msm(guard)',
              'batch_verify fold no longer scales and adds every guard', hirq.fn_loc(f))
    # distinct powers: the scaling inside the loop must accumulate — either the loop-carried accumulator is scaled (Horner), or the factor is a
    # loop-carried power that the loop updates; scaling the loop variable with a loop-invariant factor gives every member the same coefficient
    from ..core import peel, pat_bindings
    distinct = False
    why = 'no scale call inside a loop'
    for lp in loops:
        loop_vars = {b['i'] for b in pat_bindings(lp['pat'])}
        inside = {id(x) for x in walk(lp['body'])}
        assigned_in_loop = set()
        for x in walk(lp['body']):
            if x.get('k') in ('assign', 'assignop'):
                l = peel(x['lhs'])
                if l.get('k') == 'local':
                    assigned_in_loop.add(l['i'])
        for m in hirq.calls(lp['body']):
            if m.get('m') != 'scale' or 'recv' not in m:
                continue
            r = peel(m['recv'])
            while r.get('k') in ('field', 'mcall', 'index'):
                r = peel(r['recv'] if r.get('k') == 'mcall' else r['e'])
            recv_carried = r.get('k') == 'local' and r['i'] not in loop_vars and not any(
                x.get('k') in ('let', 'letx') and id(x) in inside and any(b['i'] == r['i'] for b in pat_bindings(x['pat'])) for x in walk(lp['body']))
            fac_locals = {x['i'] for a in m.get('args', []) for x in walk(a) if x.get('k') == 'local'}
            fac_carried = bool(fac_locals & assigned_in_loop)
            if recv_carried or fac_carried:
                distinct = True
            else:
                why = f'`{short(callee(m) or "scale")}` scales the loop variable with a loop-invariant factor'
    ck.record('C15.R2', 'fold:distinct-powers', distinct, 'the loop-carried accumulator (or a running power) is scaled: member i gets r^(n-1-i)',
              f'batch_verify fold: {why}: every member after the first gets the SAME coefficient, so errors of two invalid members can cancel', hirq.fn_loc(f))
    # every success path reaches Guard::verify, except paths through an explicit emptiness test of the guard list
    ver = [i for i, _ in mc.call_blocks(b, lambda c, t: c.endswith('Guard>::verify') or c.endswith('Guard::verify'))]
    empt = []
    for i, blk in enumerate(b['blocks']):
        t = blk['t']
        if t.get('k') == 'switch':
            on = t['on']
            l = on if isinstance(on, int) else (on.get('p') if isinstance(on, dict) else None)
            if l is not None:
                _, cal, _, _ = mc.local_def_chain(b, l)
                if any((c or '').endswith(sfx) for c in cal for sfx in ('::first', '::is_empty', '::split_first', 'Vec::len', '<impl [T]>::len')):
                    empt.append(i)
    bad = mc.success_reachable_avoiding(b, ver + empt)
    ck.record('C15.R2', 'final-verify', bool(ver) and not bad,
              f'Guard::verify reached on every success path (paths through {len(empt)} emptiness test(s) of the guard list excepted)',
              'batch_verify can return Ok without the final pairing check on a non-empty batch', reach.loc(b))
    # scale uses the squeezed challenge
    rloc = set()
    from ..core import pat_bindings
    for n in walk(f['body']):
        if n.get('k') == 'let' and 'init' in n and any(m.get('m') == 'squeeze_challenge' for m in hirq.calls(n['init'])) and not any(x.get('k') == 'closure' for x in walk(n['init'])):
            rloc |= {p['i'] for p in pat_bindings(n['pat'])}
    used = set()
    for lp in loops:
        for m in hirq.calls(lp['body']):
            if m.get('m') == 'scale':
                for a in m.get('args', []):
                    used |= hirq.locals_used(a)
    ck.record('C15.R2', 'fold:scale-by-challenge', bool(rloc & used), 'scale() is applied with the squeezed batching challenge',
              'the fold scales by something other than the batching challenge', hirq.fn_loc(f))


def r3_channels(ck, w):
    ck.rule('C15.R3', 'COVER: DualMSM::{scale, add_msm} touch both `left` and `right`; check() pairs both channels; '
                      'off-circuit and in-circuit accumulate() hash every accumulator')
    for m in ('scale', 'add_msm', 'check'):
        f = w.fn(DM + '::' + m)
        fr = {fld for a, fld in hirq.field_reads(f['body']) if a == DM}
        ck.record('C15.R3', f'DualMSM::{m}:both-channels', {'left', 'right'} <= fr, 'reads left and right',
                  f'DualMSM::{m} no longer touches both channels ({sorted(fr)})', hirq.fn_loc(f))
    for nid in ('midnight_circuits::verifier::accumulator::Accumulator::accumulate',
                'midnight_circuits::verifier::accumulator::AssignedAccumulator::accumulate'):
        f = w.fn(nid)
        # the hash input must be built from an iteration over the `accs` parameter
        accs = [p for p in f['params'] if p.get('k') == 'bind' and p['n'] == 'accs']
        if not accs:
            ck.bad('C15.R3', f'{short(nid)}:anchor', 'parameter `accs` not found (anchor)', hirq.fn_loc(f))
            continue
        ai = accs[0]['i']
        hashes = [m for m in hirq.calls(f['body']) if (callee(m) or '').endswith('::hash') or m.get('m') == 'hash']
        feeds = False
        pi_calls = [m for m in hirq.calls(f['body']) if (m.get('m') == 'as_public_input' or (callee(m) or '').endswith('::as_public_input'))]
        # as_public_input applied inside an iteration whose source is `accs`
        for n in walk(f['body']):
            if n.get('k') in ('mcall',) and n.get('m') in ('map', 'flat_map', 'for_each', 'try_for_each') and ai in hirq.locals_used(n['recv']):
                if any((m.get('m') == 'as_public_input' or (callee(m) or '').endswith('::as_public_input')) for a in n.get('args', []) for m in hirq.calls(a)) \
                   or any(a.get('k') == 'path' and (a.get('p') or '').endswith('as_public_input') for a in n.get('args', [])):
                    feeds = True
            if n.get('k') == 'for' and ai in hirq.locals_used(n['iter']):
                if any((m.get('m') == 'as_public_input' or (callee(m) or '').endswith('::as_public_input')) for m in hirq.calls(n['body'])):
                    feeds = True
        ck.record('C15.R3', f'{short(nid)}:hash-all', bool(hashes) and feeds,
                  'hash input built from as_public_input of every element of accs',
                  f'{nid}: the combination challenge no longer depends on every accumulator', hirq.fn_loc(f))


def r4_totality(ck, w):
    ck.rule('C15.R4', 'PANIC: every explicit panic site (assert!/unwrap/expect/index/slice-range/partial external) in the bodies of '
                      'batch_verify and Guard::batch_verify (incl. closures) is triaged in tables.C15_PANIC_TRIAGE; a batch of any size/shape must yield a Result')
    total = 0
    for fn_nid in (BV, GBV):
        w.mir_body(fn_nid)
        for nid in panics.own_bodies(w, fn_nid):
            b = w.mir_body(nid)
            for s in panics.sites(b):
                total += 1
                key = f'{nid}|{s["kind"]}|{s["detail"]}'
                tri = tables.C15_PANIC_TRIAGE.get(key)
                if tri:
                    ck.ok('C15.R4', key, 'triaged: ' + tri)
                else:
                    ck.bad('C15.R4', key, f'untriaged panic site in {nid}: {s["kind"]} {s["detail"]} — a batch API must answer with a Result',
                           reach.loc(b, s['term']))
    ck.count('panic sites inspected', total)


SCALAR_T = re.compile(r'::F\b|::Fr\b|Scalar')
POINT_T = re.compile(r'::C\b|::G1\b|G1Affine|Point|String|Label')
MSMX = '<midnight_proofs::poly::kzg::msm::MSMKZG as midnight_proofs::utils::arithmetic::MSM<<E as pairing::Engine>::G1Affine>>::scale'
C15_SCALED = [
    # (function xid, random-factor parameter, mode)
    ('midnight_circuits::verifier::msm::Msm::accumulate_with_r', 'r', 'stores', 3),
    ('midnight_circuits::verifier::msm::AssignedMsm::scale', 'r', 'stores', 2),
    (MSMX, 'factor', 'stores', 1),
    ('midnight_proofs::poly::kzg::msm::DualMSM::scale', 'e', 'delegates', 2),
    ('midnight_circuits::verifier::msm::AssignedMsm::accumulate_with_r', 'r', 'scale-then-add', 1),
]


def r5_scaling(ck, w):
    ck.rule('C15.R5', 'scaling discipline of the random linear combination: in each scale / accumulate_with_r routine every SCALAR that is stored (assigned, '
                      'pushed, inserted into a map — whichever branch) depends by value on the random factor; delegating routines hand the factor to every '
                      'channel; the in-circuit accumulate scales `other` before adding it.  A contribution stored unscaled makes the combination differ from '
                      'self + r*other for some key set.')
    for xid, pn, mode, floor in C15_SCALED:
        f = w.fn_x(xid, required=False)
        if f is None:
            ck.bad('C15.R5', f'{xid}:anchor', f'{xid} not found (anchor)')
            continue
        src = [(b['n'], b['i'], b.get('t')) for p in f['params'] for b in pat_bindings(p) if b['n'] == pn]
        if not src:
            ck.bad('C15.R5', f'{xid}:anchor:{pn}', f'{xid}: parameter `{pn}` not found (anchor)', hirq.fn_loc(f))
            continue
        vf = valflow.ValFlow(f, sources=src)
        if mode == 'stores':
            n = 0
            for node, kind, val, deps in vf.store_sites():
                t = peel(val).get('t') or val.get('t') or ''
                if not SCALAR_T.search(t) or (POINT_T.search(t) and not SCALAR_T.search(t.split('<')[-1])):
                    continue
                n += 1
                ck.record('C15.R5', f'{short(xid)}|store:{kind}#{n}', pn in deps, f'stored scalar depends on `{pn}`',
                          f'{xid}: a scalar stored by `{kind}` (line {node.get("l")}) does not depend on the random factor `{pn}`: on that branch the contribution '
                          f'of `other` enters the accumulator unscaled', hirq.fn_loc(f, node))
            ck.floor('C15.R5', f'{short(xid)} scalar stores', n, floor)
        elif mode == 'delegates':
            calls = [(node, c, deps) for node, c, deps0 in vf.call_sites() if c.endswith('::scale') for deps in [all_deps(vf, node)]]
            ck.floor('C15.R5', f'{short(xid)} scale delegations', len(calls), floor)
            for i, (node, c, deps) in enumerate(calls):
                ck.record('C15.R5', f'{short(xid)}|delegate#{i}', pn in deps, f'passes `{pn}` to {short(c)}',
                          f'{xid}: the call of {c} (line {node.get("l")}) does not receive the factor `{pn}`', hirq.fn_loc(f, node))
        elif mode == 'scale-then-add':
            scales = [node for node, c, _ in vf.call_sites() if c.endswith('AssignedMsm::scale') and pn in all_deps(vf, node)]
            adds = [node for node, c, _ in vf.call_sites() if c.endswith('AssignedMsm::add_msm')]
            ok = False
            why = 'no scale(.., r) / add_msm pair'
            if scales and adds:
                sroot = vf.root_local(scales[0]['recv']) if 'recv' in scales[0] else None
                aroots = {y.get('i') for a in adds[0].get('args', []) for y in walk(a) if y.get('k') == 'local'}
                ok = sroot is not None and sroot in aroots and scales[0].get('l', 0) < adds[0].get('l', 0)
                why = 'the value handed to add_msm is not the one scaled by r beforehand'
            ck.record('C15.R5', f'{short(xid)}|scale-then-add', ok, 'scales `other` by r, then adds that scaled value',
                      f'{xid}: {why}', hirq.fn_loc(f))


def all_deps(vf, node):
    _, per_arg = vf.sites[id(node)]
    d = frozenset()
    for x in per_arg:
        d |= x or frozenset()
    return d


def r6_repeated_labels(ck, w, rule='C15.R6'):
    """a fixed base may occur several times in a batched guard"""
    from ..core import walk, callee
    from ..engines import hirq
    ck.rule(rule, 'Accumulator::from_dual_msm sorts the terms of a dual MSM into variable bases and named fixed bases.  A batched guard (batch_verify scales and adds '
                  'the guards of several proofs) carries the same fixed-base label once per proof under one verifying key, so the scalars of a label ADD UP: the map '
                  'of fixed-base scalars is updated through entry(..) / get_mut with `+=`, never with a plain insert (which keeps the last scalar only and turns a '
                  'valid batch into an accumulator that fails its check).  Sibling routines Msm::accumulate_with_r and AssignedMsm::add_msm add as well.')
    fs = [f for f in w.all_fns(['circuits']) if f.get('name') == 'from_dual_msm' and 'accumulator' in f['file'] and '::tests' not in f['_nid']]
    if not fs:
        ck.bad(rule, 'from_dual_msm:anchor', 'Accumulator::from_dual_msm not found (anchor)')
    for f in fs:
        ins = [c for c in hirq.calls(f['body']) if (callee(c) or '').endswith('BTreeMap::insert')]
        adds = [x for x in walk(f['body']) if x.get('k') == 'assignop' and x.get('op') in ('+', '+=')] + \
               [c for c in hirq.calls(f['body']) if (callee(c) or '').endswith('AddAssign::add_assign')]
        ck.record(rule, 'from_dual_msm:scalars-add-up', not ins and bool(adds), f'{len(adds)} accumulating update(s), no plain insert',
                  f'{f["_nid"]} stores fixed-base scalars with BTreeMap::insert ({len(ins)} site(s), accumulating updates: {len(adds)}): a label that occurs twice keeps '
                  f'its last scalar only, the accumulator of a valid batch of guards fails its check', hirq.fn_loc(f))
