"""C14 — KZG multi-opening: schedule duality of the three siblings, duplicate-query refusal, every read value is used."""
from ..core import norm, short, walk, callee, peel, mir_callee, pat_bindings
from ..engines import sched, schednorm, hirq, mustcall as mc, reach
from .. import tables
from . import c01, c20, c10

KZG = '<midnight_proofs::poly::kzg::KZGCommitmentScheme as midnight_proofs::poly::commitment::PolynomialCommitmentScheme>::'
OPEN, PREP = KZG + 'multi_open', KZG + 'multi_prepare'
INC = 'midnight_circuits::verifier::kzg::multi_prepare'
CIS = 'midnight_proofs::poly::kzg::utils::construct_intermediate_sets'
CIS_IN = 'midnight_circuits::verifier::kzg::construct_intermediate_sets'


def run(ck):
    w = ck.world()
    r4_identity(ck, w)
    r5_point_domains(ck, w)
    r6_len_minus_one(ck, w)
    r7_chopped_single_point(ck, w)
    from . import c01
    c01.golden_rule(ck, w, 'C14.R8', 'For the multi-opening: x1, x2, the commitment of f, x3, one evaluation per point set, x4, pi — in this order; with x4 squeezed before the '
                    'evaluations are absorbed, altered claimed evaluations are accepted.')
    c10.eval_ops(ck, w, 'C14', 'C14.N1')
    ck.explanation = (
        'Static rules for the multi-opening argument: (R1) multi_open (write→read) = multi_prepare = in-circuit multi_prepare as transcript schedules '
        '(x1, x2, f commitment, x3, one evaluation per point set, x4, pi); (R2) both copies of construct_intermediate_sets have a reachable duplicate-query '
        'error exit guarded by the membership test, and all three callers propagate it with `?`; (R3) every value read by the verifier (f commitment, '
        'evaluations at x3, pi) flows into the returned guard; (R4) commitment identity compares piece counts (no zip-truncated equality); (R5) point sets are '
        'indexed by position, never by a global point index (repaired defect). Completeness/soundness of the algebra is not decided.')
    nrm = c01.make_norm()
    ck.rule('C14.R1', 'three-way schedule duality of the multi-opening')
    trees = {}
    for name, root, vocab in (('multi_open', OPEN, c01.make_vocab()), ('multi_prepare', PREP, c01.make_vocab()), ('in-circuit multi_prepare', INC, c20.incircuit_vocab())):
        ex = sched.Extractor(w, vocab)
        t = ex.root(root)
        opq = schednorm.find_opaque(t)
        ck.record('C14.R1', f'{name}:total', not opq and ex.ops_seen >= 6, f'{ex.ops_seen} operation sites', f'{name}: opaque constructs / too few operations: {opq[:2]} ({ex.ops_seen} ops)')
        trees[name] = nrm.norm(t)
    d = schednorm.compare(schednorm.dualize(trees['multi_open']), trees['multi_prepare'], '', 'multi_open', 'multi_prepare')
    ck.record('C14.R1', 'multi_open~multi_prepare', d is None, 'dual', f'prover and verifier multi-opening schedules differ: {d}')
    d = schednorm.compare(trees['in-circuit multi_prepare'], trees['multi_prepare'], '', 'in-circuit', 'off-circuit')
    ck.record('C14.R1', 'incircuit~multi_prepare', d is None, 'in-circuit replays the off-circuit schedule', f'in-circuit and off-circuit multi_prepare differ: {d}')
    # ---------------------------------------------------------------- R2
    ck.rule('C14.R2', 'duplicate-query refusal: construct_intermediate_sets (both copies) returns Err under a `contains(point_idx)` test; callers use `?`')
    for cis in (CIS, CIS_IN):
        f = w.fn(cis)
        ok = False
        for n in walk(f['body']):
            if n.get('k') == 'if' and any(c.get('m') == 'contains' for c in hirq.calls(n['c'])):
                if any(x.get('k') == 'ret' and sched.tail_is_err(x.get('e', {})) for x in walk(n['a'])):
                    ok = True
        ck.record('C14.R2', f'{short(cis)}:refuses-duplicates', ok, 'return Err(..) under contains(point_idx)',
                  f'{cis} no longer refuses a repeated (commitment, point) query', hirq.fn_loc(f))
    for caller, cis in ((OPEN, CIS), (PREP, CIS), (INC, CIS_IN)):
        f = w.fn(caller)
        tried = any(n.get('k') == 'try' and any(callee(c) == cis for c in hirq.calls(n['e'])) for n in walk(f['body']))
        unwrapped = any(n.get('k') == 'mcall' and n.get('m') in ('unwrap', 'expect', 'unwrap_or_default') and any(callee(c) == cis for c in hirq.calls(n['recv'])) for n in walk(f['body']))
        ck.record('C14.R2', f'{short(caller)}:propagates', tried and not unwrapped, 'construct_intermediate_sets(..)? propagated',
                  f'{caller} does not propagate the duplicate-query error of construct_intermediate_sets', hirq.fn_loc(f))
    # ---------------------------------------------------------------- R3
    ck.rule('C14.R3', 'every value the verifier reads in multi_prepare (off-circuit and in-circuit) is bound to a local that is used afterwards')
    for root in (PREP, INC):
        f = w.fn(root)
        used_all = hirq.locals_used(f['body'])
        n_reads = 0
        for n in walk(f['body']):
            if n.get('k') == 'let' and 'init' in n:
                reads = [c for c in hirq.calls(n['init']) if c.get('m') in ('read', 'read_point', 'read_scalar') or (callee(c) or '').endswith('read_n')]
                if not reads:
                    continue
                n_reads += 1
                for b in pat_bindings(n['pat']):
                    # used = referenced anywhere outside its own let
                    refs = sum(1 for x in walk(f['body']) if x.get('k') == 'local' and x['i'] == b['i'])
                    ck.record('C14.R3', f'{short(root)}:{b["n"]}:used', refs > 0 and not b['n'].startswith('_'), 'read value is used',
                              f'{root}: value `{b["n"]}` read from the proof is never used: the opening is not bound to it', hirq.fn_loc(f, n))
        ck.floor('C14.R3', f'{short(root)} reads bound', n_reads, 2)


def r4_identity(ck, w):
    from ..engines import ziplint
    from .. import tables
    ck.rule('C14.R4', 'commitment identity is exact: equality tests in proofs/src/poly that run over `zip` (CommitmentReference::eq compares the pieces of chopped '
                      'commitments pairwise) also compare the lengths; otherwise a chopped commitment equals every extension of itself, is merged with it by '
                      'construct_intermediate_sets and reported as a duplicate query (or its last piece is never bound)')
    ziplint.check(ck, w, 'C14.R4', ['proofs'], lambda file: file.startswith('proofs/src/poly/'), tables.ZIP_EQ_OK, 0)
    f = w.fn('<midnight_proofs::poly::query::CommitmentReference as core::cmp::PartialEq>::eq', required=False)
    if f is None:
        ck.bad('C14.R4', 'CommitmentReference::eq:anchor', 'CommitmentReference::eq not found (anchor)')
        return
    from ..core import walk
    lens = [n for n in walk(f['body']) if n.get('k') == 'mcall' and n.get('m') == 'len']
    ck.record('C14.R4', 'CommitmentReference::eq:compares-lengths', len(lens) >= 2, 'the piece lists are compared by length',
              'CommitmentReference::eq no longer compares the number of pieces of two chopped commitments', None)


def r5_point_domains(ck, w):
    """two index domains of construct_intermediate_sets must not be mixed: global point indices vs positions inside a point set"""
    from ..core import walk, peel, expr_str
    ck.rule('C14.R5', 'index domains of the intermediate sets: `point_sets[set]` is a list indexed by POSITION inside the set, `CommitmentData::point_indices` holds '
                      'GLOBAL point indices (order of first appearance in the query list).  No `point_sets[..][i]` may take its inner index from point_indices: '
                      'for a chopped commitment queried at any point but the first distinct one this indexes a one-element set out of bounds (verifier panic on an '
                      'honest proof).')
    n = 0
    for f in w.all_fns(['proofs']):
        if not f['file'].startswith('proofs/src/poly/kzg/') or '::tests' in f['_nid']:
            continue
        for x in walk(f['body']):
            if x.get('k') != 'index':
                continue
            base = peel(x['e'])
            if base.get('k') == 'index' and 'point_sets' in expr_str(base['e']):
                n += 1
                mixes = any(y.get('k') == 'field' and y.get('n') == 'point_indices' for y in walk(x['i']))
                ck.record('C14.R5', f'{f["_nid"]}|{expr_str(x)[:60]}', not mixes, 'inner index is a position inside the set',
                          f'{f["_nid"]}: `{expr_str(x)[:80]}` indexes a point set (positions) with a global point index', hirq.fn_loc(f, x))
    ck.floor('C14.R5', 'point-set element accesses', n, 1)


def r6_len_minus_one(ck, w):
    """no unguarded `len() - 1` on the multi-opening path"""
    from ..core import walk, peel, expr_str
    ck.rule('C14.R6', 'in every function reachable from multi_open / multi_prepare, `x.len() - 1` (usize) is guarded by a length / emptiness test of x in the same '
                      'function, or computed with saturating / checked arithmetic: a polynomial opened at more points than it has coefficients leaves an EMPTY '
                      'quotient dividend, and `kate_division` computed `a.len() - 1` on it (overflow panic in the prover for a valid query set)')
    cg = w.callgraph()
    roots = [norm('<midnight_proofs::poly::kzg::KZGCommitmentScheme as midnight_proofs::poly::commitment::PolynomialCommitmentScheme>::' + m) for m in ('multi_open', 'multi_prepare')]
    reach_ = cg.reachable(roots)
    owners = {x.split('::{closure')[0] for x in reach_}
    n_fn, n_sites = 0, 0
    for f in w.all_fns(['proofs']):
        if f['_nid'] not in owners or '::tests' in f['_nid']:
            continue
        n_fn += 1
        tested = set()
        for n in walk(f['body']):
            if n.get('k') == 'bin' and n.get('op') in ('<', '<=', '>', '>=', '==', '!='):
                for m in hirq.calls(n):
                    if m.get('m') in ('len', 'is_empty'):
                        tested.add(expr_str(peel(m['recv']))[:40])
            if n.get('k') == 'mcall' and n.get('m') == 'is_empty':
                tested.add(expr_str(peel(n['recv']))[:40])
        for n in walk(f['body']):
            if n.get('k') == 'bin' and n.get('op') == '-' and peel(n['b']).get('v') == 'i:1':
                a = peel(n['a'])
                if a.get('k') == 'mcall' and a.get('m') == 'len':
                    n_sites += 1
                    r = expr_str(peel(a['recv']))[:40]
                    ck.record('C14.R6', f'{f["_nid"]}|{expr_str(n)[:40]}', r in tested, f'`{r}` is length-tested in the same function',
                              f'{f["_nid"]}: `{expr_str(n)[:50]}` underflows when `{r}` is empty and nothing in the function tests its length', hirq.fn_loc(f, n))
    ck.floor('C14.R6', 'functions on the multi-opening path', n_fn, 50)
    ck.count('C14.R6 len-1 sites', n_sites)


def r7_chopped_single_point(ck, w):
    """the single-point requirement of chopped commitments is enforced in release builds"""
    from ..core import walk, peel
    from ..engines import taint
    ck.rule('C14.R7', 'multi_prepare recombines the pieces of a chopped commitment with powers of ONE evaluation point; that the commitment is queried at a single '
                      'point must be enforced by an escaping conditional that exists in release builds (not a debug_assert!): otherwise the first point of the set '
                      'is used for every query of that commitment and a false evaluation claim at the other point verifies')
    f = w.fn('<midnight_proofs::poly::kzg::KZGCommitmentScheme as midnight_proofs::poly::commitment::PolynomialCommitmentScheme>::multi_prepare', required=False)
    if f is None:
        ck.bad('C14.R7', 'multi_prepare:anchor', 'multi_prepare not found (anchor)')
        return
    ok = False
    for n in walk(f['body']):
        if n.get('k') != 'if' or not any(m.get('m') == 'is_chopped' for m in hirq.calls(n['c'])):
            continue
        for g in walk(n['a']):
            if g.get('k') == 'if' and taint.diverges(g['a']) and not any('debug_assert' in m_ for m_ in (g.get('x') or [])):
                if any(y.get('k') == 'field' and y.get('n') == 'point_indices' for y in walk(g['c'])) and any(m.get('m') == 'len' for m in hirq.calls(g['c'])):
                    ok = True
    ck.record('C14.R7', 'multi_prepare:chopped-single-point', ok, 'an escaping conditional (release-visible) checks point_indices.len()',
              'multi_prepare guards the single-point requirement of chopped commitments with a debug_assert! only: in release builds a chopped commitment queried at '
              'two points is evaluated at the first one for both queries', hirq.fn_loc(f))
