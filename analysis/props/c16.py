"""C16 — decoding and verifying untrusted bytes is total (structural clauses: TAINT, GUARD, CHECKED)."""
from ..core import pat_bindings, norm, callee, walk, mir_callee, AnchorMissing, short
from ..engines import mustcall as mc, reach, hirq, panics, taint
from .. import tables

ENTRY = [
    'midnight_zk_stdlib::MidnightVK::read',
    'midnight_zk_stdlib::ZkStdLibArch::read',
    'midnight_zk_stdlib::ZkStdLibArch::read_from_serialized_vk',
    'midnight_proofs::plonk::VerifyingKey::read',
    'midnight_proofs::plonk::VerifyingKey::read_from_cs',
    'midnight_proofs::plonk::VerifyingKey::from_bytes',
    'midnight_proofs::poly::kzg::params::ParamsVerifierKZG::read',
    'midnight_zk_stdlib::verify',
    'midnight_zk_stdlib::batch_verify',
    'midnight_zk_stdlib::utils::plonk_api::BlstPLONK::verify',
    'midnight_proofs::plonk::verifier::prepare',
    'midnight_aggregator::light_aggregator::LightAggregator::verify',
    'midnight_zkir::zkir::ZkirRelation::read',
    'midnight_zkir::zkir::ZkirRelation::from_instructions',
]
ZKIR_ENTRY = [
    '<midnight_zkir::zkir::ZkirRelation as midnight_zk_stdlib::Relation>::read_relation',
    '<midnight_zkir::zkir::ZkirRelation as midnight_zk_stdlib::Relation>::circuit',
    '<midnight_zkir::zkir::ZkirRelation as midnight_zk_stdlib::Relation>::format_instance',
    '<midnight_zkir::zkir::ZkirRelation as midnight_zk_stdlib::Relation>::used_chips',
    'midnight_zkir::zkir::ZkirRelation::public_inputs',
]


def decoded_adts(w):
    out = set()
    for i in w.impls():
        t = norm(i.get('trait') or '')
        if t in ('bincode::de::Decode', 'serde_core::de::Deserialize') :
            s = norm(i['self'])
            if '_::<impl' in s or s.startswith('<'):
                continue
            out.add(s)
    return out


def field_sources(w, adts):
    src = {}
    for a in w.adts():
        nid = norm(a['id'])
        if nid not in adts or a['kind'] != 'Struct':
            continue
        for fd in a['variants'][0]['fields']:
            if fd['ty'] in taint.INT_TYPES:
                src[(nid, fd['name'])] = {taint.L(f'{short(nid)}.{fd["name"]}')}
    return src


def decoders_of(w, fns, adts):
    out = {}
    for nid in fns:
        f = w.fn(nid)
        for n in hirq.calls(f['body']):
            c = callee(n) or ''
            if c.startswith(('bincode::', 'serde_json::')) and ('decode' in c or 'from_' in c):
                t = n.get('t', '') or ''
                for a in adts:
                    if a + ',' in t or a + '>' in t or t == a:
                        out.setdefault(a, [])
                        if nid not in out[a]:
                            out[a].append(nid)
    return out


def proof_read_source(n, c):
    """`transcript.read::<u32>()` and friends: an integer chosen by the prover."""
    if (c.endswith('Transcript::read') or c.endswith('Transcript>::read')) and n.get('t', '').startswith('core::result::Result<u'):
        return {taint.L('integer read from proof')}
    return None


def run_taint(ck, w, roots, rule, triage, stop=None, skip_kinds=()):
    for r in roots:
        w.fn(r)
    par = reach.closure(w, roots, stop or (lambda nid: False))
    # midnight_curves is fixed-width limb arithmetic and fixed-size buffers: its decoders are covered by the CHECKED rules
    # (C10/C11/C16.R3); as taint targets its functions are treated like external leaves (result tainted iff an argument is).
    fns = sorted({reach.parent_fn(x) for x in par if reach.parent_fn(x) in w.fn_index()
                  and not reach.parent_fn(x).startswith(('midnight_curves::', '<midnight_curves::'))})
    adts = decoded_adts(w)
    fsrc = field_sources(w, adts)
    ta = taint.TaintAnalysis(w, fns, field_sources=fsrc, decoded_adts=adts, extra_call_sources=proof_read_source)
    found = ta.run()
    # "decoder validates": a decoded integer field counts as checked when every function that decodes its ADT from bytes
    # tests that field (escaping conditional) on the fall-through path before returning the value.
    decs = decoders_of(w, fns, adts)
    validated = {}
    for (adt, fld), labs in fsrc.items():
        ds = decs.get(adt, [])
        name = next(iter(labs))[0]
        if ds and all(name in ta.fn_checked.get(d, ()) for d in ds):
            validated[(adt, fld)] = ds
    if validated:
        fsrc2 = {k: ({(l[0], l[1], True) for l in v} if k in validated else v) for k, v in fsrc.items()}
        ta = taint.TaintAnalysis(w, fns, field_sources=fsrc2, decoded_adts=adts, extra_call_sources=proof_read_source)
        found = ta.run()
    for (adt, fld), labs in sorted(fsrc.items()):
        if (adt, fld) in validated:
            ck.ok(rule, f'decoded-field:{short(adt)}.{fld}', f'validated by every decoder of the type: {[short(d) for d in validated[(adt, fld)]]}')
        else:
            ck.ok(rule, f'decoded-field:{short(adt)}.{fld}', f'not validated at decode time (decoders: {[short(d) for d in decs.get(adt, [])]}): tracked as an untrusted source', nontrivial=False)
    ck.count(f'{rule}:functions analysed', len(fns))
    ck.count(f'{rule}:decoded ADTs', len(adts))
    ck.count(f'{rule}:fixpoint rounds', ta.stats['rounds'])
    ck.count(f'{rule}:tainted fields', sum(1 for v in ta.field_taint.values() if v))
    ck.count(f'{rule}:tainted params', sum(1 for v in ta.param_taint.values() if v))
    used = set()
    found = [fd for fd in found if fd.kind not in skip_kinds]
    for fd in sorted(found, key=lambda x: x.key()):
        key = fd.key()
        f = w.fn(fd.fn)
        loc = f"{f['file']}:{fd.line}"
        labs = ', '.join(sorted(taint.names(fd.labels)))
        alt = key.replace('|assert-on-checked|', '|assert|') if '|assert-on-checked|' in key else key.replace('|assert|', '|assert-on-checked|')
        if key in triage or alt in triage:
            used.add(key)
            ck.ok(rule, key, 'triaged: ' + (triage.get(key) or triage.get(alt)), loc)
        else:
            cg = w.callgraph()
            path = ' -> '.join(short(p) for p in cg.path_to(par, fd.fn)) if fd.fn in par else short(fd.fn)
            ck.bad(rule, key, f'untrusted value [{labs}] reaches {fd.kind} `{fd.detail}` in {fd.fn} without a dominating check '
                   f'(reachable: {path})', loc)
    ck.count(f'{rule}:sink findings', len(found))
    if not found:
        ck.ok(rule, 'no-unsanitised-flow', f'no untrusted integer reaches a sink in {len(fns)} functions')
    return ta, fns


def run(ck):
    w = ck.world()
    ck.explanation = (
        'Static totality rules for the decoding/verification entry points: (R1) TAINT — integers decoded from bytes, integer fields '
        'of bincode/serde-decoded types and integers read from a proof are tracked through HIR (parameters, returns, struct fields; '
        'global fixpoint) to panic/allocation sinks (indexing, slicing, vec!/with_capacity/resize, shifts, divisions, assert!/unwrap); '
        'a sink is accepted only under a dominating conditional on the same value with an escaping arm; (R2) GUARD — the checks the '
        'argument relies on (version byte, k<=S, architecture version, public-input count) dominate what they protect; (R3) CHECKED '
        '(incl. the extended-domain bound computed with the same ceiling-log as EvaluationDomain::new asserts); (R3) CHECKED — per-format point/scalar decoders reach their validators and never unwrap; (R4) ZKIR arity is validated by the only constructor. '
        'Termination time and third-party decoder memory are not decided.')
    ck.rule('C16.R1', 'TAINT: no untrusted integer (decoded from bytes / decoded struct field / read from proof) reaches an index, slice, '
                      'allocation size, shift, division, assert! or unwrap without a dominating conditional on it that has an escaping arm')
    ta, fns = run_taint(ck, w, ENTRY, 'C16.R1', tables.C16_TAINT_TRIAGE)
    ck.floor('C16.R1', 'functions analysed', len(fns), 400)
    r2_guards(ck, w)
    r3_checked(ck, w)
    r5_unchecked(ck, w)
    r6_bincode_limits(ck, w)
    from . import c11
    c11.r7_uncompressed_form(ck, w, rule='C16.R7')


def switch_mentions(b, i, blk, want_callee=None, want_field=None, want_const=None):
    on = blk['t']['on']
    l = on if isinstance(on, int) else (on.get('p') if isinstance(on, dict) else None)
    if l is None:
        return False
    locs, cal, flds, consts = mc.local_def_chain(b, l, depth=8)
    if want_callee and not any(want_callee(c or '') for c in cal):
        return False
    if want_field and want_field not in flds:
        return False
    if want_const and not any(want_const(c) for c in consts):
        return False
    return True


def r2_guards(ck, w):
    ck.rule('C16.R2', 'GUARD: (a) read_from_cs rejects a wrong version byte and k > S before EvaluationDomain::new; '
                      '(b) ZkStdLibArch::read matches the version word before bincode decoding; (c) MidnightVK::read decodes through '
                      'ZkStdLibArch::read and VerifyingKey::read_from_cs (no unchecked twin)')
    b = w.mir_body('midnight_proofs::plonk::VerifyingKey::read_from_cs')
    dom = mc.call_blocks(b, lambda c, t: c.endswith('EvaluationDomain::new'))
    if not dom:
        ck.bad('C16.R2', 'read_from_cs:anchor', 'EvaluationDomain::new call not found (anchor)', reach.loc(b))
    else:
        tgt = dom[0][0]
        g_ver = mc.guard_between(b, lambda i, blk: switch_mentions(b, i, blk, want_const=lambda c: 'VERSION' in c or c.startswith('const 3') or '0x03' in c) , tgt)
        g_any = mc.guard_between(b, lambda i, blk: True, tgt)
        if len(g_any) < 2 and 'midnight_proofs::plonk::VerifyingKey::read_from_cs' in getattr(w, 'inlined', {}).get('proofs', {}):
            # guards moved into a NEW helper (expanded in the HIR view, not in MIR): count the escaping conditionals that precede the call in the expanded HIR
            fh = w.fn('midnight_proofs::plonk::VerifyingKey::read_from_cs')
            seen = []
            for x in walk(fh['body']):
                if x.get('k') in ('call', 'mcall') and (callee(x) or '').endswith('EvaluationDomain::new'):
                    break
                if x.get('k') == 'if' and taint.diverges(x['a']):
                    seen.append(x)
            g_any = seen
        ck.record('C16.R2', 'read_from_cs:version-and-k', len(g_any) >= 2,
                  f'{len(g_any)} escaping conditionals dominate EvaluationDomain::new (version byte, k <= S)',
                  f'read_from_cs: only {len(g_any)} escaping conditional(s) dominate EvaluationDomain::new; the version-byte test and the k <= S test are expected',
                  reach.loc(b))
    # HIR refinement: one guard mentions VERSION, one mentions S
    f = w.fn('midnight_proofs::plonk::VerifyingKey::read_from_cs')
    conds = [n for n in walk(f['body']) if n.get('k') == 'if' and taint.diverges(n['a'])]
    has_ver = any(any(x.get('k') == 'path' and (x.get('p') or '').endswith('::VERSION') for x in walk(c['c'])) for c in conds)
    has_s = any(any(x.get('k') == 'path' and (x.get('p') or '').endswith('PrimeField::S') for x in walk(c['c'])) for c in conds)
    ck.record('C16.R2', 'read_from_cs:version-guard', has_ver, 'escaping conditional on VERSION', 'read_from_cs no longer rejects an unexpected version byte', hirq.fn_loc(f))
    ck.record('C16.R2', 'read_from_cs:k-guard', has_s, 'escaping conditional on F::S', 'read_from_cs no longer rejects k > S before building the evaluation domain', hirq.fn_loc(f))
    # the k-guard must bound the *extended* domain: an escaping conditional whose condition depends on both F::S and cs.degree()
    deps_ok = False
    for c in conds:
        deps = hir_deps(f['body'], c['c'])
        if any(d.endswith('PrimeField::S') for d in deps) and any(d.endswith('ConstraintSystem::degree') for d in deps):
            deps_ok = True
    ck.record('C16.R2', 'read_from_cs:extended-k-guard', deps_ok, 'an escaping conditional depends on both F::S and cs.degree() (extended domain bound)',
              'read_from_cs checks k <= S only: EvaluationDomain::new asserts extended_k <= S, which k <= S does not imply '
              '(a key with k close to S reaches the assert)', hirq.fn_loc(f))
    # the guard must compute the extended k exactly as EvaluationDomain::new (which asserts it) does: same rounding direction of the logarithm
    from ..engines import rounding
    dom = w.fn('midnight_proofs::poly::domain::EvaluationDomain::new')
    forms = {}
    for who, fn_ in (('read_from_cs', f), ('EvaluationDomain::new', dom)):
        cands = [(i, nm) for i, nm, _ in rounding.compared_with(fn_, '::S')]
        best = ('unknown', 'no local is compared with F::S')
        for i, nm in cands:
            fm = rounding.log_form(fn_, i)
            if fm[0] != 'unknown':
                best = (fm[0], f'`{nm}`: {fm[1]}')
                break
        forms[who] = best
    a, b = forms['read_from_cs'], forms['EvaluationDomain::new']
    ck.record('C16.R2', 'read_from_cs:extended-k-rounding', a[0].startswith('ceil') and b[0].startswith('ceil'),
              f'guard and asserted computation both round the logarithm up ({a[1]} / {b[1]})',
              f'VerifyingKey::read_from_cs bounds the extended domain with a {a[0]} computation ({a[1]}) while EvaluationDomain::new asserts a {b[0]} one ({b[1]}): '
              f'the smallest extended_k with 2^extended_k >= n*(degree-1) is a CEILING; a floor (or unrecognised) form lets a k through that the assert rejects '
              f'whenever degree-1 is not a power of two, i.e. decoding panics', hirq.fn_loc(f))
    # (b)
    g = w.fn('midnight_zk_stdlib::ZkStdLibArch::read')
    okb = False
    for n in walk(g['body']):
        if n.get('k') == 'match' and n.get('src') == 'match':
            lit_arms = [a for a in n['arms'] if taint._is_lit_pat(a['pat'])]
            other = [a for a in n['arms'] if not taint._is_lit_pat(a['pat'])]
            dec_in_lit = any(any('decode' in (callee(c) or '') for c in hirq.calls(a['body'])) for a in lit_arms)
            dec_in_other = any(any('decode' in (callee(c) or '') for c in hirq.calls(a['body'])) for a in other)
            if dec_in_lit and not dec_in_other and other:
                okb = True
    ck.record('C16.R2', 'ZkStdLibArch::read:version-match', okb, 'bincode decoding only under a literal version arm; other versions → Err',
              'ZkStdLibArch::read decodes without matching the version word', hirq.fn_loc(g))
    # (c)
    mv = w.mir_body('midnight_zk_stdlib::MidnightVK::read')
    ok1, _ = mc.must_call(mv, lambda c, t: c == 'midnight_zk_stdlib::ZkStdLibArch::read')
    ok2, _ = mc.must_call(mv, lambda c, t: c == 'midnight_proofs::plonk::VerifyingKey::read_from_cs')
    ck.record('C16.R2', 'MidnightVK::read:checked-parts', ok1 and ok2, 'decodes via ZkStdLibArch::read and VerifyingKey::read_from_cs',
              'MidnightVK::read bypasses the checked decoders of its parts', reach.loc(mv))


def r5_unchecked(ck, w):
    from . import c11
    c11.r5_unchecked(ck, w, rule='C16.R5', crates=None, floor=30)


def r3_checked(ck, w):
    ck.rule('C16.R3', 'CHECKED: ProcessedSerdeObject::read for curve points reaches from_compressed→(is_on_curve, is_torsion_free) in Processed format, '
                      'the checked SerdeObject::read_raw in RawBytes format and the unchecked twin only under RawBytesUnchecked; failures become Err')
    impls = [f for k, v in w.impl_index().items() if k.endswith('helpers::ProcessedSerdeObject::read') for f in v]
    ck.floor('C16.R3', 'ProcessedSerdeObject::read impls', len(impls), 1)
    cg = w.callgraph()
    for nid in sorted(impls):
        b = w.mir_body(nid)
        par = cg.reachable([nid])
        need = {'is_on_curve': lambda x: x.endswith('::is_on_curve'), 'is_torsion_free': lambda x: x.endswith('::is_torsion_free')}
        for name, p in need.items():
            ck.record('C16.R3', f'{short(nid)}:{name}', any(p(x) for x in par), f'reaches {name}',
                      f'{nid} no longer reaches {name}', reach.loc(b))
        own = [x for x in par if x == nid or x.startswith(nid + '::{closure')]
        unwraps = [(x, s) for x in own for s in panics.sites(w.mir_body(x)) if s['kind'] in ('unwrap', 'panic')]
        ck.record('C16.R3', f'{short(nid)}:no-unwrap', not unwraps, 'no unwrap/panic in the decoder',
                  f'{nid} unwraps or panics on a decoding result: {[(short(x), s["detail"]) for x, s in unwraps]}', reach.loc(b))
        # format dispatch: the unchecked decoder is only reachable under the RawBytesUnchecked arm
        f = w.fn(nid)
        ok = None
        for n in walk(f['body']):
            if n.get('k') == 'match' and 'SerdeFormat' in (n.get('st') or ''):
                ok = True
                for a in n['arms']:
                    pats = taint_pat_names(a['pat'])
                    cal = {callee(c) or '' for c in hirq.calls(a['body'])}
                    unchecked = any(c.endswith('_unchecked') for c in cal)
                    if unchecked and pats != {'RawBytesUnchecked'}:
                        ok = False
        if ok is None:
            ck.bad('C16.R3', f'{short(nid)}:format-dispatch:anchor', 'no match on SerdeFormat found (anchor)', hirq.fn_loc(f))
        else:
            ck.record('C16.R3', f'{short(nid)}:format-dispatch', ok, 'unchecked decoder only under RawBytesUnchecked',
                      f'{nid}: an unchecked decoder is used for a checked format', hirq.fn_loc(f))


def hir_deps(body, expr, depth=6):
    """paths and callees that `expr` depends on, following local initialisers and assignments (HIR backward slice)"""
    from ..core import pat_bindings
    inits = {}
    for n in walk(body):
        if n.get('k') in ('let', 'letx') and 'init' in n:
            for b in pat_bindings(n['pat']):
                inits.setdefault(b['i'], []).append(n['init'])
        if n.get('k') in ('assign', 'assignop'):
            r = hirq.recv_root(n['lhs'])
            if r.get('k') == 'local':
                inits.setdefault(r['i'], []).append(n['rhs'])
        if n.get('k') in ('loop',):
            pass
    out, seen, todo = set(), set(), [(expr, 0)]
    while todo:
        e, d = todo.pop()
        for x in walk(e):
            if x.get('k') == 'path':
                out.add(norm(x.get('p') or ''))
            elif x.get('k') in ('call', 'mcall') and 'f' in x:
                out.add(callee(x))
            elif x.get('k') == 'local' and x['i'] not in seen and d < depth:
                seen.add(x['i'])
                for i in inits.get(x['i'], []):
                    todo.append((i, d + 1))
    # loops whose condition mentions a dependency local: the condition expression is a dependency as well
    for n in walk(body):
        if n.get('k') == 'loop':
            used = hirq.locals_used(n['body'])
            if used & seen:
                for x in walk(n['body']):
                    if x.get('k') == 'path':
                        out.add(norm(x.get('p') or ''))
                    elif x.get('k') in ('call', 'mcall') and 'f' in x:
                        out.add(callee(x))
                    elif x.get('k') == 'local' and x['i'] not in seen:
                        seen.add(x['i'])
                        for i in inits.get(x['i'], []):
                            for y in walk(i):
                                if y.get('k') in ('call', 'mcall') and 'f' in y:
                                    out.add(callee(y))
                                elif y.get('k') == 'path':
                                    out.add(norm(y.get('p') or ''))
    return out


def taint_pat_names(p):
    out = set()
    if p.get('k') == 'path':
        out.add((p.get('p') or '').rsplit('::', 1)[-1])
    for s in p.get('subs', []):
        out |= taint_pat_names(s)
    return out


def r6_bincode_limits(ck, w):
    """bincode entry points that decode a growable collection bound what a length prefix may claim"""
    ck.rule('C16.R6', 'bincode entry points (decode_from_std_read / decode_from_slice / decode_from_reader) in the workspace: when the decoded type contains a growable '
                      'collection (its Decode impl reaches the Vec / String / map decoders, which call with_capacity on the announced length) the configuration '
                      'handed to the decoder carries `with_limit`; a bare `config::standard()` lets a 9-byte input announce 2^64 - 1 elements (capacity overflow '
                      'panic, or an allocation proportional to an unchecked length field)')
    cg = w.callgraph()
    n = 0
    for f in w.all_fns(['zkir', 'zk_stdlib', 'proofs', 'circuits', 'aggregator']):
        if '::tests' in f['_nid'] or '/tests' in f['file']:
            continue
        for c in hirq.calls(f['body']):
            cal = callee(c) or ''
            if not (cal.startswith('bincode::') and 'decode_from' in cal):
                continue
            n += 1
            t = c.get('t') or ''
            ty = t[t.find('Result<') + 7:].split(',')[0].strip() if 'Result<' in t else ''
            root = f'<{ty} as bincode::de::Decode>::decode'
            reach_ = cg.reachable([norm(root)]) if ty else set()
            growable = any('Decode for alloc::vec::Vec' in x or 'Decode for alloc::string::String' in x or 'Decode for std::collections' in x or
                           'Decode for alloc::collections' in x for x in reach_) or not reach_
            cfg = c.get('args', [None, None])[-1]
            limited = cfg is not None and any(m.get('m') == 'with_limit' for m in hirq.calls(cfg))
            if cfg is not None and not limited:
                # the configuration may be bound to a local first
                for x in walk(cfg):
                    if x.get('k') == 'local':
                        for l in walk(f['body']):
                            if l.get('k') in ('let', 'letx') and 'init' in l and any(b['i'] == x['i'] for b in pat_bindings(l['pat'])):
                                limited = limited or any(m.get('m') == 'with_limit' for m in hirq.calls(l['init']))
            ck.record('C16.R6', f'{f["_nid"]}|{short(cal)}', limited or not growable,
                      'decodes a fixed-size type' if not growable else 'configuration carries with_limit',
                      f'{f["_nid"]} decodes `{ty}` (contains a growable collection) from untrusted bytes with an unlimited bincode configuration: an announced length '
                      f'is handed to Vec::with_capacity unchecked', hirq.fn_loc(f, c))
    ck.floor('C16.R6', 'bincode entry points', n, 2)
