"""C01 — honest proofs verify: Fiat–Shamir schedule duality prover ↔ verifier ↔ golden schedule, for symbolic configurations."""
from ..core import norm, short, AnchorMissing
from ..engines import sched, schednorm, hirq
from .. import tables

T = 'midnight_proofs::transcript::'
P = 'midnight_proofs::plonk::'
PROVER = P + 'prover::create_proof'
VERIFIER = P + 'verifier::prepare'


def carrier(t, f, bound):
    if bound:
        return t.strip().startswith(T + 'Transcript') or (' + ' + T + 'Transcript') in t
    return t.startswith(T + 'CircuitTranscript')


def item(idx):
    def g(n):
        ga = n.get('ga') or []
        return ga[idx] if len(ga) > idx else n.get('t', '?')
    return g


PRIMS = {
    T + 'Transcript::common': ('common', item(1)),
    T + 'Transcript::write': ('write', item(1)),
    T + 'Transcript::read': ('read', item(1)),
    T + 'Transcript::squeeze_challenge': ('squeeze', item(1)),
    T + 'read_n': ('read_n', item(0)),
}

ROOTS = {
    (PROVER, 'circuits'): ('coll', 'PROOFS', None),
    (PROVER, 'instances'): ('coll', 'PROOFS', ('coll', 'INST_COLS', ('coll', 'INST_VALUES', None))),
    (PROVER, 'nb_committed_instances'): ('len', 'COMMITTED_COLS'),
    (VERIFIER, 'committed_instances'): ('coll', 'PROOFS', ('coll', 'COMMITTED_COLS', None)),
    (VERIFIER, 'instances'): ('coll', 'PROOFS', ('coll', 'PLAIN_COLS', ('coll', 'INST_VALUES', None))),
}


def classify_item(t):
    t = t.strip().lstrip('&')
    if t in ('S', 'P', 'U32') or t.startswith('T:'):
        return t
    if t in ('u32', 'u64', 'usize'):
        return 'U32'
    if t == 'F' or t.endswith('::Fr') or t.endswith('::Fq') or t.endswith('ScalarExt') or t.endswith('::Scalar') or t == 'C::Scalar':
        return 'S'
    if 'Commitment' in t or t in ('C',) or t.endswith('::G1') or t.endswith('G1Projective') or t.endswith('G1Affine') or t.endswith('::Curve') or t.endswith('CurveExt'):
        return 'P'
    return 'T:' + t


def make_vocab():
    return sched.Vocab('fiat-shamir', carrier, PRIMS, field_alias=tables.SCHED_FIELD_ALIAS, count_alias=tables.SCHED_COUNT_ALIAS,
                       root_params=ROOTS, passthrough=tables.SCHED_PASSTHROUGH)


def make_norm():
    return schednorm.Norm(classify_item, dom_equiv=tables.SCHED_DOM_EQUIV, concat={'INST_COLS': ('COMMITTED_COLS', 'PLAIN_COLS')})


def extract(w, root, vocab=None):
    ex = sched.Extractor(w, vocab or make_vocab())
    t = ex.root(root)
    return ex, t


def run(ck):
    w = ck.world()
    ck.explanation = (
        'Effect-schedule extraction over HIR with callee inlining and loop-domain (shape) inference: the complete Fiat–Shamir schedule of '
        'create_proof (compute_trace + finalise_proof + multi_open and all argument helpers) and of prepare (parse_trace + '
        'verify_algebraic_constraints + multi_prepare) is extracted as a tree of transcript operations nested in symbolic loops '
        '(PROOFS, committed/plain instance columns, phases, lookups, permutation sets, trashcans, query lists…), normalised '
        '(constant loops unrolled, filters, committed/plain prefix split) and compared: prover ≙ dual(verifier) ≙ golden schedule written from the '
        'protocol. Symbolic domains mean the comparison holds for every number of proofs / columns / arguments, which the one-proof test suite '
        'cannot reach. Numerical agreement of the committed values is not decided.')
    ck.rule('C01.R1', 'schedule extraction is total: no opaque node, no unclassified loop domain, operation-site floors')
    ck.rule('C01.R2', 'duality: normalised prover schedule with write→read equals the normalised verifier schedule')
    ck.rule('C01.R3', 'golden: both equal the schedule written from the protocol description (tables.GOLDEN_PLONK)')
    nrm = make_norm()
    trees = {}
    for name, root in (('prover', PROVER), ('verifier', VERIFIER)):
        ex, t = extract(w, root)
        op = schednorm.find_opaque(t)
        ck.record('C01.R1', f'{name}:total', not op, f'{ex.ops_seen} transcript operation sites, no opaque construct',
                  f'{name} schedule contains constructs the extractor cannot analyse (fail closed): {op[:3]}')
        ck.floor('C01.R1', f'{name} transcript operation sites', ex.ops_seen, 30)
        trees[name] = nrm.norm(t)
        ck.count(f'{name} normalised ops', schednorm.count_ops(trees[name]))
    pd = schednorm.dualize(trees['prover'])
    diff = schednorm.compare(pd, trees['verifier'], '', 'prover', 'verifier')
    ck.record('C01.R2', 'prover~verifier', diff is None, 'schedules are dual for symbolic PROOFS / columns / phases / arguments',
              f'Fiat–Shamir schedules of prover and verifier differ: {diff}')
    gold = nrm.norm(tables.golden_plonk())
    for name in ('prover', 'verifier'):
        t = schednorm.dualize(trees[name]) if name == 'prover' else trees[name]
        d = schednorm.compare(t, schednorm.dualize(gold), '', name, 'golden')
        ck.record('C01.R3', f'{name}~golden', d is None, 'equals the golden PLONK schedule', f'{name} schedule deviates from the golden schedule: {d}')
    r4_query_indexing(ck, w)
    r5_owned_commitments(ck, w)
    r6_full_table(ck, w)
    ck.notes.append('normalised verifier schedule:\n' + '\n'.join(sched.show(trees['verifier'], with_loc=False)))


def golden_rule(ck, w, rule, why):
    """the golden-schedule comparison of C01.R3, reported under another property whose behaviour depends on the ORDER of the Fiat–Shamir transcript"""
    ck.rule(rule, 'Fiat–Shamir order: the complete transcript schedule of the prover (create_proof … multi_open) and of the verifier (prepare … multi_prepare), extracted '
                  'with symbolic loop domains, equals the schedule written from the protocol description (tables.GOLDEN_PLONK): every prover message is absorbed before '
                  'the challenges that must depend on it.  ' + why)
    nrm = make_norm()
    gold = nrm.norm(tables.golden_plonk())
    for name, root in (('prover', PROVER), ('verifier', VERIFIER)):
        ex, t = extract(w, root)
        op = schednorm.find_opaque(t)
        if op:
            ck.bad(rule, f'{name}:total', f'{name} schedule contains constructs the extractor cannot analyse (fail closed): {op[:3]}')
            continue
        t = nrm.norm(t)
        t = schednorm.dualize(t) if name == 'prover' else t
        d = schednorm.compare(t, schednorm.dualize(gold), '', name, 'golden')
        ck.record(rule, f'{name}~golden', d is None, 'equals the golden PLONK schedule', f'{name} schedule deviates from the golden schedule: {d}')


def r4_query_indexing(ck, w):
    """Opening queries: evaluations are indexed per QUERY, commitments per COLUMN."""
    from ..core import walk, peel, pat_bindings, expr_str
    from ..engines import hirq
    ck.rule('C01.R4', 'opening-query construction in the verifier: inside every closure that iterates `cs.*_queries`, a vector of evaluations (element type: the '
                      'scalar field) is indexed by the position of the query in that list (the `enumerate` index), and a vector of commitments by '
                      '`column.index()`.  Evaluations are read one per query, so indexing them by column picks another query\'s evaluation as soon as a column '
                      'is queried twice or columns are queried out of order — honest proofs are then rejected.')
    f = w.fn('midnight_proofs::plonk::verifier::verify_algebraic_constraints')
    n_sites = 0
    fams = set()
    for n in walk(f['body']):
        if n.get('k') != 'mcall' or not any(peel(a).get('k') == 'closure' for a in n.get('args', [])):
            continue
        e, ms = peel(n['recv']), []
        while e.get('k') == 'mcall':
            ms.append(e['m'])
            e = peel(e['recv'])
        if not (e.get('k') == 'field' and e['n'].endswith('_queries')) or 'iter' not in ms:
            continue
        fam = e['n']
        for a in n['args']:
            a = peel(a)
            if a.get('k') != 'closure':
                continue
            binds = [b for p in a['params'] for b in pat_bindings(p)]
            enum_idx = {b['i'] for b in binds if b.get('t') == 'usize'} if 'enumerate' in ms else set()
            for x in walk(a['body']):
                if x.get('k') != 'index' or 'Range' in (x.get('ixt') or ''):
                    continue
                rt = (x.get('t') or '')
                by_column = any(m.get('m') == 'index' and 'Column' in (peel(m['recv']).get('t') or '') for m in hirq.calls(x['i']))
                by_enum = peel(x['i']).get('k') == 'local' and peel(x['i'])['i'] in enum_idx
                is_eval = rt == 'F'
                is_comm = 'Commitment' in rt
                if not (is_eval or is_comm):
                    continue
                n_sites += 1
                fams.add(fam)
                ok = (is_eval and by_enum and not by_column) or (is_comm and by_column)
                ck.record('C01.R4', f'{fam}|{expr_str(x["e"])[:40]}', ok,
                          'evaluation indexed by query position' if is_eval else 'commitment indexed by column',
                          f'verify_algebraic_constraints, {fam}: `{expr_str(x)[:70]}` indexes ' + ('an evaluation vector (one entry per query) by column index'
                          if is_eval else 'a commitment vector (one entry per column) by query position') + ': the opening query pairs a commitment with the '
                          'evaluation of a different query', hirq.fn_loc(f, x))
    ck.floor('C01.R4', 'indexed evaluation/commitment sites in per-query closures', n_sites, 6)
    ck.floor('C01.R4', 'query families covered', len(fams), 3)


def r5_owned_commitments(ck, w, rule='C01.R5'):
    """opening queries identify a commitment by its address"""
    from ..core import walk, callee, peel
    from ..engines import hirq, valflow
    ck.rule(rule, 'CommitmentReference::eq compares ADDRESSES (std::ptr::eq) and construct_intermediate_sets refuses two queries of one commitment at one point. '
                  'The opening queries that verify_algebraic_constraints builds for the committed instances must therefore point into storage owned by the '
                  'function, one allocation per proof — never into the caller\'s slices, which two proofs may share: an honest multi-proof whose proofs share a slice '
                  'of committed instances would be refused as a duplicated query.  Checked: the value indexed by `committed_instances[column.index()]` inside the '
                  'query construction is a local of the function (or of its closures), not the parameter.')
    f = w.fn('midnight_proofs::plonk::verifier::verify_algebraic_constraints', required=False)
    if f is None:
        ck.bad(rule, 'verify_algebraic_constraints:anchor', 'verify_algebraic_constraints not found (anchor)')
        return
    feat = any(p_.get('n') == 'committed_instances' for p_ in f.get('params', []))
    if not feat:
        ck.ok(rule, 'verify_algebraic_constraints:owned-committed-instances', 'built without committed instances: the function allocates the (empty) per-proof vectors itself')
        return
    pid = next(p_['i'] for p_ in f['params'] if p_.get('n') == 'committed_instances')
    # every `VerifierQuery::new*` / `CommitmentReference::OnePiece` reached by the parameter itself (not through an owned copy)
    owned = [x for x in walk(f['body'], into_closures=False) if x.get('k') == 'let' and x.get('pat', {}).get('n') == 'committed_instances']
    ok = False
    why = 'the parameter is never re-bound to an owned copy'
    if owned:
        init = owned[0].get('init', {})
        calls = [callee(c) or '' for c in hirq.calls(init)]
        copies = any(c.endswith(('::to_vec', '::to_owned', 'Clone::clone', '::cloned', '::collect')) for c in calls)
        uses_param = any(y.get('k') == 'local' and y.get('i') == pid for y in walk(init))
        # after the re-binding no use of the parameter remains
        later = False
        seen = False
        for x in walk(f['body']):
            if x is owned[0]:
                seen = True
                continue
            if seen and x.get('k') == 'local' and x.get('i') == pid and not any(x is y for y in walk(init)):
                later = True
        ok = copies and uses_param and not later
        why = f'copy: {copies}, from the parameter: {uses_param}, parameter used afterwards: {later}'
    ck.record(rule, 'verify_algebraic_constraints:owned-committed-instances', ok, 'queries point into a per-proof copy of the committed instances',
              f'verify_algebraic_constraints builds its opening queries from references into the caller\'s `committed_instances` ({why}): two proofs that share one slice '
              f'produce queries with equal addresses, which are refused as duplicated — an honest multi-proof does not verify', hirq.fn_loc(f))


def r6_full_table(ck, w, rule='C01.R6'):
    """a column that is full already needs no filling"""
    from ..core import walk, callee, peel
    from ..engines import hirq
    ck.rule(rule, 'assign_table calls fill_from_row with from_row = number of rows written; a table that fills the usable rows exactly gives from_row == '
                  'usable_rows.end, where nothing is left to fill.  The guard of fill_from_row in keygen::Assembly and in MockProver therefore does not test '
                  '`usable_rows.contains(&from_row)` (which refuses the end of the range): circuits whose lookup table has exactly 2^k - (blinding + 1) rows — the '
                  'size k_from_circuit computes — could not be keyed.')
    A = 'midnight_proofs::plonk::circuit::Assignment>::fill_from_row'
    for name, nid in (('keygen', '<midnight_proofs::plonk::keygen::Assembly as ' + A), ('mock', '<midnight_proofs::dev::MockProver as ' + A)):
        f = w.fn(nid, required=False)
        if f is None:
            ck.bad(rule, f'{name}:fill_from_row:anchor', f'{nid} not found (anchor)')
            continue
        fr = next((p_['i'] for p_ in f.get('params', []) if p_.get('n') == 'from_row'), None)
        if fr is None:
            fr = f['params'][2]['i'] if len(f.get('params', [])) > 2 and f['params'][2].get('k') == 'bind' else None
        bad = [c for c in hirq.calls(f['body']) if c.get('m') == 'contains' and any(x.get('k') == 'field' and x['n'] == 'usable_rows' for x in walk(c['recv']))
               and any(y.get('k') == 'local' and y.get('i') == fr for a in c.get('args', []) for y in walk(a))]
        ck.record(rule, f'{name}:fill_from_row:admits-full-column', not bad, 'from_row == usable_rows.end is accepted',
                  f'{nid} tests usable_rows.contains(&from_row): a table that fills the usable rows exactly (from_row == usable_rows.end) is refused although it fits',
                  hirq.fn_loc(f))
