"""C01 — honest proofs verify: Fiat–Shamir schedule duality prover ↔ verifier ↔ golden schedule, for symbolic configurations."""
from ..core import norm, short, AnchorMissing
from ..engines import sched, schednorm, hirq
from .. import tables

T = 'midnight_proofs::transcript::'
P = 'midnight_proofs::plonk::'
PROVER = P + 'prover::create_proof'
VERIFIER = P + 'verifier::prepare'


def carrier(t, f, bound):
    if bound:
        return t.strip().startswith(T + 'Transcript') or (' + ' + T + 'Transcript') in t
    return t.startswith(T + 'CircuitTranscript')


def item(idx):
    def g(n):
        ga = n.get('ga') or []
        return ga[idx] if len(ga) > idx else n.get('t', '?')
    return g


PRIMS = {
    T + 'Transcript::common': ('common', item(1)),
    T + 'Transcript::write': ('write', item(1)),
    T + 'Transcript::read': ('read', item(1)),
    T + 'Transcript::squeeze_challenge': ('squeeze', item(1)),
    T + 'read_n': ('read_n', item(0)),
}

ROOTS = {
    (PROVER, 'circuits'): ('coll', 'PROOFS', None),
    (PROVER, 'instances'): ('coll', 'PROOFS', ('coll', 'INST_COLS', ('coll', 'INST_VALUES', None))),
    (PROVER, 'nb_committed_instances'): ('len', 'COMMITTED_COLS'),
    (VERIFIER, 'committed_instances'): ('coll', 'PROOFS', ('coll', 'COMMITTED_COLS', None)),
    (VERIFIER, 'instances'): ('coll', 'PROOFS', ('coll', 'PLAIN_COLS', ('coll', 'INST_VALUES', None))),
}


def classify_item(t):
    t = t.strip().lstrip('&')
    if t in ('S', 'P', 'U32') or t.startswith('T:'):
        return t
    if t in ('u32', 'u64', 'usize'):
        return 'U32'
    if t == 'F' or t.endswith('::Fr') or t.endswith('::Fq') or t.endswith('ScalarExt') or t.endswith('::Scalar') or t == 'C::Scalar':
        return 'S'
    if 'Commitment' in t or t in ('C',) or t.endswith('::G1') or t.endswith('G1Projective') or t.endswith('G1Affine') or t.endswith('::Curve') or t.endswith('CurveExt'):
        return 'P'
    return 'T:' + t


def make_vocab():
    return sched.Vocab('fiat-shamir', carrier, PRIMS, field_alias=tables.SCHED_FIELD_ALIAS, count_alias=tables.SCHED_COUNT_ALIAS,
                       root_params=ROOTS, passthrough=tables.SCHED_PASSTHROUGH)


def make_norm():
    return schednorm.Norm(classify_item, dom_equiv=tables.SCHED_DOM_EQUIV, concat={'INST_COLS': ('COMMITTED_COLS', 'PLAIN_COLS')})


def extract(w, root, vocab=None):
    ex = sched.Extractor(w, vocab or make_vocab())
    t = ex.root(root)
    return ex, t


def run(ck):
    w = ck.world()
    ck.explanation = (
        'Effect-schedule extraction over HIR with callee inlining and loop-domain (shape) inference: the complete Fiat–Shamir schedule of '
        'create_proof (compute_trace + finalise_proof + multi_open and all argument helpers) and of prepare (parse_trace + '
        'verify_algebraic_constraints + multi_prepare) is extracted as a tree of transcript operations nested in symbolic loops '
        '(PROOFS, committed/plain instance columns, phases, lookups, permutation sets, trashcans, query lists…), normalised '
        '(constant loops unrolled, filters, committed/plain prefix split) and compared: prover ≙ dual(verifier) ≙ golden schedule written from the '
        'protocol. Symbolic domains mean the comparison holds for every number of proofs / columns / arguments, which the one-proof test suite '
        'cannot reach. Numerical agreement of the committed values is not decided.')
    ck.rule('C01.R1', 'schedule extraction is total: no opaque node, no unclassified loop domain, operation-site floors')
    ck.rule('C01.R2', 'duality: normalised prover schedule with write→read equals the normalised verifier schedule')
    ck.rule('C01.R3', 'golden: both equal the schedule written from the protocol description (tables.GOLDEN_PLONK)')
    nrm = make_norm()
    trees = {}
    for name, root in (('prover', PROVER), ('verifier', VERIFIER)):
        ex, t = extract(w, root)
        op = schednorm.find_opaque(t)
        ck.record('C01.R1', f'{name}:total', not op, f'{ex.ops_seen} transcript operation sites, no opaque construct',
                  f'{name} schedule contains constructs the extractor cannot analyse (fail closed): {op[:3]}')
        ck.floor('C01.R1', f'{name} transcript operation sites', ex.ops_seen, 30)
        trees[name] = nrm.norm(t)
        ck.count(f'{name} normalised ops', schednorm.count_ops(trees[name]))
    pd = schednorm.dualize(trees['prover'])
    diff = schednorm.compare(pd, trees['verifier'], '', 'prover', 'verifier')
    ck.record('C01.R2', 'prover~verifier', diff is None, 'schedules are dual for symbolic PROOFS / columns / phases / arguments',
              f'Fiat–Shamir schedules of prover and verifier differ: {diff}')
    gold = nrm.norm(tables.golden_plonk())
    for name in ('prover', 'verifier'):
        t = schednorm.dualize(trees[name]) if name == 'prover' else trees[name]
        d = schednorm.compare(t, schednorm.dualize(gold), '', name, 'golden')
        ck.record('C01.R3', f'{name}~golden', d is None, 'equals the golden PLONK schedule', f'{name} schedule deviates from the golden schedule: {d}')
    r4_query_indexing(ck, w)
    ck.notes.append('normalised verifier schedule:\n' + '\n'.join(sched.show(trees['verifier'], with_loc=False)))


def r4_query_indexing(ck, w):
    """Opening queries: evaluations are indexed per QUERY, commitments per COLUMN."""
    from ..core import walk, peel, pat_bindings, expr_str
    from ..engines import hirq
    ck.rule('C01.R4', 'opening-query construction in the verifier: inside every closure that iterates `cs.*_queries`, a vector of evaluations (element type: the '
                      'scalar field) is indexed by the position of the query in that list (the `enumerate` index), and a vector of commitments by '
                      '`column.index()`.  Evaluations are read one per query, so indexing them by column picks another query\'s evaluation as soon as a column '
                      'is queried twice or columns are queried out of order — honest proofs are then rejected.')
    f = w.fn('midnight_proofs::plonk::verifier::verify_algebraic_constraints')
    n_sites = 0
    fams = set()
    for n in walk(f['body']):
        if n.get('k') != 'mcall' or not any(peel(a).get('k') == 'closure' for a in n.get('args', [])):
            continue
        e, ms = peel(n['recv']), []
        while e.get('k') == 'mcall':
            ms.append(e['m'])
            e = peel(e['recv'])
        if not (e.get('k') == 'field' and e['n'].endswith('_queries')) or 'iter' not in ms:
            continue
        fam = e['n']
        for a in n['args']:
            a = peel(a)
            if a.get('k') != 'closure':
                continue
            binds = [b for p in a['params'] for b in pat_bindings(p)]
            enum_idx = {b['i'] for b in binds if b.get('t') == 'usize'} if 'enumerate' in ms else set()
            for x in walk(a['body']):
                if x.get('k') != 'index' or 'Range' in (x.get('ixt') or ''):
                    continue
                rt = (x.get('t') or '')
                by_column = any(m.get('m') == 'index' and 'Column' in (peel(m['recv']).get('t') or '') for m in hirq.calls(x['i']))
                by_enum = peel(x['i']).get('k') == 'local' and peel(x['i'])['i'] in enum_idx
                is_eval = rt == 'F'
                is_comm = 'Commitment' in rt
                if not (is_eval or is_comm):
                    continue
                n_sites += 1
                fams.add(fam)
                ok = (is_eval and by_enum and not by_column) or (is_comm and by_column)
                ck.record('C01.R4', f'{fam}|{expr_str(x["e"])[:40]}', ok,
                          'evaluation indexed by query position' if is_eval else 'commitment indexed by column',
                          f'verify_algebraic_constraints, {fam}: `{expr_str(x)[:70]}` indexes ' + ('an evaluation vector (one entry per query) by column index'
                          if is_eval else 'a commitment vector (one entry per column) by query position') + ': the opening query pairs a commitment with the '
                          'evaluation of a different query', hirq.fn_loc(f, x))
    ck.floor('C01.R4', 'indexed evaluation/commitment sites in per-query closures', n_sites, 6)
    ck.floor('C01.R4', 'query families covered', len(fams), 3)
