"""C20 — recursion and aggregation: three-way Fiat–Shamir schedule duality and structural must-calls."""
from ..core import expr_str, pat_bindings, walk, callee, norm, short, AnchorMissing, walk, callee, peel
from ..engines import sched, schednorm, hirq, mustcall as mc, reach
from .. import tables
from . import c01

TG = 'midnight_circuits::verifier::transcript_gadget::TranscriptGadget'
VG = 'midnight_circuits::verifier::verifier_gadget::VerifierGadget::'
LA = 'midnight_aggregator::light_aggregator::LightAggregator::'
IPA = 'midnight_aggregator::inner_product_argument::'


def incircuit_vocab():
    const = lambda v: (lambda n: v)
    prims = {TG + '::common_scalar': ('common', const('S')), TG + '::common_point': ('common', const('P')),
             TG + '::read_scalar': ('read', const('S')), TG + '::read_point': ('read', const('P')),
             TG + '::squeeze_challenge': ('squeeze', const('S'))}
    roots = {(VG + 'prepare', 'assigned_committed_instances'): ('coll', 'COMMITTED_COLS', None),
             (VG + 'prepare', 'assigned_instances'): ('coll', 'PLAIN_COLS', ('coll', 'INST_VALUES', None))}
    return sched.Vocab('fs-incircuit', lambda t, f, bound: (not bound) and t.startswith(TG), prims,
                       field_alias=tables.SCHED_FIELD_ALIAS, count_alias=tables.SCHED_COUNT_ALIAS, root_params=roots)


def outer_vocab():
    """aggregator: only the caller-supplied transcript (type parameter bound by Transcript) is the carrier,
    not the per-inner-proof CircuitTranscript"""
    def carrier(t, f, bound):
        return bound and (t.strip().startswith(c01.T + 'Transcript') or (' + ' + c01.T + 'Transcript') in t)
    return sched.Vocab('fs-outer', carrier, c01.PRIMS, field_alias=tables.SCHED_FIELD_ALIAS, count_alias=tables.SCHED_COUNT_ALIAS,
                       root_params={}, passthrough=tables.SCHED_PASSTHROUGH,
                       atomic={c01.PROVER: 'PLONK(inner schedule: C01)', c01.VERIFIER: 'PLONK(inner schedule: C01)'})


def specialise_single(t, nrm):
    """PROOFS := one proof, PHASES := one phase (every column/challenge belongs to it), CHALLENGES := none (documented in-circuit limits)."""
    PH = 'call(ConstraintSystem::phases)'
    k = t[0]
    if k == 'seq':
        return sched.seq([specialise_single(x, nrm) for x in t[1]])
    if k == 'loop':
        d = t[1]
        body = specialise_single(t[2], nrm)
        if d in ('PROOFS', PH):
            return body
        if isinstance(d, str) and d.startswith('filter(') and f'item<{PH}>' in d:
            base = schednorm.split_top(d[len('filter('):-1])[0]
            if base.endswith('challenge_phase'):
                return sched.EPS
            return ('loop', base, body)
        return ('loop', d, body)
    if k == 'alt':
        return ('alt', t[1], [specialise_single(b, nrm) for b in t[2]])
    return t


def strip_trailing_squeezes(t):
    items = list(schednorm.flat(t))
    while items and items[-1][0] == 'op' and items[-1][1] == 'squeeze':
        items.pop()
    return sched.seq(items)


def run(ck):
    w = ck.world()
    ck.explanation = (
        'Schedule duality (engine of C01) applied three ways: (R1) the in-circuit verifier (VerifierGadget::prepare with the lookup / permutation / '
        'trash / vanishing / kzg helpers) replays the off-circuit verifier\'s schedule specialised to one proof and one phase; (R2) '
        'LightAggregator::aggregate_proofs and ::verify are dual on the outer transcript (length-prefixed accumulator sections, inner PLONK proof, IPA); '
        '(R3) ipa_prove ~ ipa_verify; (R4) the documented in-circuit limits are guarded; (R5) structural must-calls of the aggregator circuit and verifier. '
        'That the in-circuit arithmetic equals the off-circuit one, and IPA soundness, are not decided.')
    nrm = c01.make_norm()
    # ------------------------------------------------------------- R1
    ck.rule('C20.R1', 'in-circuit verifier schedule = off-circuit verifier schedule with PROOFS:=1, PHASES:=1, CHALLENGES:=0')
    ex_i = sched.Extractor(w, incircuit_vocab())
    ti = ex_i.root(VG + 'prepare')
    op = schednorm.find_opaque(ti)
    ck.record('C20.R1', 'incircuit:total', not op, f'{ex_i.ops_seen} in-circuit transcript operation sites, no opaque construct',
              f'in-circuit schedule contains constructs the extractor cannot analyse: {op[:3]}')
    ck.floor('C20.R1', 'in-circuit transcript operation sites', ex_i.ops_seen, 30)
    ex_o, to = c01.extract(w, c01.VERIFIER)
    ti_n = nrm.norm(ti)
    to_n = specialise_single(nrm.norm(to), nrm)
    d = schednorm.compare(ti_n, to_n, '', 'in-circuit', 'off-circuit')
    ck.record('C20.R1', 'incircuit~offcircuit', d is None, 'in-circuit verifier replays the off-circuit schedule',
              f'in-circuit and off-circuit verifier schedules differ: {d}')
    # ------------------------------------------------------------- R2 / R3
    ck.rule('C20.R2', 'aggregate_proofs (write→read) = LightAggregator::verify on the outer transcript, length prefixes paired with their loops')
    ck.rule('C20.R3', 'ipa_prove (write→read) = ipa_verify')
    # parameter-length equalities asserted at function entry (assert_eq!(a.len(), b.len())) identify loop domains of the two sides; they are read off the
    # code (not a name table), so that renaming a parameter on either side keeps the comparison meaningful
    dyn = param_len_equivalences(w, [IPA + 'ipa_prove', IPA + 'ipa_verify'])
    nrm = schednorm.Norm(c01.classify_item, dom_equiv={**{k: v for k, v in tables.SCHED_DOM_EQUIV.items() if not k.startswith('param:')}, **dyn},
                         concat={'INST_COLS': ('COMMITTED_COLS', 'PLAIN_COLS')})
    for rule, a, b in (('C20.R2', LA + 'aggregate_proofs', LA + 'verify'), ('C20.R3', IPA + 'ipa_prove', IPA + 'ipa_verify')):
        trees = []
        for root in (a, b):
            ex = sched.Extractor(w, outer_vocab())
            t = ex.root(root)
            opq = schednorm.find_opaque(t)
            ck.record(rule, f'{short(root)}:total', not opq, f'{ex.ops_seen} operation sites, no opaque construct',
                      f'{root}: constructs the extractor cannot analyse: {opq[:3]}')
            trees.append(schednorm.length_prefix(nrm.norm(t)))
        # a squeeze after the last prover message only derives verifier-side batching randomness: not part of the duality
        trees = [strip_trailing_squeezes(t) for t in trees]
        d = schednorm.compare(schednorm.dualize(trees[0]), trees[1], '', short(a), short(b))
        ck.record(rule, f'{short(a)}~{short(b)}', d is None, 'dual schedules', f'schedules differ: {d}')
        ck.count(f'{rule} ops', schednorm.count_ops(trees[1]))
    r4_limits(ck, w)
    r5_mustcalls(ck, w)
    r7_lagrange(ck, w)
    r8_instance_split(ck, w)
    r9_instance_count(ck, w)
    r10_api_totality(ck, w)
    from ..engines import fsbind
    ck.rule('C20.R6', 'Fiat–Shamir statement binding: in ipa_prove / ipa_verify and the in-circuit parse_trace every statement input (bases, claimed values, key, '
                      'instances) is absorbed before the first challenge is squeezed from the same transcript')
    fsbind.check(ck, w, 'C20.R6', [IPA + 'ipa_prove', IPA + 'ipa_verify', VG + 'parse_trace'], 10)
    # constraint-flow lints over the verifier gadget and aggregator files (shared engine of C04–C07)
    from . import dprops
    dprops.run_d(ck, w, 'C20', dict(advice=0, gadget_fns=40, d4=0, mustcall=8))


def r4_limits(ck, w):
    ck.rule('C20.R4', 'the in-circuit verifier asserts a single phase and panics on Expression::Challenge, so circuits outside its documented '
                      'domain cannot be silently mis-verified')
    f = w.fn(VG + 'parse_trace')
    ok = False
    for n in walk(f['body']):
        if n.get('k') == 'match' and any(c.get('m') == 'count' for c in hirq.calls(n['e'])) and any((callee(c) or '').endswith('::phases') for c in hirq.calls(n['e'])):
            ok = True
    ck.record('C20.R4', 'single-phase-assert', ok, 'assert_eq!(cs.phases().count(), 1) present', 'in-circuit parse_trace no longer asserts a single phase', hirq.fn_loc(f))
    ev = [g for g in w.all_fns(['circuits']) if g['file'].endswith('verifier/expressions/mod.rs')]
    found = False
    for g in ev:
        for n in walk(g['body']):
            if n.get('k') == 'match':
                for a in n['arms']:
                    if (a['pat'].get('p') or '').endswith('Expression::Challenge') and any(c.get('t') == '!' for c in hirq.calls(a['body'])):
                        found = True
    ck.record('C20.R4', 'challenge-unsupported', found, 'Expression::Challenge arm panics (multi-phase unsupported)',
              'the in-circuit expression evaluator no longer rejects Expression::Challenge although the in-circuit transcript squeezes no phase challenges')


AGG_SYN = '<midnight_aggregator::light_aggregator::AggregatorCircuit as midnight_proofs::plonk::circuit::Circuit>::synthesize'


def r5_mustcalls(ck, w):
    ck.rule('C20.R5', 'must-call: AggregatorCircuit::synthesize reaches, on every success path, accumulate → constrain_acc_as_public_input_with_committed_scalars → '
                      'FakeCurveChip::finalize (the chip documents finalize as essential), and runs VerifierGadget::prepare for every inner proof; '
                      'LightAggregator::verify propagates ipa_verify with `?`, adds both the accumulator MSM and the proof MSM, and ends in Guard::verify; '
                      'Accumulator::from_dual_msm routes Fixed / Permutation / "-G" labels into the fixed-base map')
    b = w.mir_body(AGG_SYN)
    for name, pred in (('accumulate', lambda c, t: c.endswith('AssignedAccumulator::accumulate')),
                       ('constrain_acc_as_public_input_with_committed_scalars', lambda c, t: c.endswith('::constrain_acc_as_public_input_with_committed_scalars')),
                       ('FakeCurveChip::finalize', lambda c, t: c.endswith('FakeCurveChip::finalize'))):
        ok, _ = mc.must_call(b, pred)
        ck.record('C20.R5', f'synthesize:{name}', ok, f'{name} on every success path',
                  f'AggregatorCircuit::synthesize has a success path without {name}', reach.loc(b))
    res = mc.calls_after(b, lambda c, t: c.endswith('AssignedAccumulator::accumulate'), lambda c, t: c.endswith('FakeCurveChip::finalize'))
    ck.record('C20.R5', 'synthesize:finalize-last', bool(res) and all(ok for _, _, ok in res), 'finalize follows accumulate',
              'FakeCurveChip::finalize no longer follows the accumulation on every success path', reach.loc(b))
    f = w.fn(AGG_SYN)
    prep_in_loop = False
    for n in walk(f['body']):
        if n.get('k') == 'mcall' and n.get('m') == 'map' and any(a.get('k') == 'closure' and any((callee(c) or '').endswith('VerifierGadget::prepare') for c in hirq.calls(a['body'])) for a in n.get('args', [])):
            names = hirq.local_names_used(n['recv']) | {x['n'] for x in walk(n['recv']) if x.get('k') == 'field'}
            prep_in_loop = 'proofs' in names
    ck.record('C20.R5', 'synthesize:prepare-per-proof', prep_in_loop, 'VerifierGadget::prepare runs inside the iteration over self.proofs',
              'AggregatorCircuit::synthesize no longer verifies every inner proof', hirq.fn_loc(f))
    v = w.mir_body(LA + 'verify')
    ok1, _ = mc.must_call(v, lambda c, t: c.endswith('inner_product_argument::ipa_verify'))
    ok2, _ = mc.must_call(v, lambda c, t: c.endswith('Guard>::verify') or c.endswith('Guard::verify'))
    adds = mc.call_blocks(v, lambda c, t: c.endswith('DualMSM::add_msm'))
    ck.record('C20.R5', 'verify:ipa+pairing', ok1 and ok2 and len(adds) >= 2, 'ipa_verify, two add_msm and the final pairing check on every success path',
              f'LightAggregator::verify: ipa_verify={ok1}, final verify={ok2}, add_msm sites={len(adds)} (accumulator and proof MSM expected)', reach.loc(v))
    fv = w.fn(LA + 'verify')
    tried = any(n.get('k') == 'try' and any((callee(c) or '').endswith('ipa_verify') for c in hirq.calls(n['e'])) for n in walk(fv['body']))
    ck.record('C20.R5', 'verify:ipa-propagated', tried, 'ipa_verify(..)? propagates failure', 'the result of ipa_verify is not propagated with `?`', hirq.fn_loc(fv))
    # from_dual_msm label routing
    g = w.fn('midnight_circuits::verifier::accumulator::Accumulator::from_dual_msm')
    routed = set()
    for n in walk(g['body']):
        if n.get('k') == 'match' and 'CommitmentLabel' in (n.get('st') or ''):
            for a in n['arms']:
                inserts = any(c.get('m') in ('insert', 'entry', 'get_mut') for c in hirq.calls(a['body']))     # how the scalars combine is C15.R6
                for x in [a['pat']] + a['pat'].get('subs', []):
                    p = (x.get('p') or '')
                    if 'CommitmentLabel::' in p and inserts:
                        routed.add(p.rsplit('::', 1)[-1])
    ck.record('C20.R5', 'from_dual_msm:label-routing', {'Fixed', 'Permutation', 'Custom'} <= routed, f'fixed-base routing for {sorted(routed)}',
              f'Accumulator::from_dual_msm no longer routes Fixed/Permutation/-G labels into the fixed-base scalars (routed: {sorted(routed)})', hirq.fn_loc(g))


def r7_lagrange(ck, w):
    """the Lagrange bases of the aggregator cover every accumulator scalar, for every number of proofs"""
    ck.rule('C20.R7', 'LightAggregator::init keeps enough Lagrange commitments for every NB_PROOFS: the accumulator scalars are committed in the committed-instance '
                      'column of the aggregator circuit, so the exact bound is the domain size; the list must not be truncated by an arithmetical estimate built '
                      'from column counts (fixed + advice + instance + permutation + 3*lookups per proof undercounts for NB_PROOFS = 1: quotient pieces, '
                      'permutation products, opening proof…), otherwise aggregate_proofs slices out of range (panic) and k = 1 cannot be aggregated')
    fs = [f for f in w.all_fns(['aggregator']) if f['name'] == 'init' and 'LightAggregator' in f['_nid']]
    if not fs:
        ck.bad('C20.R7', 'LightAggregator::init:anchor', 'LightAggregator::init not found (anchor)')
        return
    f = fs[0]
    verdict, why = None, 'field lagrange_commitments not found in the constructor literal'
    for n in walk(f['body']):
        if n.get('k') != 'struct':
            continue
        for name, e in n.get('fs', []):
            if name != 'lagrange_commitments':
                continue
            trunc = [x for x in walk(e) if x.get('k') == 'index' and 'Range' in (x.get('ixt') or '')]
            est = [x for t_ in trunc for x in walk(t_['i']) if x.get('k') == 'bin' and x.get('op') in ('*', '+')]
            verdict = not est
            why = ('all Lagrange commitments of the downsized SRS are kept' if not trunc else
                   ('truncated to a range without arithmetic' if not est else 'truncated to an estimated count (`' + expr_str(trunc[0]['i'])[:60] + '`)'))
    ck.record('C20.R7', 'LightAggregator::init:lagrange-bases', bool(verdict), why,
              f'LightAggregator::init: the Lagrange commitments are {why}: an estimate from column counts undercounts the accumulator bases for NB_PROOFS = 1 '
              f'(88 needed, 76 kept for the test circuit) and aggregate_proofs panics slicing them', hirq.fn_loc(f))


def r8_instance_split(ck, w):
    """the verifier of an aggregated proof refuses a different split of the same public inputs between the inner proofs"""
    from ..engines import taint
    ck.rule('C20.R8', 'LightAggregator::verify flattens the per-proof public inputs into one instance vector; the statement it verifies is the LIST OF LISTS, so the '
                      'length of every inner list must be checked (escaping conditional on `.len()` of the elements of `instances`) before flattening: otherwise '
                      '[[a],[b,c,d]] is accepted with a proof made for [[a,b],[c,d]]')
    fs = [f for f in w.all_fns(['aggregator']) if f['name'] == 'verify' and 'LightAggregator' in f['_nid']]
    if not fs:
        ck.bad('C20.R8', 'LightAggregator::verify:anchor', 'LightAggregator::verify not found (anchor)')
        return
    f = fs[0]
    inst = [b['i'] for p in f['params'] for b in pat_bindings(p) if b['n'] == 'instances']
    ok = False
    if inst:
        for n in walk(f['body']):
            if n.get('k') == 'if' and taint.diverges(n['a']):
                mentions = any(x.get('k') == 'local' and x.get('i') == inst[0] for x in walk(n['c']))
                lens = any(m.get('m') == 'len' for m in hirq.calls(n['c']))
                if mentions and lens:
                    ok = True
    ck.record('C20.R8', 'LightAggregator::verify:per-proof-instance-count', ok, 'an escaping conditional checks the length of every inner instance list',
              'LightAggregator::verify flattens `instances` without checking the length of each inner list: a re-split of the same values between the inner proofs '
              'is accepted', hirq.fn_loc(f))


def r9_instance_count(ck, w):
    """the instance vector of the aggregator proof, whose length depends on counts read from the proof, is compared exactly with the keygen count"""
    from ..engines import taint
    from ..core import peel
    ck.rule('C20.R9', 'LightAggregator::verify builds the instance vector of the aggregator circuit from data READ FROM THE UNTRUSTED PROOF (the numbers of '
                      'accumulator bases); the PLONK verifier accepts instance vectors longer than what the circuit binds (further rows are unconstrained), so an '
                      'escaping conditional must compare the length of that vector EXACTLY (`!=`) with a count fixed at key generation before it is handed to '
                      'prepare().  Without it a prover announces one extra base X, shifts the fixed bases of the inner-product argument by one slot and solves '
                      'for X: an aggregated proof verifies for inner public inputs it holds no valid proof of.')
    fs = [f for f in w.all_fns(['aggregator']) if f['name'] == 'verify' and 'LightAggregator' in f['_nid']]
    if not fs:
        ck.bad('C20.R9', 'LightAggregator::verify:anchor', 'LightAggregator::verify not found (anchor)')
        return
    f = fs[0]
    # the local handed to prepare as instances
    prep = [n for n in hirq.calls(f['body']) if (callee(n) or '').endswith('plonk::verifier::prepare') or (callee(n) or '').endswith('::prepare')]
    inst_locals = set()
    for n in prep:
        for a in n.get('args', [])[2:3]:
            inst_locals |= {x['i'] for x in walk(a) if x.get('k') == 'local'}
    ok = False
    for n in walk(f['body']):
        if n.get('k') != 'if' or not taint.diverges(n['a']):
            continue
        c = peel(n['c'])
        if c.get('k') == 'bin' and c.get('op') == '!=':
            sides = [peel(c['a']), peel(c['b'])]
            has_len = any(s_.get('k') == 'mcall' and s_.get('m') == 'len' and any(x.get('k') == 'local' and x['i'] in inst_locals for x in walk(s_['recv'])) for s_ in sides)
            has_field = any(s_.get('k') == 'field' for s_ in sides)
            if has_len and has_field:
                ok = True
    ck.record('C20.R9', 'LightAggregator::verify:exact-instance-count', bool(prep) and ok, 'the instance vector length is compared with the keygen count (!=, escaping)',
              'LightAggregator::verify hands prepare() an instance vector whose length is derived from counts read from the proof and never compares it with the '
              'number of public inputs the aggregator circuit binds: a forged aggregated proof with one extra accumulator base verifies', hirq.fn_loc(f))


LA_ = 'midnight_aggregator::light_aggregator::LightAggregator::'
C20_PANIC_TRIAGE = {
    LA_ + 'aggregate_proofs|panic|assert': 'sanity checks on the batched accumulator and on sizes computed from inner proofs that were verified one by one just before',
    LA_ + 'aggregate_proofs|index|alloc::vec::Vec[core::ops::range::RangeTo]': 'the Lagrange commitments cover the whole domain (C20.R7); the number of accumulator bases '
                                                                             'is bounded by the rows of the committed-instance column',
    LA_ + 'aggregate_proofs::{closure}|unwrap|Result::unwrap': 'conversion of the per-proof instances to [F; 2]: guarded by the length check at the top of the function',
    LA_ + 'verify|index|alloc::vec::Vec[core::ops::range::RangeTo]': 'guarded by `bases1.len() > lagrange_commitments.len() -> Err` just above',
}


def r10_api_totality(ck, w):
    from ..engines import panics
    ck.rule('C20.R10', 'the public aggregation API answers with a Result: every explicit panic site (assert!/unwrap/expect/index/slice range) in the bodies of '
                       'LightAggregator::aggregate_proofs and ::verify (closures included) is triaged (C20_PANIC_TRIAGE, one reason per site).  aggregate_proofs '
                       'documents "# Errors: if some of the provided proofs are invalid": asserting the validity of an inner proof panics instead')
    total = 0
    for m in ('aggregate_proofs', 'verify'):
        root = LA_ + m
        if w.mir_body(root, required=False) is None:
            ck.bad('C20.R10', f'{root}:anchor', f'{root} not found (anchor)')
            continue
        seen = set()
        for nid in panics.own_bodies(w, root):
            b = w.mir_body(nid)
            for s_ in panics.sites(b):
                import re as _re
                key = _re.sub(r'\{closure#\d+\}', '{closure}', f'{nid}|{s_["kind"]}|{s_["detail"]}')      # closure numbers shift when a closure is added
                if key in seen:
                    continue
                seen.add(key)
                total += 1
                tri = C20_PANIC_TRIAGE.get(key)
                ck.record('C20.R10', key, tri is not None, 'triaged: ' + str(tri),
                          f'untriaged panic site in {nid}: {s_["kind"]} {s_["detail"]}: an invalid inner proof (or a malformed input) must yield Err, not a panic',
                          reach.loc(b, s_['term']))
    ck.floor('C20.R10', 'panic sites inspected', total, 3)


def param_len_equivalences(w, fn_ids):
    """{'param:x': 'param:rep'}: parameters whose lengths the functions assert equal (assert_eq!(x.len(), y.len())) are one loop domain"""
    parent = {}

    def find(x):
        while parent.get(x, x) != x:
            x = parent[x]
        return x
    seen_in = {}
    for nid in fn_ids:
        f = w.fn(nid, required=False)
        if f is None:
            continue
        params = {b['i']: b['n'] for p in f['params'] for b in pat_bindings(p)}
        for n in walk(f['body']):
            if not any('assert' in m for m in (n.get('x') or [])):
                continue
            lens = []
            for m in hirq.calls(n):
                if m.get('m') == 'len':
                    r = m['recv']
                    while r.get('k') in ('ref', 'un'):
                        r = r['e']
                    if r.get('k') == 'local' and r.get('i') in params:
                        lens.append('param:' + params[r['i']])
            for x in lens:
                seen_in.setdefault(x, set()).add(nid)
            for x, y in zip(lens, lens[1:]):
                rx, ry = find(x), find(y)
                if rx != ry:
                    parent[rx] = ry
    classes = {}
    for x in seen_in:
        classes.setdefault(find(x), []).append(x)
    out = {}
    for members in classes.values():
        rep = sorted(members, key=lambda m: (-len(seen_in.get(m, ())), m))[0]      # the name most functions share
        for m in members:
            if m != rep:
                out[m] = rep
    return out
