"""C19 — structural (constraint-flow) clauses: no unconstrained hint, no dropped constraint, typestate constructors, must-call checks."""
from . import dprops
from .. import tables

FLOORS = tables.D_FLOORS['C19']


def run(ck):
    w = ck.world()
    ck.explanation = tables.D_EXPLANATION['C19']
    dprops.run_d(ck, w, 'C19', FLOORS)
    extra = getattr(tables, 'D_EXTRA', {}).get('C19')
    if extra:
        extra(ck, w)
    r1_degenerate(ck, w)
    k1_constants(ck, w)
    from . import c10
    c10.eval_ops(ck, w, 'C19', 'C19.N1')


RA = 'midnight_circuits::parsing::automaton::RawAutomaton::'


def r1_degenerate(ck, w):
    """structural guards for languages included in {epsilon} (automata without transitions): four repaired defects"""
    from ..core import walk, callee, peel, pat_bindings, expr_str
    from ..engines import hirq, valflow
    ck.rule('C19.R1', 'degenerate automata (no transitions: empty language / epsilon) are handled by every construction: (a) the completion of the powerset '
                      'construction ranges over a marker list that is guarded non-empty; (b) the `complete` flag of a concatenation is not the vacuous truth of '
                      '`all` over zero factors; (c) RawAutomaton::concat skips, before its optimised branch, a factor whose initial state is final and has no '
                      'successor; (d) redirect_final_to_initial sizes its result from the states it keeps, not from len - #final')
    # (a)
    f = w.fn(RA + 'powerset_construction')
    comp = [b['i'] for p in f['params'] for b in pat_bindings(p) if b['n'] == 'completion']
    eb = [n for n in hirq.calls(f['body']) if (callee(n) or '').endswith('Letter::encoding_bound')]
    ok_a = False
    if comp and eb:
        vf = valflow.ValFlow(f, sources=[])
        # locals the marker argument is built from (one step through `Vec::from_iter(set.iter().copied())`)
        arg_locals = {x['i'] for x in walk(eb[0]['args'][1]) if x.get('k') == 'local'}
        for n in walk(f['body']):
            if n.get('k') in ('let', 'letx') and 'init' in n and any(b['i'] in arg_locals for b in pat_bindings(n['pat'])):
                arg_locals |= {x['i'] for x in walk(n['init']) if x.get('k') == 'local'}
        for n in walk(f['body']):
            if n.get('k') != 'if':
                continue
            cl = {x['i'] for x in walk(n['c']) if x.get('k') == 'local'}
            empt = [m for m in hirq.calls(n['c']) if m.get('m') == 'is_empty' and vf.root_local(m['recv']) in arg_locals]
            grows = [m for m in hirq.calls(n['a']) if m.get('m') in ('insert', 'push') and vf.root_local(m['recv']) in arg_locals]
            if comp[0] in cl and empt and grows:
                ok_a = True
    ck.record('C19.R1', 'powerset_construction:completion-markers-nonempty', ok_a, 'under completion an empty marker set receives the unmarked marker',
              'RawAutomaton::powerset_construction completes over `alphabet_size * markers.len()` letters with no guard for an empty marker set: an automaton without '
              'transitions is not completed and its complement is the empty language', hirq.fn_loc(f))
    # (b) + (c)
    g = w.fn(RA + 'concat')
    ap = [b['i'] for p in g['params'] for b in pat_bindings(p) if b['n'] == 'automata']
    ok_b = False
    for n in walk(g['body']):
        if n.get('k') == 'struct':
            for name, e in n.get('fs', []):
                if name == 'complete':
                    ms = [m for m in hirq.calls(e) if m.get('m') in ('is_empty', 'len') and ap and ap[0] in {x['i'] for x in walk(m['recv']) if x.get('k') == 'local'}]
                    alls = [m for m in hirq.calls(e) if m.get('m') == 'all']
                    ok_b = bool(ms) or not alls
    ck.record('C19.R1', 'concat:complete-flag-not-vacuous', ok_b, '`complete` also tests that there is at least one factor',
              'RawAutomaton::concat derives `complete` from `all` over the factors only: for zero factors (epsilon) it is vacuously true, completion is skipped '
              'and epsilon.neg() compiles to the empty language', hirq.fn_loc(g))
    ok_c = False
    for lp in [n for n in walk(g['body']) if n.get('k') == 'for']:
        body = lp['body']
        stmts = body.get('ss', []) if body.get('k') == 'block' else []
        for st in stmts[:2]:
            for n in walk(st):
                if n.get('k') == 'if' and any(x.get('k') == 'continue' for x in walk(n['a'])):
                    flds = {fl for _, fl in hirq.field_reads(n['c'])}
                    if {'final_states', 'initial_state', 'transitions'} <= flds:
                        ok_c = True
    ck.record('C19.R1', 'concat:skips-epsilon-factor', ok_c, 'a factor with a final, successor-less initial state is skipped at the top of the loop',
              'RawAutomaton::concat no longer skips factors recognising exactly the empty word: its optimised branch loses their empty word '
              '(a.(c* & b?).d rejects "ad")', hirq.fn_loc(g))
    # (e) constructors declare the markers of the transitions they build
    n_lit = 0
    for f2 in w.all_fns(['circuits']):
        if not f2['file'].endswith('parsing/automaton.rs') or '::tests' in f2['_nid']:
            continue
        for n in walk(f2['body']):
            if n.get('k') != 'struct':
                continue
            fs_ = dict((nm, e) for nm, e in n.get('fs', []))
            if 'transitions' not in fs_ or 'markers' not in fs_ or 'tail' in n:
                continue
            n_lit += 1
            builds = any(x.get('k') == 'closure' for x in walk(fs_['transitions']))
            m = peel(fs_['markers'])
            bare_empty = m.get('k') == 'call' and (callee(m) or '').endswith(('::default', '::new')) and not m.get('args')
            ck.record('C19.R1', f'{f2["_nid"]}:markers-declared', not (builds and bare_empty), 'markers consistent with the transitions built',
                      f'{f2["_nid"]} builds transitions in its constructor literal but declares an EMPTY marker set: minimisation encodes letters against the '
                      f'declared markers and panics (Regex::any().to_automaton())', hirq.fn_loc(f2, n))
    ck.floor('C19.R1', 'RawAutomaton constructor literals', n_lit, 3)
    # (d)
    h = w.fn(RA + 'redirect_final_to_initial')
    ok_d = False
    for n in hirq.calls(h['body']):
        if (callee(n) or '').endswith('filter_map_transitions') and len(n.get('args', [])) >= 3:
            e = n['args'][2]
            names = {x['n'] for x in walk(e) if x.get('k') == 'local'}
            flds = {fl for _, fl in hirq.field_reads(e)}
            ok_d = 'final_states' not in flds and bool(names)
    ck.record('C19.R1', 'redirect_final_to_initial:state-count', ok_d, 'the new state count is taken from the kept states',
              'RawAutomaton::redirect_final_to_initial computes its state count as len - #final although a final initial state is kept: a zero-state automaton '
              'with a final state results and minimisation indexes out of bounds', hirq.fn_loc(h))


def k1_constants(ck, w, rule='C19.K1'):
    """the base64 table is the standard alphabet"""
    from ..engines import consteq
    ck.rule(rule, 'BASE64_TABLE (value computed by the compiler\'s const evaluator): entry i is (i-th character of the standard alphabet A-Z a-z 0-9 + /, i); the '
                  'lookup table of the base64 chip is built from it, so a wrong entry decodes one character to another sextet.')
    n = 0
    for cid, ok, detail, loc in consteq.base64_equations(consteq.load(w, 'circuits')):
        n += 1
        ck.record(rule, cid, ok, detail, f'{cid} is not the standard base64 alphabet ({detail})', loc)
    ck.floor(rule, 'base64 tables', n, 1)
