"""C04 — structural (constraint-flow) clauses: no unconstrained hint, no dropped constraint, typestate constructors, must-call checks."""
from . import dprops
from .. import tables

FLOORS = tables.D_FLOORS['C04']


def run(ck):
    w = ck.world()
    ck.explanation = tables.D_EXPLANATION['C04']
    dprops.run_d(ck, w, 'C04', FLOORS)
    extra = getattr(tables, 'D_EXTRA', {}).get('C04')
    if extra:
        extra(ck, w)
    v1_padding_flag(ck, w)
    v2_div_rem_wrap(ck, w)
    v3_limb_masks(ck, w)


def v1_padding_flag(ck, w):
    """VectorGadget::padding_flag: the start of the data can be the first position of the last chunk"""
    from ..core import walk, peel, callee, expr_str
    from ..engines import hirq
    ck.rule('C04.V1', 'VectorGadget::padding_flag compares `start` with every position it can take: data of length 0 < len <= A lies entirely in the last chunk and '
                      'starts at position M - A, so the iteration that tests `start == i` must include M - A (inclusive range).  With the exclusive range the '
                      'flags of such vectors are inverted in the last chunk: is_equal ignores the data and compares the filler.')
    fs = [f for f in w.all_fns(['circuits']) if f['name'] == 'padding_flag' and f['file'].endswith('vec/vector_gadget.rs')]
    if not fs:
        ck.bad('C04.V1', 'padding_flag:anchor', 'VectorGadget::padding_flag not found (anchor)')
        return
    f = fs[0]
    verdict, why = None, 'no iteration testing `start` found'
    for n in walk(f['body']):
        if n.get('k') == 'mcall' and n.get('m') in ('map', 'try_for_each', 'for_each') and any(peel(a).get('k') == 'closure' for a in n.get('args', [])):
            tests_start = any((m.get('m') == 'is_equal_to_fixed' or (callee(m) or '').endswith('is_equal_to_fixed')) and
                              any(x.get('k') == 'local' and x.get('n') == 'start' for a in m.get('args', []) for x in walk(a))
                              for a in n['args'] for m in hirq.calls(a))
            if not tests_start:
                continue
            r = peel(n['recv'])
            if r.get('k') == 'struct' and (r.get('p') or '').endswith('RangeInclusive'):
                verdict, why = True, f'inclusive range {expr_str(r)[:40]}'
            elif r.get('k') == 'call' and 'RangeInclusive' in (callee(r) or ''):
                verdict, why = True, 'inclusive range'
            elif r.get('k') == 'struct' and (r.get('p') or '').endswith('ops::range::Range'):
                end = dict(r.get('fs', [])).get('end')
                es = expr_str(peel(end)) if end else '?'
                excl_m_a = end is not None and peel(end).get('k') == 'bin' and peel(end).get('op') == '-' and es.count('::M') + es.count('::A') >= 2
                verdict, why = (not excl_m_a), f'exclusive range ending at {es[-40:]}'
            else:
                verdict, why = False, f'unrecognised iteration domain {expr_str(r)[:40]}'
    ck.record('C04.V1', 'padding_flag:start-domain', bool(verdict), f'`start` is tested over an {why}',
              f'VectorGadget::padding_flag tests `start == i` over an {why}: position M - A is never tested, vectors with 0 < len <= A get inverted flags',
              hirq.fn_loc(f))


def v2_div_rem_wrap(ck, w):
    """DivisionInstructions::div_rem: divisor * q + r must not be able to wrap around the field modulus"""
    from ..core import walk, peel, pat_bindings
    from ..engines import hirq, valflow
    ck.rule('C04.V2', 'DivisionInstructions::div_rem excludes wrap-around: with r < divisor and q <= bound / divisor the integer divisor*q + r reaches '
                      'bound - (bound mod divisor) + divisor - 1; the equation dividend == divisor*q + r is checked in the field, so the routine must guard '
                      '(assert or constrain) that this maximum stays below the modulus — a condition that combines the divisor with the dividend bound '
                      'arithmetically (bound + divisor, q_bound * divisor, …) and compares the result.  Without it a second (q, r) exists for small dividends.')
    fs = [f for f in w.all_fns(['circuits']) if f['name'] == 'div_rem' and f['file'].endswith('instructions/division.rs')]
    if not fs:
        ck.bad('C04.V2', 'div_rem:anchor', 'DivisionInstructions::div_rem not found (anchor)')
        return
    f = fs[0]
    src = [(b['n'], b['i'], b.get('t')) for p in f['params'] for b in pat_bindings(p) if b['n'] in ('divisor', 'dividend_bound')]
    vf = valflow.ValFlow(f, sources=src)
    guard = False
    for n in walk(f['body']):
        if n.get('k') != 'bin' or n.get('op') not in ('<', '<=', '>', '>='):
            continue
        for side in (n['a'], n['b']):
            for x in walk(side):
                if (x.get('k') == 'bin' and x.get('op') in ('+', '*', '-')) or (x.get('k') == 'mcall' and x.get('m') in ('checked_add', 'checked_mul', 'add', 'mul')):
                    d = set(vf.ev(x))
                    if 'divisor' in d and ('dividend_bound' in d or len(d) >= 1):
                        guard = True
    ck.record('C04.V2', 'div_rem:no-wrap-guard', guard, 'a guard combines divisor and bound arithmetically and compares the result',
              'DivisionInstructions::div_rem has no guard that divisor * q + r stays below the modulus: with the default bound (None = p - 1) the sum wraps, e.g. '
              'dividend 0, divisor 2 admits (q, r) = ((p-1)/2, 1)', hirq.fn_loc(f))


def v3_limb_masks(ck, w):
    """limb masks of the decomposition helpers are not computed in a fixed-width integer"""
    from ..core import walk, peel, pat_bindings, expr_str
    from ..engines import hirq
    ck.rule('C04.V3', 'off-circuit decomposition helpers (field/decomposition/cpu_utils.rs) shift by a LIMB SIZE only in big-integer arithmetic: limb sizes are '
                      'arbitrary (anything below F::NUM_BITS is in the documented domain of assigned_to_le_chunks), so `1 << limb_size` in a u64 overflows for '
                      'limbs of 64 bits or more — a panic in debug builds, wrong limbs (an unsatisfiable circuit for the honest prover) in release builds')
    fs = [f for f in w.all_fns(['circuits']) if f['file'].endswith('field/decomposition/cpu_utils.rs') and '::tests' not in f['_nid']]
    ck.floor('C04.V3', 'cpu_utils functions', len(fs), 3)
    n = 0
    for f in fs:
        for x in walk(f['body']):
            if x.get('k') == 'bin' and x.get('op') == '<<' and (x.get('t') or '') in ('u8', 'u16', 'u32', 'u64', 'u128', 'usize', 'i32', 'i64'):
                amount = [y for y in walk(x['b']) if y.get('k') == 'local']
                if not amount:
                    continue
                names = {y['n'] for y in amount}
                if any('limb' in nm or 'size' in nm or 'bits' in nm for nm in names):
                    n += 1
                    ck.bad('C04.V3', f'{f["_nid"]}|{expr_str(x)[:40]}', f'{f["_nid"]}: `{expr_str(x)[:50]}` is evaluated in {x.get("t")}: it overflows for limb sizes '
                           f'of {x.get("t")[1:] if x.get("t")[1:].isdigit() else "64"} bits or more', hirq.fn_loc(f, x))
    ck.ok('C04.V3', 'no-fixed-width-limb-shift', f'{len(fs)} functions inspected, {n} fixed-width shifts by a limb size')
