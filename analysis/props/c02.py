"""C02 — the verifier enforces every constraint class and agrees with the mock checker (structural clauses)."""
from ..core import norm, short, walk, callee, peel, AnchorMissing
from ..engines import cover, hirq, reach, mustcall as mc
from .. import tables

CS = 'midnight_proofs::plonk::circuit::ConstraintSystem'
P = 'midnight_proofs::plonk::'
CLASSES = ['gates', 'permutation', 'lookups', 'trashcans']


GETTERS = {CS + '::' + g for g in ('gates', 'lookups', 'trashcans', 'permutation')}


def scope(nid):
    # methods of ConstraintSystem compute *shape* quantities (degree, blinding factors, phases...) from every class;
    # reading a class there does not enforce it.  Only the plain getters count.
    if nid.startswith(CS + '::') and nid not in GETTERS:
        return False
    if nid.startswith('<' + CS + ' as ') or ' as core::clone::Clone>' in nid or ' as core::fmt::Debug>' in nid:
        return False      # derived Clone / Debug / PartialEq touch every field without enforcing anything
    return nid.startswith(('midnight_proofs::plonk', '<midnight_proofs::plonk', 'midnight_proofs::dev', '<midnight_proofs::dev',
                           'midnight_circuits::verifier', '<midnight_circuits::verifier'))


def run(ck):
    w = ck.world()
    ck.explanation = (
        'Static COVER rules: (R1) each of the four checkers of a constraint system — prover numerator, verifier, in-circuit verifier, mock checker — '
        'reads every constraint class the system can hold (gates, permutation, lookups, trashcans): a class a checker never reads cannot be enforced by it; '
        '(R2) per-argument identity-group counts in the verifier-side expression iterators (off-circuit and in-circuit) are at least the protocol\'s '
        '(permutation 4, lookup 5, trash 1); (R3) the expected quotient evaluation is the y-fold of all identities divided by x^n-1 and is opened; '
        '(R4) every evaluation read after x is part of an opening query; (R5) copy constraints of keygen and mock go through the permutation assembly; (R6) the assignment back ends (keygen, mock) fill the same row domain; '
        '(R7) cycle walks of the permutation keygen stop on the cursor itself. '
        'That each identity\'s algebra is right, and value-level agreement of mock and verifier, are not decided.')
    r1_cover(ck, w)
    r2_groups(ck, w)
    r3_quotient(ck, w)
    r4_opened(ck, w)
    r5_copy(ck, w)
    r6_backends(ck, w)
    r7_cycle_walk(ck, w)
    r8_instance_bound(ck, w)
    r9_instance_padding(ck, w)
    r10_mock_report(ck, w)
    from . import c10
    c10.eval_ops(ck, w, 'C02', 'C02.N1')


def r6_backends(ck, w):
    ck.rule('C02.R6', 'sibling agreement of the assignment back-ends: keygen::Assembly and MockProver implement Assignment::{assign_fixed, enable_selector, copy, '
                      'fill_from_row}; each tests usable_rows.contains(row) on the rows it touches, and fill_from_row fills exactly usable_rows from from_row on '
                      '(same canonical row domain in both) — the keys the verifier uses and the table the mock checker checks are built from the same cells')
    A = 'midnight_proofs::plonk::circuit::Assignment>::'
    sibs = {'keygen': '<midnight_proofs::plonk::keygen::Assembly as ' + A, 'mock': '<midnight_proofs::dev::MockProver as ' + A}
    def canon_dom(e):
        """canonical row domain of a loop header"""
        e = peel(e)
        if e.get('k') == 'mcall' and e.get('m') == 'skip':
            base = peel(e['recv'])
            while base.get('k') == 'mcall' and base.get('m') in ('clone', 'iter', 'into_iter', 'by_ref'):
                base = peel(base['recv'])
            arg = peel(e['args'][0]) if e.get('args') else {}
            if base.get('k') == 'field' and arg.get('k') == 'local':
                return f'{base["n"]}[param {arg["n"]}..]'
        if e.get('k') == 'struct' and (e.get('p') or '').endswith('Range'):
            fs = dict(e.get('fs', []))
            st, en = peel(fs.get('start', {})), peel(fs.get('end', {}))
            if st.get('k') == 'local' and en.get('k') == 'field' and en['n'] == 'end' and peel(en['e']).get('k') == 'field':
                return f'{peel(en["e"])["n"]}[param {st["n"]}..]'
        from ..core import expr_str
        return 'other: ' + expr_str(e)[:80]
    doms = {}
    for name, pre in sibs.items():
        for m in ('assign_fixed', 'enable_selector', 'copy', 'fill_from_row'):
            f = w.fn(pre + m)
            guards = [c for c in hirq.calls(f['body']) if c.get('m') == 'contains' and any(x.get('k') == 'field' and x['n'] == 'usable_rows' for x in walk(c['recv']))]
            if m == 'fill_from_row':
                # from_row == usable_rows.end is legitimate (the column is full already): a comparison with the end of the range is the guard here
                guards += [x for x in walk(f['body']) if x.get('k') == 'bin' and x.get('op') in ('>', '>=', '<', '<=')
                           and any(y.get('k') == 'field' and y['n'] == 'usable_rows' for y in walk(x))]
            need = 2 if m == 'copy' else 1
            ck.record('C02.R6', f'{name}:{m}:usable-rows-guard', len(guards) >= need, f'{len(guards)} usable_rows.contains(..) test(s)',
                      f'{pre + m} no longer checks that the rows it touches are usable rows (found {len(guards)}, expected {need})', hirq.fn_loc(f))
        f = w.fn(pre + 'fill_from_row')
        loops = [n for n in walk(f['body']) if n.get('k') == 'for']
        doms[name] = [canon_dom(l['iter']) for l in loops]
    ck.record('C02.R6', 'fill_from_row:same-rows', doms['keygen'] == doms['mock'] and doms['keygen'] == ['usable_rows[param from_row..]'],
              f'both back-ends fill {doms["keygen"]}',
              f'keygen::Assembly::fill_from_row fills {doms["keygen"]} but MockProver::fill_from_row fills {doms["mock"]}: the fixed table committed in the keys '
              f'and the table the mock checker uses are padded differently, so the verifier and the mock checker can disagree on lookups')


def r1_cover(ck, w):
    ck.rule('C02.R1', 'COVER(ConstraintSystem.{gates, permutation, lookups, trashcans}) by each checker (fields read in the call closure, MIR projections)')
    consumers = {
        'prover numerator': [P + 'evaluation::Evaluator::new', P + 'evaluation::Evaluator::evaluate_numerator'],
        'verifier': [P + 'evaluate_identities'],
        'in-circuit verifier': ['midnight_circuits::verifier::verifier_gadget::VerifierGadget::verify_algebraic_constraints'],
        'mock checker': ['midnight_proofs::dev::MockProver::verify_at_rows'],
    }
    for name, roots in consumers.items():
        for r in roots:
            w.mir_body(r)
        fr, n = cover.fields_read(w, roots, scope)
        ck.count(f'{name}: bodies in closure', n)
        for cls in CLASSES:
            key = f'{name}|{cls}'
            ck.record('C02.R1', key, (CS, cls) in fr, f'{name} reads ConstraintSystem.{cls}',
                      f'the {name} ({", ".join(short(r) for r in roots)}) never reads ConstraintSystem.{cls}: constraints of that class are not enforced by it, '
                      f'so its verdict can differ from the other checkers', reach.loc(w.mir_body(roots[-1])))


def chain_count(f):
    """number of .chain(..) links of the iterator a function returns"""
    tail = f['body']
    while tail.get('k') == 'block' and 'e' in tail:
        tail = peel(tail['e'])
    n = 0
    cur = peel(tail)
    while cur.get('k') == 'mcall' and cur.get('m') == 'chain':
        n += 1
        cur = peel(cur['recv'])
    return n


def leaf_count(n):
    n = peel(n)
    k = n.get('k')
    if k == 'block' and 'e' in n:
        return leaf_count(n['e'])
    if k == 'array':
        return sum(leaf_count(e) for e in n.get('es', []))
    if k == 'call' and 'vec' in (n.get('x') or []):
        arrs = [x for x in walk(n) if x.get('k') == 'array']
        if arrs:
            return sum(leaf_count(e) for e in arrs[0].get('es', []))
        return 1
    if k == 'call' and (callee(n) or '').endswith('::empty'):
        return 0
    if k == 'call':
        c = callee(n) or n.get('f', '')
        if n.get('dk') == 'Ctor' and n.get('args'):
            return leaf_count(n['args'][0])
        if c.endswith(('into_vec', 'box_new', 'Box::new')) and n.get('args'):
            return leaf_count(n['args'][0])
        return 1
    if k == 'mcall' and n.get('m') in ('concat', 'into_iter', 'collect', 'iter', 'to_vec'):
        return leaf_count(n['recv'])
    if k == 'mcall' and n.get('m') == 'chain':
        return leaf_count(n['recv']) + 1
    if k == 'call' and (callee(n) or '').endswith('empty'):
        return 0
    return 1


def group_count(f):
    tail = f['body']
    while tail.get('k') == 'block' and 'e' in tail:
        tail = peel(tail['e'])
    return max(chain_count(f), leaf_count(tail))


def r2_groups(ck, w):
    ck.rule('C02.R2', 'identity groups: the verifier-side `expressions` iterators chain at least permutation 4, lookup 5, trash 1 groups (off-circuit); '
                      'the in-circuit counterparts produce at least as many')
    want = {P + 'permutation::expressions': 4, P + 'lookup::Evaluated::expressions': 5, P + 'trash::Evaluated::expressions': 1}
    for nid, k in want.items():
        f = w.fn(nid)
        n = group_count(f)
        ck.record('C02.R2', f'{short(nid)}:groups', n >= k, f'{n} identity groups (protocol: {k})',
                  f'{nid} yields {n} identity group(s); the protocol has {k}: a rule of the argument is no longer checked by the verifier', hirq.fn_loc(f))
    inc = {'midnight_circuits::verifier::expressions::permutation::permutation_expressions': 4,
           'midnight_circuits::verifier::expressions::lookup::lookup_expressions': 5,
           'midnight_circuits::verifier::expressions::trash::trash_expressions': 1}
    for nid, k in inc.items():
        f = w.fn(nid, required=False)
        if f is None:
            ck.bad('C02.R2', f'{short(nid)}:anchor', f'{nid} not found (anchor)')
            continue
        # in-circuit: count identities pushed / chained / collected in the returned vector
        n = group_count(f)
        ck.record('C02.R2', f'{short(nid)}:groups', n >= k, f'{n} identity groups (protocol: {k})',
                  f'{nid} produces {n} identity group(s); the protocol has {k}', hirq.fn_loc(f))


def r3_quotient(ck, w):
    ck.rule('C02.R3', 'expected quotient evaluation: PartiallyEvaluated::verify folds the identities with y, multiplies by the inverse of (x^n - 1) and stores it; '
                      'Evaluated::queries opens it; evaluate_identities passes the full identity iterator to verify')
    V = P + 'vanishing::verifier::'
    f = w.fn(V + 'PartiallyEvaluated::verify')
    ms = {c.get('m') for c in hirq.calls(f['body'])}
    uses_xn = any(x.get('k') == 'bin' and x.get('op') == '-' and 'xn' in hirq.local_names_used(x) for x in walk(f['body']))
    ck.record('C02.R3', 'verify:fold-and-divide', {'fold', 'invert'} <= ms and uses_xn, 'fold(..y..) * (xn - 1)^-1',
              'vanishing::verify no longer computes (sum_i y^i identity_i) / (x^n - 1)', hirq.fn_loc(f))
    lit = hirq.struct_lits(f['body'], V + 'Evaluated')
    ok = bool(lit) and 'expected_h_eval' in dict(lit[0]['fs'])
    ck.record('C02.R3', 'verify:stores-expected', ok, 'expected_h_eval stored in Evaluated', 'expected_h_eval is not stored', hirq.fn_loc(f))
    q = w.fn(V + 'Evaluated::queries')
    fr = {fld for a, fld in hirq.field_reads(q['body']) if a == V + 'Evaluated'}
    ck.record('C02.R3', 'queries:opens-expected', {'expected_h_eval', 'h_commitments', 'random_eval', 'random_poly_commitment'} <= fr,
              'queries() opens h at expected_h_eval and the random polynomial at random_eval',
              f'vanishing::Evaluated::queries no longer opens every committed part (reads {sorted(fr)})', hirq.fn_loc(q))
    ei = w.fn(P + 'evaluate_identities')
    passes = any((callee(c) or '').endswith('PartiallyEvaluated::verify') or c.get('m') == 'verify' for c in hirq.calls(ei['body']))
    ck.record('C02.R3', 'evaluate_identities:calls-verify', passes, 'identities are handed to vanishing.verify', 'evaluate_identities no longer hands the identities to vanishing.verify', hirq.fn_loc(ei))


def r4_opened(ck, w):
    ck.rule('C02.R4', 'every evaluation read after x is opened: each *_eval field of the argument Evaluated structs is read by the corresponding queries() '
                      'and by the corresponding expressions()')
    table = [
        (P + 'lookup::Evaluated', P + 'lookup::verifier::Evaluated::queries', P + 'lookup::Evaluated::expressions'),
        (P + 'permutation::Evaluated', P + 'permutation::verifier::Evaluated::queries', P + 'permutation::expressions'),
        (P + 'trash::Evaluated', P + 'trash::verifier::Evaluated::queries', P + 'trash::Evaluated::expressions'),
        (P + 'permutation::verifier::CommonEvaluated', P + 'permutation::verifier::CommonEvaluated::queries', P + 'permutation::expressions'),
    ]
    for adt_id, qfn, efn in table:
        adt = w.adt(adt_id)
        fields = [fd['name'] for fd in adt['variants'][0]['fields'] if fd['name'].endswith('_eval') or fd['name'].endswith('_evals')]
        ck.floor('C02.R4', f'{short(adt_id)} eval fields', len(fields), 1)
        for fn_id, what in ((qfn, 'opened'), (efn, 'used in an identity')):
            f = w.fn(fn_id)
            fr, _ = cover.fields_read(w, [fn_id], scope)
            fr |= {(a, x) for a, x in hirq.field_reads(f['body'])}
            for fld in fields:
                ck.record('C02.R4', f'{short(adt_id)}.{fld}|{what}', (adt_id, fld) in fr, f'{what} by {short(fn_id)}',
                          f'{adt_id}.{fld} is read from the proof but never {what} ({fn_id} does not touch it): the prover can choose it freely',
                          hirq.fn_loc(f))


def r5_copy(ck, w):
    ck.rule('C02.R5', 'copy constraints (incl. to instance and constant cells) go through the permutation assembly in keygen and in the mock checker')
    tgt = P + 'permutation::keygen::Assembly::copy'
    w.mir_body(tgt)
    for nid in ('<midnight_proofs::plonk::keygen::Assembly as midnight_proofs::plonk::circuit::Assignment>::copy',
                '<midnight_proofs::dev::MockProver as midnight_proofs::plonk::circuit::Assignment>::copy'):
        b = w.mir_body(nid)
        # success paths that skip the copy are accepted only through the `in_phase(FirstPhase)` test (later phases re-run synthesis)
        sites = [i for i, _ in mc.call_blocks(b, lambda c, t: c == tgt)]
        phase_tests = []
        for i, blk in enumerate(b['blocks']):
            t = blk['t']
            if t.get('k') == 'switch':
                on = t['on']
                l = on if isinstance(on, int) else (on.get('p') if isinstance(on, dict) else None)
                if l is not None and any((c or '').endswith('::in_phase') for c in mc.local_def_chain(b, l)[1]):
                    phase_tests.append(i)
        ok = bool(sites) and not mc.success_reachable_avoiding(b, sites + phase_tests)
        ck.record('C02.R5', f'{short(nid)}:forwards', ok, 'forwards to permutation::keygen::Assembly::copy on every success path',
                  f'{nid} no longer records the copy constraint in the permutation argument', reach.loc(b))


def r7_cycle_walk(ck, w):
    """copy-constraint bookkeeping: a walk around a permutation cycle visits the whole cycle"""
    from ..core import walk, peel, expr_str, pat_bindings
    ck.rule('C02.R7', 'cycle walks in the permutation keygen: a `loop` that advances a cursor through the cycle table (`i = mapping[i]`) stops exactly when the '
                      'cursor itself is back at its start value (`i == start`, tested after the advance).  Stopping on `mapping[i] == start` leaves the last '
                      'cell of a merged cycle with a stale label; a later redundant copy then splits the cycle and the keys encode fewer equalities than '
                      'the circuit declared (mock and real back end share this code).')
    n_loops = 0
    for f in w.all_fns(['proofs']):
        if 'permutation' not in f['file'] or '::tests' in f['_nid']:
            continue
        for lp in [n for n in walk(f['body']) if n.get('k') == 'loop' and n.get('src') != 'while']:
            # cursor: a local assigned from an index expression rooted in a table and indexed by itself
            cursors = {}
            for n in walk(lp['body']):
                if n.get('k') == 'assign' and peel(n['lhs']).get('k') == 'local':
                    li = peel(n['lhs'])['i']
                    r = peel(n['rhs'])
                    if r.get('k') == 'index' and li in {x['i'] for x in walk(r) if x.get('k') == 'local'}:
                        cursors[li] = peel(n['lhs'])['n']
            if not cursors:
                continue
            n_loops += 1
            for li, name in cursors.items():
                conds = [peel(n['c']) for n in walk(lp['body']) if n.get('k') == 'if' and any(x.get('k') == 'break' for x in walk(n['a']))]
                ok = False
                why = 'no `break` condition found'
                for c in conds:
                    if c.get('k') == 'bin' and c.get('op') == '==':
                        a, b = peel(c['a']), peel(c['b'])
                        bare = [x for x in (a, b) if x.get('k') == 'local' and x['i'] == li]
                        other = [x for x in (a, b) if not (x.get('k') == 'local' and x['i'] == li)]
                        if bare and other and other[0].get('k') == 'local':
                            ok = True
                        else:
                            why = f'the loop stops on `{expr_str(c)[:60]}`, not on the cursor `{name}` itself returning to its start'
                ck.record('C02.R7', f'{f["_nid"]}|cursor:{name}', ok, f'stops when `{name}` is back at its start',
                          f'{f["_nid"]}: {why}: the walk ends one cell early (or late) and part of the cycle is not relabelled', hirq.fn_loc(f, lp))
    ck.floor('C02.R7', 'cycle-walk loops in the permutation keygen', n_loops, 1)


VERIFIER_FNS = ('midnight_proofs::plonk::verifier::parse_trace', 'midnight_proofs::plonk::verifier::verify_algebraic_constraints')


def r8_instance_bound(ck, w, rule='C02.R8'):
    """public inputs beyond the domain are refused"""
    from ..engines import taint
    from ..core import walk, callee
    ck.rule(rule, 'public-input values: the verifier evaluates the instance columns through Lagrange polynomials taken modulo the domain size, so entry n of a '
                  'column would be added to row 0 (a proof for pi[0] = 12 verifies for pi = [5, 0, .., 0, 7]).  parse_trace and verify_algebraic_constraints — both '
                  'public entry points — leave with an error when a plain instance column is longer than the usable rows: an escaping conditional whose condition '
                  'depends on a column length and on ConstraintSystem::blinding_factors (the bound the prover enforces with InstanceTooLarge).')
    for nid in VERIFIER_FNS:
        f = w.fn(nid, required=False)
        if f is None:
            ck.bad(rule, f'{short(nid)}:anchor', f'{nid} not found (anchor)')
            continue
        ok = False
        for x in walk(f['body']):
            if x.get('k') != 'if' or not taint.diverges(x['a']):
                continue
            deps = hir_cond_deps(f['body'], x['c'])
            if any(d.endswith('::blinding_factors') for d in deps) and any(d.endswith('::len') for d in deps):
                ok = True
        ck.record(rule, f'{short(nid)}:bounds-instance-columns', ok, 'an escaping conditional compares the column lengths with the usable rows',
                  f'{nid} accepts instance columns of any length: entries beyond the domain are folded onto the first rows and a proof is accepted for public inputs '
                  f'that differ from the witnessed ones', hirq.fn_loc(f))


def hir_cond_deps(body, cond):
    """callees mentioned by a condition, following `let` bindings of the enclosing body (closures included)"""
    from ..core import walk, callee, pat_bindings
    lets = {}
    for x in walk(body):
        if x.get('k') == 'let' and 'init' in x:
            for b in pat_bindings(x['pat']):
                lets[b['i']] = x['init']
    out, seen, stack = set(), set(), [cond]
    while stack:
        n = stack.pop()
        for y in walk(n):
            if y.get('k') in ('call', 'mcall'):
                out.add(callee(y) or '')
            if y.get('k') == 'local' and y.get('i') in lets and y['i'] not in seen:
                seen.add(y['i'])
                stack.append(lets[y['i']])
    return out


def r9_instance_padding(ck, w, rule='C02.R9'):
    """prover, mock checker and verifier agree on the padding of the public inputs"""
    from ..core import walk, callee
    ck.rule(rule, 'the public inputs are zero-padded: the verifier sums over the provided entries only, MockProver::query_instance answers Padding = 0, and create_proof '
                  'documents it.  WitnessCollection::query_instance (what assign_advice_from_instance reads while proving) therefore defaults a usable row after the '
                  'provided entries (unwrap_or / map_or / unwrap_or_default on the element lookup) instead of turning the missing element into an error: otherwise '
                  'an assignment the mock checker accepts cannot be proven.')
    fs = [f for f in w.all_fns(['proofs']) if f['_xid'].endswith('::query_instance') and 'WitnessCollection' in f['_xid']]
    if not fs:
        ck.bad(rule, 'WitnessCollection::query_instance:anchor', 'WitnessCollection::query_instance not found (anchor)')
    for f in fs:
        calls = [callee(c) or '' for c in hirq.calls(f['body'])]
        elem = any(c.endswith('::get') for c in calls)
        dflt = any(c.endswith(('Option::unwrap_or', 'Option::unwrap_or_default', 'Option::map_or', 'Option::unwrap_or_else', 'Option::map_or_else')) for c in calls)
        ck.record(rule, 'WitnessCollection::query_instance:pads', elem and dflt, 'a missing row of an existing column reads as zero',
                  f'{f["_nid"]} looks the row up (get: {elem}) but does not default a missing element (default: {dflt}): rows after the provided public inputs '
                  f'fail with BoundsFailure although the mock checker and the verifier read them as zero', hirq.fn_loc(f))


def r10_mock_report(ck, w, rule='C02.R10'):
    """the mock checker returns its failures"""
    from ..core import walk, callee
    ck.rule(rule, 'MockProver::verify promises a Result: the helper of dev/util.rs that renders the cells of a violated gate (cell_value, closures included) contains no '
                  'panicking macro (unreachable!/panic!/unwrap).  A violated gate may query a poisoned cell of a blinding row whose contribution was cancelled by '
                  'a zero factor; rendering it must not abort the report.')
    n = 0
    for f in w.all_fns(['proofs']):
        if not f['file'].endswith('dev/util.rs') or f.get('name') != 'cell_value' or '::tests' in f['_nid']:
            continue
        n += 1
        pan = sorted({short(callee(c) or '') for c in hirq.calls(f['body']) if (callee(c) or '').startswith(('core::panicking::', 'std::rt::begin_panic', 'core::panic'))
                      or (callee(c) or '').endswith(('Option::unwrap', 'Result::unwrap', 'Option::expect', 'Result::expect'))})
        ck.record(rule, f'{f["_nid"]}:no-panic', not pan, 'renders every queried cell without panicking',
                  f'{f["_nid"]} contains {pan}: MockProver::verify aborts instead of returning ConstraintNotSatisfied when a violated gate also queries a '
                  f'cancelled blinding-row cell', hirq.fn_loc(f))
    ck.floor(rule, 'cell renderers', n, 1)
