"""C03 — a proof is accepted only for the exact statement and bytes it was made for.
Structural clauses decided (see DESIGN.md §4 C03)."""
import re
from ..core import norm, callee, walk, mir_callee, AnchorMissing, short, pat_bindings
from ..engines import mustcall as mc, reach, hirq
from .. import tables

T = 'midnight_proofs::transcript::'
CT = '<midnight_proofs::transcript::CircuitTranscript as midnight_proofs::transcript::Transcript>::'


def run(ck):
    w = ck.world()
    ck.explanation = (
        'Static rules over HIR/MIR of the current tree: (R1) CircuitTranscript::read/write absorb what they decode/emit; '
        '(R2) no raw access to the proof cursor or to Hashable::read from verifier-reachable code; (R3) every Hashable::read '
        'impl reaches the canonical/on-curve/subgroup validators and turns CtOption into Err; (R4) the vk transcript '
        'representative covers domain, fixed commitments, permutation commitments and every non-excluded ConstraintSystem field; '
        '(R5) every owner of a proof transcript that calls prepare() calls assert_empty() on all success paths; '
        '(R6) public-input count is compared EXACTLY (!=) with the key before prepare(); (R7) Fiat–Shamir statement binding: key identity and instances are '
        'absorbed before the first challenge; in R3 also: the buffer filled by read_exact is decoded unmodified.  These are necessary conditions of the property; '
        'collision resistance and the pairing algebra are not decided.')
    r1_absorb(ck, w)
    from . import c01
    c01.golden_rule(ck, w, 'C03.R9', 'A challenge squeezed before a message it must bind (e.g. the batching challenge x4 before the evaluations at x3) leaves that '
                    'message malleable: a different proof string is accepted for the same statement, although prover, verifier and in-circuit verifier agree with each other.')
    r2_raw_cursor(ck, w)
    r3_checked_decoders(ck, w)
    r4_vk_identity(ck, w)
    r5_trailing_bytes(ck, w)
    r6_pi_count(ck, w)
    r8_per_proof_shapes(ck, w)
    from ..engines import fsbind
    ck.rule('C03.R7', 'Fiat–Shamir statement binding: in the prover (compute_trace) and the verifier (parse_trace) the verifying-key identity, the committed '
                      'instances, the instance lengths and values are absorbed before the first challenge is squeezed')
    fsbind.check(ck, w, 'C03.R7', ['midnight_proofs::plonk::prover::compute_trace', 'midnight_proofs::plonk::verifier::parse_trace'], 4)


# ---------------------------------------------------------------- R1
def r1_absorb(ck, w):
    ck.rule('C03.R1', 'CircuitTranscript::read absorbs (common) the decoded value on every success path; write absorbs '
                      'before emitting; common feeds to_input() into TranscriptHash::absorb')
    rd = w.mir_body(CT + 'read')
    res = mc.calls_after(rd, lambda c, t: c.endswith('Hashable::read'), lambda c, t: c.endswith('Transcript::common') or c == CT + 'common')
    ck.record('C03.R1', 'CircuitTranscript::read:decode-then-absorb', bool(res) and all(ok for _, _, ok in res),
              'Hashable::read is followed by common() on all success paths',
              'a success path of CircuitTranscript::read returns a decoded value that was not absorbed', reach.loc(rd))
    # the value absorbed is the value returned: the local passed to common is the one moved into Ok(..)
    wr = w.mir_body(CT + 'write')
    ok, _ = mc.must_call(wr, lambda c, t: c == CT + 'common' or c.endswith('Transcript::common'))
    ck.record('C03.R1', 'CircuitTranscript::write:absorb', ok, 'write() absorbs its input on all success paths',
              'CircuitTranscript::write has a success path that does not absorb the written element', reach.loc(wr))
    ok2, _ = mc.must_call(wr, lambda c, t: c.endswith('Hashable::to_bytes'))
    ck.record('C03.R1', 'CircuitTranscript::write:emit', ok2, 'write() serialises its input with Hashable::to_bytes',
              'CircuitTranscript::write does not serialise via Hashable::to_bytes on every success path', reach.loc(wr))
    cm = w.mir_body(CT + 'common')
    ok3, _ = mc.must_call(cm, lambda c, t: c.endswith('TranscriptHash::absorb'))
    ok4, _ = mc.must_call(cm, lambda c, t: c.endswith('Hashable::to_input'))
    ck.record('C03.R1', 'CircuitTranscript::common:absorb', ok3 and ok4, 'common() = state.absorb(input.to_input())',
              'CircuitTranscript::common no longer absorbs to_input() of its argument on every path', reach.loc(cm))
    sq = w.mir_body(CT + 'squeeze_challenge')
    ok5, _ = mc.must_call(sq, lambda c, t: c.endswith('TranscriptHash::squeeze'))
    ck.record('C03.R1', 'CircuitTranscript::squeeze_challenge:squeeze', ok5, 'challenge derived from state.squeeze()',
              'squeeze_challenge does not squeeze the hash state', reach.loc(sq))
    # HIR: read() returns the same local it absorbed
    f = w.fn(CT + 'read')
    absorbed = set()
    for n in hirq.calls(f['body']):
        if n.get('m') == 'common' or (callee(n) or '').endswith('::common'):
            for a in n.get('args', []):
                absorbed |= hirq.locals_used(a)
    returned = set()
    for n in walk(f['body']):
        if n.get('k') == 'call' and n.get('dk') == 'Ctor' and norm(n.get('f', '')).endswith('Result::Ok'):
            for a in n.get('args', []):
                returned |= hirq.locals_used(a)
    ck.record('C03.R1', 'CircuitTranscript::read:same-value', bool(absorbed & returned),
              'value returned by read() is the value absorbed', 'read() returns a value different from the one it absorbed',
              hirq.fn_loc(f))


# ---------------------------------------------------------------- R2
VERIFIER_ROOTS = [
    'midnight_proofs::plonk::verifier::prepare',
    'midnight_proofs::plonk::verifier::parse_trace',
    'midnight_proofs::plonk::verifier::verify_algebraic_constraints',
    'midnight_zk_stdlib::verify',
    'midnight_zk_stdlib::batch_verify',
    'midnight_zk_stdlib::utils::plonk_api::BlstPLONK::verify',
    'midnight_aggregator::light_aggregator::LightAggregator::verify',
    'midnight_aggregator::inner_product_argument::ipa_verify',
]


def r2_raw_cursor(ck, w):
    ck.rule('C03.R2', 'who-may-call: CircuitTranscript::buffer (raw cursor) is never called in verifier-reachable code and '
                      'Hashable::read is called only from CircuitTranscript::read (so every decoded element is absorbed)')
    for r in VERIFIER_ROOTS:
        w.mir_body(r)  # anchors must exist
    par = reach.closure(w, VERIFIER_ROOTS)
    ck.count('verifier-reachable workspace bodies', sum(1 for x in par if x in w.mir_index()))
    ck.floor('C03.R2', 'verifier-reachable bodies', sum(1 for x in par if x in w.mir_index()), 150)
    buf = 'midnight_proofs::transcript::CircuitTranscript::buffer'
    w.mir_body(buf)
    hits = [x for x in reach.callers_of(w, lambda c: c == buf) if x[0] in par]
    for nid, bi, t, c in hits:
        ck.bad('C03.R2', f'raw-cursor:{nid}', f'{nid} (verifier-reachable via {" -> ".join(map(short, w.callgraph().path_to(par, nid)))}) '
               f'calls CircuitTranscript::buffer: proof bytes can be consumed without being absorbed', reach.loc(w.mir_body(nid), t))
    if not hits:
        ck.ok('C03.R2', 'raw-cursor', f'0 calls of CircuitTranscript::buffer in {len(par)} verifier-reachable bodies')
    # positive control: the accessor exists and the matcher recognises a call of it somewhere in the workspace or not at all
    allbuf = reach.callers_of(w, lambda c: c == buf)
    ck.count('buffer() call sites in all lib code', len(allbuf))
    hr = reach.callers_of(w, lambda c: c.endswith('Hashable::read') or ('Hashable for' in c and c.endswith('::read')))
    ck.floor('C03.R2', 'Hashable::read call sites', len(hr), 1)
    allowed = {CT + 'read'}
    for nid, bi, t, c in hr:
        base = reach.parent_fn(nid)
        # an impl of Hashable::read may delegate to another impl of Hashable::read
        deleg = ('Hashable for' in base and base.endswith('::read'))
        ck.record('C03.R2', f'hashable-read-caller:{nid}', base in allowed or deleg,
                  'Hashable::read called from CircuitTranscript::read / delegating impl',
                  f'{nid} decodes a proof element with Hashable::read directly, bypassing CircuitTranscript::read (not absorbed)',
                  reach.loc(w.mir_body(nid), t))


# ---------------------------------------------------------------- R3
def r3_checked_decoders(ck, w):
    ck.rule('C03.R3', 'CHECKED: each Hashable::read impl reaches the validators of its type (points: is_on_curve and '
                      'is_torsion_free via from_compressed; scalars: blst_scalar_fr_check via from_bytes_le; u32: fixed width) '
                      'and maps a failed CtOption to Err (no unwrap/expect)')
    impls = [f for k, v in w.impl_index().items() if k.endswith('transcript::Hashable::read') for f in v]
    ck.floor('C03.R3', 'Hashable::read impls', len(impls), 7)
    cg = w.callgraph()
    for nid in sorted(impls):
        b = w.mir_body(nid)
        par = cg.reachable([nid])
        if 'G1Projective' in nid or 'G1Affine' in nid or 'bn256::curve::G1' in nid:
            need = {'is_on_curve': lambda x: x.endswith('::is_on_curve'),
                    'is_torsion_free': lambda x: x.endswith('::is_torsion_free')}
            if 'bn256' in nid:
                need.pop('is_torsion_free')
        elif nid.endswith('Hashable for u32>::read'):
            need = {'u32::from_le_bytes': lambda x: x.endswith('from_le_bytes')}
        else:
            need = {'canonical scalar check (blst_scalar_fr_check / from_repr)': lambda x: x.endswith('blst_scalar_fr_check') or x.endswith('::is_less_than_modulus') or x.endswith('ct_lt')}
        for name, p in need.items():
            found = [x for x in par if p(x)]
            ck.record('C03.R3', f'{short(nid)}|{nid.split("::")[0]}:{name}', bool(found),
                      f'reaches {name}', f'{nid} no longer reaches {name}: proof elements of this type are decoded unchecked', reach.loc(b))
        unchecked = [x for x in par if x.endswith('_unchecked') and not any(y.endswith('from_compressed') and x in cg.edges.get(y, ()) for y in par)]
        ck.record('C03.R3', f'{short(nid)}|{nid.split("::")[0]}:no-unchecked', not unchecked,
                  'no *_unchecked decoder reachable except through its checked wrapper',
                  f'{nid} reaches unchecked decoder(s) {unchecked} outside the checked wrapper', reach.loc(b))
        # no unwrap/expect of the decoded option in the impl's own bodies
        own = [x for x in par if x == nid or x.startswith(nid + '::{closure')]
        unwraps = []
        for x in own:
            for bi, t in mc.call_blocks(w.mir_body(x), lambda c, t: any(c.endswith(s) for s in ('Option::unwrap', 'Option::expect', 'Result::unwrap', 'Result::expect', 'CtOption::unwrap', 'CtOption::expect'))):
                unwraps.append((x, t))
        ck.record('C03.R3', f'{short(nid)}|{nid.split("::")[0]}:no-unwrap', not unwraps,
                  'decoder failure is returned as Err', f'{nid} unwraps a decoding result (panic instead of Err)', reach.loc(b))

    # the decoder validates exactly the bytes it read: the buffer filled by read_exact is not written again before it is decoded
    MUTATORS = {'as_mut', 'as_mut_slice', 'last_mut', 'first_mut', 'iter_mut', 'get_mut', 'reverse', 'fill', 'copy_from_slice', 'swap', 'split_at_mut',
                'chunks_mut', 'rotate_left', 'rotate_right', 'sort', 'clone_from_slice'}
    for nid in sorted(impls):
        for f in w.fns_x_of(nid):
            bufs = {}
            for n in hirq.calls(f['body']):
                if n.get('m') == 'read_exact' or (callee(n) or '').endswith('::read_exact'):
                    for a in n.get('args', []):
                        for x in walk(a):
                            if x.get('k') == 'local':
                                bufs[x['i']] = x['n']
            for li, name in bufs.items():
                writes = 0
                for n in walk(f['body']):
                    k = n.get('k')
                    if k == 'ref' and n.get('mut') and any(x.get('k') == 'local' and x['i'] == li for x in walk(n['e'])):
                        writes += 1
                    elif k == 'mcall' and n.get('m') in MUTATORS and any(x.get('k') == 'local' and x['i'] == li for x in walk(n['recv'])):
                        writes += 1
                    elif k in ('assign', 'assignop') and any(x.get('k') == 'local' and x['i'] == li for x in walk(n['lhs'])):
                        writes += 1
                ck.record('C03.R3', f'{f["_xid"]}|{name}:read-once', writes == 1, 'the buffer is written by read_exact only',
                          f'{f["_xid"]}: the buffer `{name}` filled by read_exact is written {writes} times: bytes are altered between reading and decoding, so '
                          f'several byte strings decode to the same element (the transcript absorbs the re-encoding, not the bytes read)', hirq.fn_loc(f))


# ---------------------------------------------------------------- R4
CS = 'midnight_proofs::plonk::circuit::ConstraintSystem'
PCS = 'midnight_proofs::plonk::circuit::PinnedConstraintSystem'
VK = 'midnight_proofs::plonk::VerifyingKey'


def r4_vk_identity(ck, w):
    ck.rule('C03.R4', 'COVER: VerifyingKey::from_parts feeds k, every fixed commitment, every permutation commitment, the pinned '
                      'domain and the pinned constraint system into the hashed buffer, hashes that buffer and stores the result; '
                      'ConstraintSystem::pinned covers every field not in the exclusion table; PinnedConstraintSystem::fmt prints every field; '
                      'hash_into absorbs transcript_repr; parse_trace / compute_trace call hash_into first')
    f = w.fn(VK + '::from_parts')
    body = f['body']
    # sinks into the local named by the hasher.update argument
    upd = [n for n in hirq.calls(body) if n.get('m') == 'update']
    ck.record('C03.R4', 'from_parts:hasher.update', len(upd) >= 1, 'hasher.update(&buffer) present',
              'from_parts no longer feeds the serialised key into the hasher', hirq.fn_loc(f))
    buf_locals = set()
    for n in upd:
        for a in n.get('args', []):
            buf_locals |= hirq.locals_used(a)
    fed = set()       # field names of VerifyingKey whose data reaches the buffer
    fed_calls = set()
    def feeds(n):
        # n is a call that has a buffer local among receiver/args
        for x in walk(n):
            if x.get('k') == 'field':
                fed.add(x['n'])
            if x.get('k') in ('call', 'mcall') and 'f' in x:
                fed_calls.add(callee(x))
    def visit(node, loop_heads):
        for n in walk(node, True):
            pass
    # collect: every call whose receiver root or any argument mentions a buffer local
    def collect(node, heads):
        k = node.get('k')
        if k == 'for':
            collect(node['iter'], heads)
            collect(node['body'], heads + [node['iter']])
            return
        if k in ('call', 'mcall') and 'f' in node:
            used = hirq.locals_used(node)
            if used & buf_locals:
                feeds(node)
                for h in heads:
                    feeds(h)
        from ..core import children
        for c in children(node):
            collect(c, heads)
    collect(body, [])
    need = {
        'domain': ('domain' in fed) or any((c or '').endswith('get_domain') for c in fed_calls),
        'fixed_commitments': 'fixed_commitments' in fed,
        'permutation': ('permutation' in fed),
        'cs': ('cs' in fed) or any((c or '').endswith('VerifyingKey::cs') for c in fed_calls),
    }
    for k, v in need.items():
        ck.record('C03.R4', f'from_parts:covers:{k}', v, f'{k} reaches the hashed buffer',
                  f'VerifyingKey::from_parts no longer hashes `{k}` into the transcript representative: two keys differing there share an identity',
                  hirq.fn_loc(f))
    pinned_calls = [c for c in fed_calls if c and c.endswith('::pinned')]
    ck.record('C03.R4', 'from_parts:pinned-views', len(pinned_calls) >= 2, f'pinned views hashed: {sorted(map(short, pinned_calls))}',
              'from_parts hashes fewer than two pinned views (domain and constraint system expected)', hirq.fn_loc(f))
    # transcript_repr assigned from the hasher
    assigned = False
    for n in walk(body):
        if n.get('k') == 'assign' and n['lhs'].get('k') == 'field' and n['lhs']['n'] == 'transcript_repr':
            if any((callee(c) or '').endswith('finalize') or c.get('m') == 'finalize' for c in hirq.calls(n['rhs'])):
                assigned = True
    ck.record('C03.R4', 'from_parts:repr-from-hash', assigned, 'transcript_repr := from_uniform_bytes(hasher.finalize())',
              'transcript_repr is not assigned from the hash of the key material', hirq.fn_loc(f))
    # hash_into absorbs transcript_repr
    hi = w.fn(VK + '::hash_into')
    ok = any(n.get('m') == 'common' and ('VerifyingKey', 'transcript_repr') in {(a or '').rsplit('::', 1)[-1:][0] and (a.rsplit('::', 1)[-1], fld) for a, fld in hirq.field_reads(n)} for n in hirq.calls(hi['body']))
    ck.record('C03.R4', 'hash_into:absorbs-repr', ok, 'hash_into = transcript.common(&self.transcript_repr)',
              'VerifyingKey::hash_into does not absorb transcript_repr', hirq.fn_loc(hi))
    # hash_into is the first transcript operation of verifier and prover
    for fn_id in ('midnight_proofs::plonk::verifier::parse_trace', 'midnight_proofs::plonk::prover::compute_trace'):
        g = w.fn(fn_id)
        first = None
        for n in walk(g['body']):
            if n.get('k') in ('call', 'mcall') and 'f' in n:
                c = callee(n) or ''
                if c.endswith('hash_into'):
                    first = first or 'hash_into'
                elif (c.startswith(T + 'Transcript::') or c.endswith('::read_n') or 'transcript' in [x['n'] for x in walk(n) if x.get('k') == 'local' and x['n'] == 'transcript'][:1]) and not c.endswith('hash_into'):
                    if c.startswith(T + 'Transcript::') or c.endswith('read_n'):
                        first = first or c
        ck.record('C03.R4', f'{short(fn_id)}:vk-first', first == 'hash_into', 'vk representative absorbed before any other transcript operation',
                  f'{fn_id}: first transcript operation is {first}, not vk.hash_into', hirq.fn_loc(g))
    # pinned() covers the fields
    p = w.fn(CS + '::pinned')
    adt = w.adt(CS)
    fields = [fd['name'] for fd in adt['variants'][0]['fields']]
    ck.floor('C03.R4', 'ConstraintSystem fields', len(fields), 19)
    read = {fld for a, fld in hirq.field_reads(p['body']) if a == CS}
    excl = tables.C03_PINNED_EXCLUSIONS
    for fld in fields:
        if fld in excl:
            ck.ok('C03.R4', f'pinned:excluded:{fld}', excl[fld], nontrivial=False)
            continue
        ck.record('C03.R4', f'pinned:covers:{fld}', fld in read, 'field is part of the pinned view',
                  f'ConstraintSystem::{fld} is not part of the pinned view that the vk identity hashes (and is not in the exclusion table)',
                  hirq.fn_loc(p))
    # fmt prints every destructured field
    fm = [g for g in w.all_fns(['proofs']) if g['name'] == 'fmt' and g.get('impl', {}).get('trait', '').endswith('fmt::Debug') and hirq.ty_adt(g['impl']['self']) == PCS]
    if not fm:
        raise AnchorMissing('Debug impl of PinnedConstraintSystem')
    g = fm[0]
    padt = w.adt(PCS)
    pfields = [fd['name'] for fd in padt['variants'][0]['fields']]
    printed = set()
    for n in hirq.calls(g['body']):
        if n.get('m') == 'field':
            for a in n.get('args', [])[1:]:
                printed |= hirq.local_names_used(a)
                printed |= {fld for _, fld in hirq.field_reads(a)}
    for fld in pfields:
        ck.record('C03.R4', f'pinned-fmt:prints:{fld}', fld in printed, 'field printed by Debug',
                  f'PinnedConstraintSystem::fmt does not print `{fld}`: it is silently excluded from the vk identity', hirq.fn_loc(g))


# ---------------------------------------------------------------- R5
def r5_trailing_bytes(ck, w):
    ck.rule('C03.R5', 'must-call: every body that creates a transcript from proof bytes (init_from_bytes) and calls '
                      'plonk::verifier::prepare reaches Transcript::assert_empty on every success path after prepare')
    prep = 'midnight_proofs::plonk::verifier::prepare'
    sites = reach.callers_of(w, lambda c: c == prep)
    owners = []
    for nid, bi, t, c in sites:
        b = w.mir_body(nid)
        if mc.call_blocks(b, lambda c, t: c.endswith('::init_from_bytes')):
            owners.append(nid)
    ck.floor('C03.R5', 'proof-transcript owners calling prepare', len(set(owners)), 2)
    for nid in sorted(set(owners)):
        b = w.mir_body(nid)
        if re.sub(r'\{closure#\d+\}', '{closure}', nid) in tables.C03_PREPARE_OWNER_EXEMPT:
            ck.ok('C03.R5', f'exempt:{nid}', tables.C03_PREPARE_OWNER_EXEMPT[re.sub(r'\{closure#\d+\}', '{closure}', nid)], nontrivial=False)
            continue
        res = mc.calls_after(b, lambda c, t: c == prep, lambda c, t: c.endswith('::assert_empty'))
        ck.record('C03.R5', f'assert_empty-after-prepare:{nid}', bool(res) and all(ok for _, _, ok in res),
                  'assert_empty() post-dominates prepare() on success paths',
                  f'{nid}: a success path after prepare() returns without assert_empty(): trailing proof bytes are accepted', reach.loc(b))
    # the transcript whose emptiness is asserted must be the one handed to prepare() (HIR: same local)
    for nid in sorted(set(owners)):
        if re.sub(r'\{closure#\d+\}', '{closure}', nid) in tables.C03_PREPARE_OWNER_EXEMPT:
            continue
        f = w.fn(reach.parent_fn(nid))
        scope = f['body']
        if '{closure' in nid:
            clos = [n for n in walk(f['body']) if n.get('k') == 'closure' and norm(n['id']) == nid]
            scope = clos[0]['body'] if clos else f['body']
        prep_locals, ae_locals = set(), set()
        for n in hirq.calls(scope):
            c = callee(n) or ''
            if c == prep:
                for a in n.get('args', []):
                    r = hirq.recv_root(a)
                    if r.get('k') == 'local' and 'Transcript' in (r.get('t') or ''):
                        prep_locals.add(r['i'])
            if n.get('m') == 'assert_empty' or c.endswith('::assert_empty'):
                r = hirq.recv_root(n.get('recv') or (n.get('args') or [{}])[0])
                if r.get('k') == 'local':
                    ae_locals.add(r['i'])
        ck.record('C03.R5', f'assert_empty-same-transcript:{nid}', bool(prep_locals) and bool(prep_locals & ae_locals),
                  'assert_empty() is called on the transcript that prepare() consumed',
                  f'{nid}: assert_empty() is called on a different transcript than the one prepare() read the proof from: trailing proof bytes go unnoticed',
                  hirq.fn_loc(f))
    ae = w.mir_body(CT + 'assert_empty')
    has_err = any(mc.is_err_exit(blk) for blk in ae['blocks'])
    uses_pos = bool(mc.call_blocks(ae, lambda c, t: c.endswith('Cursor::position'))) and bool(mc.call_blocks(ae, lambda c, t: c.endswith('::len')))
    ck.record('C03.R5', 'assert_empty:compares-position', has_err and uses_pos, 'assert_empty compares cursor position with buffer length and can fail',
              'CircuitTranscript::assert_empty no longer compares position with length / cannot return Err', reach.loc(ae))


# ---------------------------------------------------------------- R6
def r6_pi_count(ck, w):
    ck.rule('C03.R6', 'GUARD: in zk_stdlib::verify and in the per-member closure of batch_verify, a conditional on '
                      'pi.len() vs vk.nb_public_inputs with an Err arm dominates the call that verifies/prepares')
    cases = [('midnight_zk_stdlib::verify', lambda c: c.endswith('BlstPLONK::verify')),
             (w.closure_calling('midnight_zk_stdlib::batch_verify', lambda c: c == 'midnight_proofs::plonk::verifier::prepare'),
              lambda c: c == 'midnight_proofs::plonk::verifier::prepare')]
    for nid, target in cases:
        b = w.mir_body(nid)
        tg = mc.call_blocks(b, lambda c, t: target(c))
        if not tg:
            ck.bad('C03.R6', f'pi-count:{nid}:anchor', f'{nid} no longer calls the verification routine (anchor)', reach.loc(b))
            continue
        def gp(i, blk):
            on = blk['t']['on']
            l = on if isinstance(on, int) else on.get('p') if isinstance(on, dict) else None
            if l is None:
                return False
            locs, cal, flds, consts = mc.local_def_chain(b, l)
            return ('midnight_zk_stdlib::MidnightVK', 'nb_public_inputs') in flds and any((c or '').endswith('::len') for c in cal)
        guards = mc.guard_between(b, gp, tg[0][0])
        ck.record('C03.R6', f'pi-count:{nid}', bool(guards), 'pi.len() != vk.nb_public_inputs → Err dominates verification',
                  f'{nid}: the public-input count is no longer compared with vk.nb_public_inputs before verification', reach.loc(b))
    pi_count_exact(ck, w, 'C03.R6')


def pi_count_exact(ck, w, rule):
    """the public-input count guard is an (in)equality, not an ordering"""
    from ..core import peel, expr_str
    n = 0
    for nid in ('midnight_zk_stdlib::verify', 'midnight_zk_stdlib::batch_verify'):
        f = w.fn(nid, required=False)
        if f is None:
            ck.bad(rule, f'pi-count-exact:{nid}:anchor', f'{nid} not found (anchor)')
            continue
        for x in walk(f['body']):
            if x.get('k') != 'bin' or x.get('op') not in ('==', '!=', '<', '<=', '>', '>='):
                continue
            sides = [peel(x['a']), peel(x['b'])]
            has_len = any(s_.get('k') == 'mcall' and s_.get('m') == 'len' for s_ in sides)
            has_cnt = any(s_.get('k') == 'field' and s_.get('n') == 'nb_public_inputs' for s_ in sides)
            if has_len and has_cnt:
                n += 1
                ck.record(rule, f'pi-count-exact:{nid}', x['op'] in ('!=', '=='), f'`{expr_str(x)[:60]}` is an exact comparison',
                          f'{nid}: the public-input count is compared with `{x["op"]}` (`{expr_str(x)[:70]}`): the verifier must insist on EXACTLY the number of raw '
                          f'public inputs recorded at key generation — instance rows no copy constraint touches are unconstrained, so a longer vector verifies',
                          hirq.fn_loc(f, x))
    ck.floor(rule, 'public-input count comparisons', n, 2)


def r8_per_proof_shapes(ck, w):
    """the per-proof slices of the statement have the same number of proofs"""
    from ..core import peel, pat_bindings
    from ..engines import taint
    ck.rule('C03.R8', 'parse_trace receives two per-proof slices (committed instances, plain instances), derives the number of proofs from ONE of them and walks '
                      'them with `zip`, which stops at the shorter: an escaping conditional must compare their lengths, otherwise a statement with surplus vectors '
                      'on one side is accepted with the surplus silently ignored (and, the other way round, surplus proofs lose their opening queries)')
    f = w.fn('midnight_proofs::plonk::verifier::parse_trace', required=False)
    if f is None:
        ck.bad('C03.R8', 'parse_trace:anchor', 'parse_trace not found (anchor)')
        return
    ids = {b['n']: b['i'] for p in f['params'] for b in pat_bindings(p)}
    need = {ids.get('committed_instances'), ids.get('instances')}
    ok = False
    from ..core import alias_roots
    al = alias_roots(f['body'])
    need = {al.get(i, i) for i in need}
    for n in walk(f['body']):
        if n.get('k') == 'if' and taint.diverges(n['a']):
            c = peel(n['c'])
            if c.get('k') == 'bin' and c.get('op') == '!=':
                sides = [peel(c['a']), peel(c['b'])]
                roots = set()
                for s_ in sides:
                    if s_.get('k') == 'mcall' and s_.get('m') == 'len':
                        r = peel(s_['recv'])
                        if r.get('k') == 'local':
                            roots.add(al.get(r['i'], r['i']))
                if None not in need and roots == need:
                    ok = True
    ck.record('C03.R8', 'parse_trace:same-number-of-proofs', ok, 'committed_instances.len() != instances.len() is refused',
              'parse_trace never compares committed_instances.len() with instances.len(): the per-proof slices are zipped and the surplus of the longer one is ignored',
              hirq.fn_loc(f))
