"""C11 — curve types: the decoder clause only (checked decoders reject off-curve / out-of-subgroup / non-canonical encodings)."""
from ..core import norm, short, walk, callee
from ..engines import checked, hirq
from .. import tables


def run(ck):
    w = ck.world()
    ck.explanation = (
        'Decides only the decoder clause: compressed decoding reaches on-curve and torsion-free checks (G1, G2), uncompressed decoding reaches on-curve (G1) / '
        'on-curve+torsion (G2), GroupEncoding::from_bytes goes through the checked decoder, raw decoding goes through the checked uncompressed decoder, '
        'coordinate constructors check the curve equation, Jubjub subgroup decoding reaches the torsion test, and no checked decoder unwraps. '
        'The group law, mixed additions and coordinate-system consistency are numerical and NOT decided.')
    ck.rule('C11.R1', 'CHECKED(curve decoders): call closure contains the listed validators, results live, no unwrap')
    n = checked.check_rows(ck, w, 'C11.R1', tables.C11_DECODERS)
    ck.floor('C11.R1', 'decoder/validator obligations', n, 25)
    ck.rule('C11.R2', 'a checked decoder strictly adds validators to its unchecked twin (the twin\'s closure lacks them)')
    cg = w.callgraph()
    for chk, unchk, vals in tables.C11_TWINS:
        if w.mir_body(chk, required=False) is None or w.mir_body(unchk, required=False) is None:
            ck.bad('C11.R2', f'{chk}:anchor', f'twin pair ({chk}, {unchk}) not found (anchor)')
            continue
        pc, pu = cg.reachable([chk]), cg.reachable([unchk])
        for v in vals:
            in_c = any(x.endswith(v) for x in pc)
            in_u = any(x.endswith(v) for x in pu)
            ck.record('C11.R2', f'{chk}|adds:{v}', in_c and not in_u, f'{v} only in the checked decoder',
                      f'{v}: checked={in_c}, unchecked twin={in_u} — the checked decoder must add the validator the twin skips')
