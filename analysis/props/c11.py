"""C11 — curve types: the decoder clause only (checked decoders reject off-curve / out-of-subgroup / non-canonical encodings)."""
import re
from ..core import norm, short, walk, callee, mir_callee
from ..engines import checked, hirq
from .. import tables


def run(ck):
    w = ck.world()
    ck.explanation = (
        'Decides only the decoder clause: compressed decoding reaches on-curve and torsion-free checks (G1, G2), uncompressed decoding reaches on-curve (G1) / '
        'on-curve+torsion (G2), GroupEncoding::from_bytes goes through the checked decoder, raw decoding goes through the checked uncompressed decoder, '
        'coordinate constructors check the curve equation, Jubjub subgroup decoding reaches the torsion test, and no checked decoder unwraps. '
        'Of the group-law clause only the FFI discipline is decided (R3/R4): which blst point routine each G1/G2 operator delegates to — the complete add-or-double '
        'entry points, identically for the two sibling groups.  The arithmetic itself and coordinate-system consistency are numerical and NOT decided.')
    ck.rule('C11.R1', 'CHECKED(curve decoders): call closure contains the listed validators, results live, no unwrap')
    n = checked.check_rows(ck, w, 'C11.R1', tables.C11_DECODERS)
    ck.floor('C11.R1', 'decoder/validator obligations', n, 25)
    ck.rule('C11.R2', 'a checked decoder strictly adds validators to its unchecked twin (the twin\'s closure lacks them)')
    cg = w.callgraph()
    for chk, unchk, vals in tables.C11_TWINS:
        if w.mir_body(chk, required=False) is None or w.mir_body(unchk, required=False) is None:
            ck.bad('C11.R2', f'{chk}:anchor', f'twin pair ({chk}, {unchk}) not found (anchor)')
            continue
        pc, pu = cg.reachable([chk]), cg.reachable([unchk])
        for v in vals:
            in_c = any(x.endswith(v) for x in pc)
            in_u = any(x.endswith(v) for x in pu)
            ck.record('C11.R2', f'{chk}|adds:{v}', in_c and not in_u, f'{v} only in the checked decoder',
                      f'{v}: checked={in_c}, unchecked twin={in_u} — the checked decoder must add the validator the twin skips')

    # ------------------------------------------------------------------ R3 / R4: FFI discipline of the blst-backed groups
    ck.rule('C11.R3', 'sibling agreement G1 ~ G2: every function of bls12_381/g1.rs and its namesake in g2.rs delegate to the same blst point routines '
                      '(after renaming p1/p2, g1/g2); one-sided functions are tabled')
    ck.rule('C11.R4', 'complete-addition discipline: no workspace function calls an incomplete blst point addition (blst_p{1,2}_add, blst_p{1,2}_add_affine: '
                      'undefined for equal operands); every addition operator delegates to an add_or_double entry point')
    INCOMPLETE = re.compile(r'blst::blst_p[12]_add(_affine)?$')
    assert INCOMPLETE.search('blst::blst_p2_add_affine') and INCOMPLETE.search('blst::blst_p1_add') and not INCOMPLETE.search('blst::blst_p1_add_or_double_affine')
    ffi = {}
    nb = 0
    for nid0 in w.mir_index():
        for b in w.mir_bodies(nid0):
            if b['_crate'] != 'curves' or '::tests::' in b['_xid']:
                continue
            nb += 1
            for blk in b['blocks']:
                t = blk['t']
                if t.get('k') != 'call':
                    continue
                c = mir_callee(t) or ''
                if INCOMPLETE.search(c):
                    ck.bad('C11.R4', f'{b["_xid"]}|{short(c)}', f'{b["_xid"]} calls {c}, which is not defined for equal operands (P + P): the group law fails on the doubling case',
                           f'{b["file"]}:{b.get("line", 0)}')
                if re.match(r'(<)?blst::blst_p[12]\b|blst::blst_p[12]_', c) and 'bls12_381/g' in b['file']:
                    ffi.setdefault(b['_xid'], set()).add(c)
    ck.floor('C11.R4', 'curves MIR bodies scanned', nb, 1500)

    def gen(sx):
        return re.sub(r'\bG[12](Affine|Projective|Prepared|Compressed|Uncompressed)', r'GX\1', sx.replace('::g1::', '::gX::').replace('::g2::', '::gX::'))

    def genc(c):
        return re.sub(r'blst_p[12]', 'blst_pX', c).replace('_in_g1', '_in_gX').replace('_in_g2', '_in_gX')
    sides = {'1': {}, '2': {}}
    for x, cs in ffi.items():
        side = '1' if ('::g1::' in x) else '2'
        sides[side][gen(x)] = (x, {genc(c) for c in cs})
    nadd = 0
    for k in sorted(set(sides['1']) | set(sides['2'])):
        a, b2 = sides['1'].get(k), sides['2'].get(k)
        if a is None or b2 is None:
            only = (a or b2)[0]
            tab = tables.C11_ONE_SIDED.get(only)
            ck.record('C11.R3', f'{only}:one-sided', tab is not None, 'tabled: ' + str(tab),
                      f'{only} delegates to blst point routines but its sibling in the other group does not (or no longer exists): the two groups are maintained as twins')
            continue
        ck.record('C11.R3', f'{k}', a[1] == b2[1], f'both delegate to {sorted(short(c) for c in a[1])}',
                  f'{a[0]} delegates to {sorted(a[1])} but {b2[0]} delegates to {sorted(b2[1])}: sibling implementations of one operator must use the same routine')
        for x, cs in (a, b2):
            adds = [c for c in cs if '_add' in c]
            if adds:
                nadd += 1
                ck.record('C11.R4', f'{x}:add-or-double', all('add_or_double' in c for c in adds), 'delegates to the complete add-or-double routine',
                          f'{x} adds through {adds}: not the complete add-or-double routine')
    ck.floor('C11.R3', 'sibling pairs', len(set(sides['1']) & set(sides['2'])), 24)
    ck.floor('C11.R4', 'addition operators', nadd, 8)

    r5_unchecked(ck, w)
    r7_uncompressed_form(ck, w)
    from . import c10
    c10.eval_nesting(ck, w, 'C11', 'C11.N1')
    from ..engines import ziplint
    ck.rule('C11.R6', 'zip-truncated comparisons in the curves crate: equality over `zip(..).all(..)` also compares lengths or runs over fixed-size arrays (tables.ZIP_EQ_OK)')
    ziplint.check(ck, w, 'C11.R6', ['curves'], lambda file: True, tables.ZIP_EQ_OK, 1)


def unchecked_callers(w):
    """{unchecked decoder / constructor: set of callers} over all workspace crates (generic trait calls included)"""
    from ..core import last_seg
    tab = {}
    for nid0 in w.mir_index():
        for b in w.mir_bodies(nid0):
            if '::tests::' in b['_xid'] or '/tests' in b['file']:
                continue
            for blk in b['blocks']:
                t = blk['t']
                if t.get('k') != 'call':
                    continue
                c = mir_callee(t) or ''
                if last_seg(c).endswith('_unchecked') and not c.startswith(('core::', 'alloc::', 'std::')):
                    tab.setdefault(c, set()).add(b['_xid'].split('::{closure')[0])
    return tab


def r5_unchecked(ck, w, rule='C11.R5', crates=None, floor=30):
    import json, os
    from .. import facts
    ck.rule(rule, 'who may call an unchecked decoder / constructor (from_bytes_unchecked, from_compressed_unchecked, from_uncompressed_unchecked, '
                      'from_raw_bytes_unchecked, read_raw_unchecked, from_raw_unchecked, …): only the callers of rules/unchecked_callers.json — the checked '
                      'wrappers that validate afterwards, the *_unchecked twins themselves and the format-dispatching readers.  A new caller decodes '
                      'attacker-supplied bytes without the on-curve / subgroup / canonicity checks its checked sibling performs.')
    ref = json.load(open(os.path.join(facts.VERIF, 'rules', 'unchecked_callers.json')))
    cur = unchecked_callers(w)
    n = 0
    for c, callers in sorted(cur.items()):
        for x in sorted(callers):
            if crates is not None and not any(x.startswith(('midnight_' + c + '::', '<midnight_' + c + '::')) or ('midnight_' + c + '::') in x.split(' as ')[0] for c in crates):
                continue
            n += 1
            ck.record(rule, f'{x}|calls:{short(c)}', x in ref.get(c, []), 'tabled caller',
                      f'{x} calls the unchecked {c} and is not in the who-may-call table: the value it decodes skips the checks of the checked decoder')
    ck.floor(rule, 'unchecked call pairs', n, floor)


def r7_uncompressed_form(ck, w, rule='C11.R7'):
    """uncompressed decoders refuse inputs in compressed form"""
    from ..core import peel
    ck.rule(rule, 'blst_p1_deserialize / blst_p2_deserialize dispatch on the compression flag (0x80) of the first byte: with the flag set they DECOMPRESS the first '
                  'half of the input and ignore the second half.  Every function that hands an uncompressed-size buffer to them must test that flag first, '
                  'otherwise the checked RawBytes format accepts a compressed point (by-passing the subgroup check of the compressed decoder) followed by 48/96 '
                  'ignored bytes: the decoded key no longer re-serialises to its input')
    n = 0
    for f in w.all_fns(['curves']):
        if '::tests' in f['_nid'] or 'bls12_381/g' not in f['file']:
            continue
        if not any((callee(m) or '').endswith(('blst_p1_deserialize', 'blst_p2_deserialize')) for m in hirq.calls(f['body'])):
            continue
        n += 1
        flag = any(x.get('k') == 'bin' and x.get('op') == '&' and (peel(x['b']).get('v') in ('i:128',) or peel(x['a']).get('v') in ('i:128',)) for x in walk(f['body']))
        ck.record(rule, f'{f["_nid"]}:tests-compression-flag', flag, 'tests the compression flag before deserialising',
                  f'{f["_nid"]} hands the buffer to blst_p*_deserialize without testing the compression flag: a compressed encoding (plus ignored bytes) is accepted '
                  f'by the uncompressed / raw decoders', hirq.fn_loc(f))
    ck.floor(rule, 'uncompressed decoders', n, 2)
