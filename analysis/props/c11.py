"""C11 — curve types: the decoder clause only (checked decoders reject off-curve / out-of-subgroup / non-canonical encodings)."""
import re
from ..core import norm, short, walk, callee, mir_callee
from ..engines import checked, hirq
from .. import tables


def run(ck):
    w = ck.world()
    ck.explanation = (
        'Decides only the decoder clause: compressed decoding reaches on-curve and torsion-free checks (G1, G2), uncompressed decoding reaches on-curve (G1) / '
        'on-curve+torsion (G2), GroupEncoding::from_bytes goes through the checked decoder, raw decoding goes through the checked uncompressed decoder, '
        'coordinate constructors check the curve equation, Jubjub subgroup decoding reaches the torsion test, and no checked decoder unwraps. '
        'Of the group-law clause only the FFI discipline is decided (R3/R4): which blst point routine each G1/G2 operator delegates to — the complete add-or-double '
        'entry points, identically for the two sibling groups; (R8) the Jacobian accessors of the blst-backed groups hand the stored coordinates through; (R9) the blst point-array '
        'routines are never handed an empty slice and multi_exp bounds both arguments by the common length; (R10) decoders that delegate to a third-party parser '
        're-encode and compare.  The arithmetic itself is numerical and NOT decided.')
    ck.rule('C11.R1', 'CHECKED(curve decoders): call closure contains the listed validators, results live, no unwrap')
    n = checked.check_rows(ck, w, 'C11.R1', tables.C11_DECODERS)
    ck.floor('C11.R1', 'decoder/validator obligations', n, 25)
    ck.rule('C11.R2', 'a checked decoder strictly adds validators to its unchecked twin (the twin\'s closure lacks them)')
    cg = w.callgraph()
    for chk, unchk, vals in tables.C11_TWINS:
        if w.mir_body(chk, required=False) is None or w.mir_body(unchk, required=False) is None:
            ck.bad('C11.R2', f'{chk}:anchor', f'twin pair ({chk}, {unchk}) not found (anchor)')
            continue
        pc, pu = cg.reachable([chk]), cg.reachable([unchk])
        for v in vals:
            in_c = any(x.endswith(v) for x in pc)
            in_u = any(x.endswith(v) for x in pu)
            ck.record('C11.R2', f'{chk}|adds:{v}', in_c and not in_u, f'{v} only in the checked decoder',
                      f'{v}: checked={in_c}, unchecked twin={in_u} — the checked decoder must add the validator the twin skips')

    # ------------------------------------------------------------------ R3 / R4: FFI discipline of the blst-backed groups
    ck.rule('C11.R3', 'sibling agreement G1 ~ G2: every function of bls12_381/g1.rs and its namesake in g2.rs delegate to the same blst point routines '
                      '(after renaming p1/p2, g1/g2); one-sided functions are tabled')
    ck.rule('C11.R4', 'complete-addition discipline: no workspace function calls an incomplete blst point addition (blst_p{1,2}_add, blst_p{1,2}_add_affine: '
                      'undefined for equal operands); every addition operator delegates to an add_or_double entry point')
    INCOMPLETE = re.compile(r'blst::blst_p[12]_add(_affine)?$')
    assert INCOMPLETE.search('blst::blst_p2_add_affine') and INCOMPLETE.search('blst::blst_p1_add') and not INCOMPLETE.search('blst::blst_p1_add_or_double_affine')
    ffi = {}
    nb = 0
    for nid0 in w.mir_index():
        for b in w.mir_bodies(nid0):
            if b['_crate'] != 'curves' or '::tests::' in b['_xid']:
                continue
            nb += 1
            for blk in b['blocks']:
                t = blk['t']
                if t.get('k') != 'call':
                    continue
                c = mir_callee(t) or ''
                if INCOMPLETE.search(c):
                    ck.bad('C11.R4', f'{b["_xid"]}|{short(c)}', f'{b["_xid"]} calls {c}, which is not defined for equal operands (P + P): the group law fails on the doubling case',
                           f'{b["file"]}:{b.get("line", 0)}')
                if re.match(r'(<)?blst::blst_p[12]\b|blst::blst_p[12]_', c) and 'bls12_381/g' in b['file']:
                    ffi.setdefault(b['_xid'], set()).add(c)
    ck.floor('C11.R4', 'curves MIR bodies scanned', nb, 1500)

    def gen(sx):
        return re.sub(r'\bG[12](Affine|Projective|Prepared|Compressed|Uncompressed)', r'GX\1', sx.replace('::g1::', '::gX::').replace('::g2::', '::gX::'))

    def genc(c):
        return re.sub(r'blst_p[12]', 'blst_pX', c).replace('_in_g1', '_in_gX').replace('_in_g2', '_in_gX')
    sides = {'1': {}, '2': {}}
    for x, cs in ffi.items():
        side = '1' if ('::g1::' in x) else '2'
        sides[side][gen(x)] = (x, {genc(c) for c in cs})
    nadd = 0
    for k in sorted(set(sides['1']) | set(sides['2'])):
        a, b2 = sides['1'].get(k), sides['2'].get(k)
        if a is None or b2 is None:
            only = (a or b2)[0]
            tab = tables.C11_ONE_SIDED.get(only)
            ck.record('C11.R3', f'{only}:one-sided', tab is not None, 'tabled: ' + str(tab),
                      f'{only} delegates to blst point routines but its sibling in the other group does not (or no longer exists): the two groups are maintained as twins')
            continue
        ck.record('C11.R3', f'{k}', a[1] == b2[1], f'both delegate to {sorted(short(c) for c in a[1])}',
                  f'{a[0]} delegates to {sorted(a[1])} but {b2[0]} delegates to {sorted(b2[1])}: sibling implementations of one operator must use the same routine')
        for x, cs in (a, b2):
            adds = [c for c in cs if '_add' in c]
            if adds:
                nadd += 1
                ck.record('C11.R4', f'{x}:add-or-double', all('add_or_double' in c for c in adds), 'delegates to the complete add-or-double routine',
                          f'{x} adds through {adds}: not the complete add-or-double routine')
    ck.floor('C11.R3', 'sibling pairs', len(set(sides['1']) & set(sides['2'])), 24)
    ck.floor('C11.R4', 'addition operators', nadd, 8)

    r5_unchecked(ck, w)
    r7_uncompressed_form(ck, w)
    r8_jacobian(ck, w)
    r9_blst_batches(ck, w)
    r10_canonical_delegates(ck, w)
    from . import c10
    c10.eval_ops(ck, w, 'C11', 'C11.N1')
    from ..engines import ziplint
    ck.rule('C11.R6', 'zip-truncated comparisons in the curves crate: equality over `zip(..).all(..)` also compares lengths or runs over fixed-size arrays (tables.ZIP_EQ_OK)')
    ziplint.check(ck, w, 'C11.R6', ['curves'], lambda file: True, tables.ZIP_EQ_OK, 1)


def unchecked_callers(w):
    """{unchecked decoder / constructor: set of callers} over all workspace crates (generic trait calls included)"""
    from ..core import last_seg
    tab = {}
    for nid0 in w.mir_index():
        for b in w.mir_bodies(nid0):
            if '::tests::' in b['_xid'] or '/tests' in b['file']:
                continue
            for blk in b['blocks']:
                t = blk['t']
                if t.get('k') != 'call':
                    continue
                c = mir_callee(t) or ''
                if last_seg(c).endswith('_unchecked') and not c.startswith(('core::', 'alloc::', 'std::')):
                    tab.setdefault(c, set()).add(b['_xid'].split('::{closure')[0])
    return tab


def r5_unchecked(ck, w, rule='C11.R5', crates=None, floor=30):
    import json, os
    from .. import facts
    ck.rule(rule, 'who may call an unchecked decoder / constructor (from_bytes_unchecked, from_compressed_unchecked, from_uncompressed_unchecked, '
                      'from_raw_bytes_unchecked, read_raw_unchecked, from_raw_unchecked, …): only the callers of rules/unchecked_callers.json — the checked '
                      'wrappers that validate afterwards, the *_unchecked twins themselves and the format-dispatching readers.  A new caller decodes '
                      'attacker-supplied bytes without the on-curve / subgroup / canonicity checks its checked sibling performs.')
    ref = json.load(open(os.path.join(facts.VERIF, 'rules', 'unchecked_callers.json')))
    cur = unchecked_callers(w)
    n = 0
    for c, callers in sorted(cur.items()):
        for x in sorted(callers):
            if crates is not None and not any(x.startswith(('midnight_' + c + '::', '<midnight_' + c + '::')) or ('midnight_' + c + '::') in x.split(' as ')[0] for c in crates):
                continue
            n += 1
            ck.record(rule, f'{x}|calls:{short(c)}', x in ref.get(c, []), 'tabled caller',
                      f'{x} calls the unchecked {c} and is not in the who-may-call table: the value it decodes skips the checks of the checked decoder')
    ck.floor(rule, 'unchecked call pairs', n, floor)


def r7_uncompressed_form(ck, w, rule='C11.R7'):
    """uncompressed decoders refuse inputs in compressed form"""
    from ..core import peel
    ck.rule(rule, 'blst_p1_deserialize / blst_p2_deserialize dispatch on the compression flag (0x80) of the first byte: with the flag set they DECOMPRESS the first '
                  'half of the input and ignore the second half.  Every function that hands an uncompressed-size buffer to them must test that flag first, '
                  'otherwise the checked RawBytes format accepts a compressed point (by-passing the subgroup check of the compressed decoder) followed by 48/96 '
                  'ignored bytes: the decoded key no longer re-serialises to its input')
    n = 0
    for f in w.all_fns(['curves']):
        if '::tests' in f['_nid'] or 'bls12_381/g' not in f['file']:
            continue
        if not any((callee(m) or '').endswith(('blst_p1_deserialize', 'blst_p2_deserialize')) for m in hirq.calls(f['body'])):
            continue
        n += 1
        flag = any(x.get('k') == 'bin' and x.get('op') == '&' and (peel(x['b']).get('v') in ('i:128',) or peel(x['a']).get('v') in ('i:128',)) for x in walk(f['body']))
        ck.record(rule, f'{f["_nid"]}:tests-compression-flag', flag, 'tests the compression flag before deserialising',
                  f'{f["_nid"]} hands the buffer to blst_p*_deserialize without testing the compression flag: a compressed encoding (plus ignored bytes) is accepted '
                  f'by the uncompressed / raw decoders', hirq.fn_loc(f))
    ck.floor(rule, 'uncompressed decoders', n, 2)


ARITH = ('::Mul::mul', '::MulAssign::mul_assign', '::square', '::invert', '::Add::add', '::Sub::sub', '::double', '::Neg::neg')


def r8_jacobian(ck, w, rule='C11.R8'):
    """coordinate accessors agree with the representation they wrap"""
    ck.rule(rule, 'blst keeps G1 / G2 points in Jacobian coordinates (x = X/Z^2, y = Y/Z^3).  CurveExt::jacobian_coordinates and CurveExt::new_jacobian of the blst-backed '
                  'groups therefore hand the stored coordinates through: no field multiplication, squaring or inversion between the accessors x()/y()/z() and the '
                  'returned triple, nor between the arguments and from_raw_unchecked.  (The derive macro of the other curves stores homogeneous coordinates and '
                  'converts; it is not in scope of this rule.)')
    n = 0
    for f in w.all_fns(['curves']):
        if 'bls12_381/g' not in f['file'] or f.get('name') not in ('jacobian_coordinates', 'new_jacobian') or '::tests' in f['_nid']:
            continue
        n += 1
        ar = sorted({short(callee(c) or '') for c in hirq.calls(f['body']) if (callee(c) or '').endswith(ARITH)})
        ar += [f'operator {x["op"]}' for x in walk(f['body']) if x.get('k') == 'bin' and x.get('op') in ('*', '+', '-')]
        ck.record(rule, f'{f["_xid"]}:no-conversion', not ar, 'hands the stored (Jacobian) coordinates through',
                  f'{f["_nid"]} applies {ar} to the coordinates: blst points are Jacobian already, a conversion on top returns / accepts coordinates of another system '
                  f'(X*Z, Y*Z^2 instead of X, Y)', hirq.fn_loc(f))
    ck.floor(rule, 'Jacobian accessors / constructors of G1 and G2', n, 4)


def r9_blst_batches(ck, w, rule='C11.R9'):
    """the blst point-array routines index their first element"""
    from ..core import peel
    from ..engines import taint
    ck.rule(rule, 'blst::p1_affines::from / p2_affines::from (and the Pippenger `mult` behind them) index the first point of the slice they receive: every function of '
                  'bls12_381/g1.rs, g2.rs that calls them first leaves on the empty input (an `if` with an escaping arm whose condition tests is_empty() or compares '
                  'a length with 0).  In multi_exp the common length n = min(points, scalars) bounds BOTH arguments (it reaches slice::from_raw_parts and the '
                  'scalar slice), otherwise surplus points panic inside blst while surplus scalars are silently ignored.')
    n = 0
    for f in w.all_fns(['curves']):
        if 'bls12_381/g' not in f['file'] or '::tests' in f['_nid']:
            continue
        if not any((callee(c) or '').endswith(('p1_affines::from', 'p2_affines::from', 'p1_affines as core::convert::From>::from', 'p2_affines as core::convert::From>::from'))
                   or 'p1_affines' in (callee(c) or '') and (callee(c) or '').endswith('::from') or 'p2_affines' in (callee(c) or '') and (callee(c) or '').endswith('::from')
                   for c in hirq.calls(f['body'])):
            continue
        n += 1
        guard = False
        for x in walk(f['body']):
            if x.get('k') == 'if' and taint.diverges(x['a']):
                cond = list(walk(x['c']))
                if any((callee(c) or '').endswith('::is_empty') for c in cond if c.get('k') in ('call', 'mcall')) or \
                        any(c.get('k') == 'bin' and c.get('op') in ('==', '<', '<=') and (peel(c['b']).get('v') in ('i:0', 'i:1') or peel(c['a']).get('v') == 'i:0') for c in cond):
                    guard = True
        ck.record(rule, f'{f["_xid"]}:empty-input', guard, 'leaves on the empty input before the blst point-array conversion',
                  f'{f["_nid"]} hands its points to blst p*_affines::from without an escaping test for the empty input: blst indexes points[0], the empty sum / empty '
                  f'batch panics', hirq.fn_loc(f))
        if f.get('name') == 'multi_exp':
            from ..engines import valflow
            nl = [b for b in walk(f['body']) if b.get('k') == 'let' and b.get('pat', {}).get('n') == 'n']
            ok = False
            if nl:
                src = [('n', nl[0]['pat']['i'], 'usize')]
                vf = valflow.ValFlow(f, sources=src)
                hits = set()
                for node, c, deps in vf.call_sites():
                    if 'n' in deps and c.endswith('::from_raw_parts'):
                        hits.add('points')
                for x in walk(f['body']):
                    if x.get('k') == 'index' and any(y.get('k') == 'local' and y.get('i') == nl[0]['pat']['i'] for y in walk(x['i'])):
                        hits.add('scalars')
                ok = hits == {'points', 'scalars'}
            ck.record(rule, f'{f["_xid"]}:common-length', ok, 'n bounds the points (from_raw_parts) and the scalars (slice)',
                      f'{f["_nid"]}: the common length n = min(points.len(), scalars.len()) does not bound both the point slice handed to blst and the scalar slice: '
                      f'with more points than scalars blst panics (`scalars length mismatch`)', hirq.fn_loc(f))
    ck.floor(rule, 'callers of the blst point-array conversion', n, 3)


def r10_canonical_delegates(ck, w, rule='C11.R10'):
    """decoders that delegate to a third-party parser re-encode and compare"""
    ck.rule(rule, 'GroupEncoding::from_bytes of secp256k1 (K256, K256Affine) and Curve25519 (Curve25519, Curve25519Affine) delegate to k256 (SEC1 parsing: also takes '
                  'the compact tag 0x05) and to curve25519-dalek (decompress: also takes an unreduced y and a sign bit on x = 0).  The decoder accepts the image of '
                  'to_bytes only: it re-encodes the decoded point (to_bytes / compress) and compares the result with its input (`==`), and the outcome of that '
                  'comparison decides the CtOption.')
    n = 0
    for f in w.all_fns(['curves']):
        if f.get('name') != 'from_bytes' or '::tests' in f['_nid'] or not f['file'].endswith(('k256/curve.rs', 'curve25519/curve.rs', 'curve25519/affine.rs')):
            continue
        if 'GroupEncoding' not in f['_xid'] and 'GroupEncoding' not in f['id']:
            continue
        n += 1
        calls = [callee(c) or '' for c in hirq.calls(f['body'])]
        reenc = any(c.endswith(('::to_bytes', '::compress')) for c in calls)
        cmp_ = any(x.get('k') == 'bin' and x.get('op') == '==' for x in walk(f['body'])) or any(c.endswith(('PartialEq::eq', 'ConstantTimeEq::ct_eq')) for c in calls)
        ck.record(rule, f'{f["_xid"]}:re-encodes', reenc and cmp_, 're-encodes the decoded point and compares it with the input',
                  f'{f["_nid"]} returns what the third-party parser accepts (re-encoding: {reenc}, comparison: {cmp_}): non-canonical encodings (SEC1 compact tag, '
                  f'unreduced y, sign bit on x = 0) decode to valid points, several byte strings denote one point', hirq.fn_loc(f))
    ck.floor(rule, 'delegating decoders', n, 4)
