"""C17 — deterministic keygen, serialization round trips: byte-stream schedule duality write ↔ read + determinism lints."""
import re
from ..core import norm, short, AnchorMissing, walk, callee, callee_decl, peel, expr_str
from ..engines import sched, schednorm, hirq, reach, mustcall as mc
from .. import tables

IO_W, IO_R = 'std::io::Write', 'std::io::Read'
PL = 'midnight_proofs::plonk::'
ZK = 'midnight_zk_stdlib::'


def carrier_w(t, f, bound):
    return bound and (IO_W in t)


def carrier_r(t, f, bound):
    return bound and (IO_R in t)


def write_item(n):
    args = n.get('args', [])
    a = peel(args[-1]) if args else {}
    while a.get('k') == 'mcall' and a.get('m') in ('as_ref', 'as_slice', 'as_mut'):
        inner = peel(a['recv'])
        if inner.get('k') == 'mcall' and inner.get('m') in ('to_bytes', 'to_repr', 'to_compressed'):
            return 'ENC'
        a = inner
    if a.get('k') == 'mcall' and a.get('m') in ('to_le_bytes', 'to_be_bytes', 'to_ne_bytes'):
        return {'to_le_bytes': 'LE', 'to_be_bytes': 'BE', 'to_ne_bytes': 'NE'}[a['m']] + ':' + sched.strip_ref(a.get('rt') or '?')
    if a.get('k') == 'array':
        es = a.get('es', [])
        return 'LE:u8' if len(es) == 1 else f'BYTES[{len(es)}]'
    t = sched.strip_ref(a.get('t') or '?')
    m = re.match(r'^\[u8; (\d+)\]$', t)
    if m:
        return f'BYTES[{m.group(1)}]'
    return 'BYTES:' + t


def read_item(n):
    args = n.get('args', [])
    a = peel(args[-1]) if args else {}
    if a.get('k') == 'index' and 'Range' in (a.get('ixt') or ''):
        a = peel(a['e'])
    if a.get('k') == 'mcall' and a.get('m') in ('as_mut', 'as_mut_slice'):
        t = sched.strip_ref(a.get('rt') or '')
        if 'GroupEncoding' in t or 'Repr' in t:
            return 'ENC'
        a = peel(a['recv'])
    t = sched.strip_ref(a.get('t') or '?')
    m = re.match(r'^\[u8; (\d+)\]$', t)
    if m:
        return f'BYTES[{m.group(1)}]'
    if 'Repr' in t:
        return 'ENC'
    return 'BYTES:' + t


def conv_item(kind):
    def g(n):
        c = callee(n) or ''
        ty = re.search(r'impl (\w+)>', c)
        return kind + ':' + (ty.group(1) if ty else '?')
    return g


def ga0(prefix):
    def g(n):
        ga = n.get('ga') or ['?']
        return prefix + norm(sched.strip_ref(ga[0]))
    return g


SERDE = 'midnight_curves::serde_traits::SerdeObject::'
PRIMS_W = {
    IO_W + '::write_all': ('write', write_item),
    SERDE + 'write_raw': ('write', lambda n: 'RAW'),
    'bincode::features::impl_std::encode_into_std_write': ('write', ga0('bincode:')),
}
PRIMS_R = {
    IO_R + '::read_exact': ('read', read_item),
    SERDE + 'read_raw': ('read', lambda n: 'RAW'),
    SERDE + 'read_raw_unchecked': ('read', lambda n: 'RAW'),
    'bincode::features::impl_std::decode_from_std_read': ('read', ga0('bincode:')),
}

SIZES = {'u8': 1, 'u16': 2, 'u32': 4, 'u64': 8, 'u128': 16}


def classify(t):
    return t


def fuse_reads(t):
    """read BYTES[n] followed by an integer conversion of width n  ==>  read E:uN ; BYTES[1] == LE:u8"""
    k = t[0]
    if k == 'seq':
        items = [x if x[0] == 'op' else fuse_reads(x) for x in t[1]]
        out = []
        for x in items:
            if x[0] == 'op' and x[1] == 'conv' and out and out[-1][0] == 'op' and out[-1][1] == 'read':
                m = re.match(r'^BYTES\[(\d+)\]$', out[-1][2])
                e, ty = x[2].split(':', 1)
                if m and SIZES.get(ty) == int(m.group(1)):
                    prev = out.pop()
                    out.append(('op', 'read', f'{e}:{ty}', prev[3]) + tuple(x[4:]))
                    continue
            if x[0] == 'op' and x[1] == 'conv':
                continue      # conversions of values that were not just read (e.g. parsed constants) are not stream operations
            out.append(x)
        return sched.seq(out)
    if k == 'loop':
        return ('loop', t[1], fuse_reads(t[2]))
    if k == 'alt':
        return ('alt', t[1], [fuse_reads(b) for b in t[2]])
    if k == 'op' and t[1] == 'conv':
        return sched.EPS
    return t


def canon_bytes(t):
    if t[0] == 'op':
        it = t[2]
        if it == 'BYTES[1]':
            it = 'LE:u8'
        if it in ('BE:u8', 'NE:u8'):
            it = 'LE:u8'
        return ('op', t[1], it) + tuple(t[3:])
    if t[0] == 'seq':
        return ('seq', [canon_bytes(x) for x in t[1]])
    if t[0] == 'loop':
        return ('loop', t[1], canon_bytes(t[2]))
    if t[0] == 'alt':
        return ('alt', t[1], [canon_bytes(b) for b in t[2]])
    return t


def vocab(side, w):
    prims = dict(PRIMS_W if side == 'w' else PRIMS_R)
    if side == 'r':
        for ty in ('u8', 'u16', 'u32', 'u64', 'u128', 'usize'):
            for e, name in (('LE', 'from_le_bytes'), ('BE', 'from_be_bytes'), ('NE', 'from_ne_bytes')):
                prims[f'core::num::<impl {ty}>::{name}'] = ('conv', (lambda e_, ty_: (lambda n: f'{e_}:{ty_}'))(e, ty))
    v = sched.Vocab('bytes-' + side, carrier_w if side == 'w' else carrier_r, prims, field_alias=tables.SCHED_FIELD_ALIAS,
                    count_alias=tables.SCHED_COUNT_ALIAS, passthrough=tables.SCHED_PASSTHROUGH)
    v.free_prims = {k for k, (kind, _) in prims.items() if kind == 'conv'}
    return v


def short3(p):
    from ..core import split_path
    return '::'.join(split_path(norm(p))[-3:])


def run(ck):
    w = ck.world()
    ck.explanation = (
        'Byte-stream schedule duality by static extraction (engine of C01 with an io::Write / io::Read vocabulary): for every write/read pair the sequence of '
        'stream operations — widths, endianness, group encodings, raw field/point encodings, bincode-instantiated types, nesting in loops and per-format '
        'alternatives, and the pairing of length prefixes with the loops they bound — is extracted from HIR and compared. Plus determinism lints '
        'for key generation (no iteration over RandomState hash containers, no randomness/time) and sibling call-set agreement between keygen_pk and '
        'ProvingKey::read. Byte-identity of keys across thread counts is not decided.')
    r1_pairs(ck, w)
    r2_determinism(ck, w)
    r3_pk_rebuild(ck, w)
    r4_srs_size(ck, w)


def r1_pairs(ck, w):
    ck.rule('C17.R1', 'write/read duality: normalised stream schedule of the writer with write→read equals that of the reader')
    n_ok = 0
    for wr, rd in tables.C17_PAIRS:
        key = f'{short3(wr)}~{short3(rd)}'
        trees = []
        fail = False
        for side, root in (('w', wr), ('r', rd)):
            if w.fn(root, required=False) is None:
                ck.bad('C17.R1', key + ':anchor', f'function {root} not found (anchor)')
                fail = True
                break
            ex = sched.Extractor(w, vocab(side, w))
            t = ex.root(root)
            opq = schednorm.find_opaque(t)
            if opq:
                ck.bad('C17.R1', f'{short(root)}:total', f'{root}: constructs the extractor cannot analyse (fail closed): {opq[:3]}')
                fail = True
                break
            nrm = schednorm.Norm(classify, dom_equiv=tables.SCHED_DOM_EQUIV, count_alias={})
            t = nrm.norm(t)
            t = canon_bytes(fuse_reads(t))
            trees.append((t, ex.ops_seen))
        if fail:
            continue
        tw, tr = trees[0][0], trees[1][0]
        # case split on enum-keyed alternatives (the serialization format): compare variant by variant
        keys = sorted(schednorm.enum_keys(tw) | schednorm.enum_keys(tr))
        cases = [[]]
        for kk, nvar in keys:
            cases = [c + [(kk, i)] for c in cases for i in range(nvar)]
        d = None
        nops = 0
        for case in cases:
            a, b = tw, tr
            for kk, i in case:
                a, b = schednorm.specialise_enum(a, kk, i), schednorm.specialise_enum(b, kk, i)
            a = schednorm.length_prefix(nrm.norm(a))
            b = schednorm.length_prefix(nrm.norm(b))
            nops = max(nops, schednorm.count_ops(b))
            dd = schednorm.compare(schednorm.dualize(a), b, '', 'writer', 'reader')
            if dd:
                d = (f'[case {", ".join(f"{k}#{i}" for k, i in case)}] ' if case else '') + dd
                break
        if d is None:
            n_ok += 1
        ck.record('C17.R1', key, d is None and nops > 0, f'{nops} stream operations, dual',
                  f'writer {wr} and reader {rd} disagree: {d}' if d else f'no stream operation found in {rd} (anchor)')
    ck.floor('C17.R1', 'write/read pairs', len(tables.C17_PAIRS), 12)


def r2_determinism(ck, w):
    ck.rule('C17.R2', 'determinism: no iteration over std HashMap/HashSet (RandomState) and no rand / time / thread-id call in bodies reachable from key '
                      'generation and from the vk identity; the pinned constraint-system view contains no hash container')
    roots = [PL + 'keygen::keygen_vk_with_k', PL + 'keygen::keygen_vk', PL + 'keygen::keygen_pk', PL + 'VerifyingKey::from_parts']
    for r in roots:
        w.mir_body(r)
    par = reach.closure(w, roots)
    bodies = [x for x in par if x in w.mir_index()]
    ck.floor('C17.R2', 'bodies reachable from keygen', len(bodies), 100)
    ITER = ('::iter', '::iter_mut', '::into_iter', '::keys', '::values', '::values_mut', '::drain', '::retain', '::into_keys', '::into_values')
    bad = 0
    for nid in bodies:
        b = w.mir_body(nid)
        for bi, blk in enumerate(b['blocks']):
            t = blk['t']
            if t.get('k') != 'call':
                continue
            c = mc.mir_callee(t) or ''
            if (c.startswith('std::collections::hash::map::HashMap') or c.startswith('std::collections::hash::set::HashSet') or
                    c.startswith('<std::collections::hash::map::HashMap') or c.startswith('<&std::collections::hash') or c.startswith('<std::collections::hash::set::HashSet')) \
                    and c.endswith(ITER):
                ga = ' '.join(t.get('ga') or [])
                if 'RandomState' in ga or 'BuildHasher' not in ga and 'Fx' not in ga:
                    key = f'{nid}|{short(c)}'
                    if key in tables.C17_HASH_ITER_OK:
                        ck.ok('C17.R2', 'hash-iter:' + key, tables.C17_HASH_ITER_OK[key], reach.loc(b, t))
                    else:
                        bad += 1
                        ck.bad('C17.R2', 'hash-iter:' + key, f'{nid} (reachable from key generation) iterates a RandomState hash container via {short(c)}: '
                               f'iteration order differs between runs, so keys may not be byte-identical', reach.loc(b, t))
            if c.startswith(('rand::', 'rand_core::', 'std::time::', 'std::thread::current', 'rand_chacha::')) or 'OsRng' in c or 'thread_rng' in c:
                key = f'{nid}|{short(c)}'
                if key in tables.C17_NONDET_OK:
                    ck.ok('C17.R2', 'nondet:' + key, tables.C17_NONDET_OK[key])
                else:
                    bad += 1
                    ck.bad('C17.R2', 'nondet:' + key, f'{nid} (reachable from key generation) calls {c}: key generation must be a function of parameters and circuit',
                           reach.loc(b, t))
    if not bad:
        ck.ok('C17.R2', 'keygen-deterministic', f'no RandomState iteration and no randomness/time source in {len(bodies)} bodies reachable from key generation')
    # pinned views must not contain hash containers
    for adt_id in (PL + 'circuit::PinnedConstraintSystem', 'midnight_proofs::poly::domain::PinnedEvaluationDomain'):
        a = w.adt(adt_id)
        for fd in a['variants'][0]['fields']:
            ck.record('C17.R2', f'pinned:{short(adt_id)}.{fd["name"]}', 'HashMap' not in fd['ty'] and 'HashSet' not in fd['ty'],
                      'order-stable type', f'{adt_id}.{fd["name"]}: {fd["ty"]} is a hash container inside the hashed (Debug-rendered) vk identity')


def r3_pk_rebuild(ck, w):
    ck.rule('C17.R3', 'ProvingKey::read recomputes every derived part with the functions keygen_pk uses (sibling call-set agreement), '
                      'and ParamsKZG::downsize recomputes the Lagrange basis through g_to_lagrange')
    kp = w.mir_body(PL + 'keygen::keygen_pk')
    rd = w.mir_body(PL + 'ProvingKey::read')
    def derived_calls(b):
        out = set()
        for i, t in mc.call_blocks(b, lambda c, t: c.startswith(('midnight_proofs::', '<midnight_proofs::'))):
            c = mc.mir_callee(t)
            if any(s in c for s in ('lagrange_to_coeff', 'coeff_to_extended', 'compute_lagrange', 'l_i_range', 'Evaluator::new', 'compute_polys_and_cosets', 'build_pk', 'lagrange_from_vec', 'empty_lagrange')):
                out.add(short(c))
        return out
    a, b = derived_calls(kp), derived_calls(rd)
    # closures
    for nid in w.mir_index():
        if nid.startswith(PL + 'keygen::keygen_pk::{closure'):
            a |= derived_calls(w.mir_body(nid))
        if nid.startswith(PL + 'ProvingKey::read::{closure'):
            b |= derived_calls(w.mir_body(nid))
    need = {x for x in a if any(s in x for s in ('Evaluator::new', 'coeff_to_extended', 'lagrange_to_coeff'))}
    ck.record('C17.R3', 'ProvingKey::read:derived-parts', bool(need) and need <= b, f'read() recomputes {sorted(need)} like keygen_pk',
              f'ProvingKey::read does not recompute {sorted(need - b)} that keygen_pk computes: a reloaded proving key differs from the generated one',
              reach.loc(rd))
    ds = [nid for nid in w.mir_index() if nid == 'midnight_proofs::poly::kzg::params::ParamsKZG::downsize']
    if not ds:
        ck.bad('C17.R3', 'downsize:anchor', 'ParamsKZG::downsize not found (anchor)')
    else:
        b = w.mir_body(ds[0])
        res = mc.calls_after(b, lambda c, t: c.endswith('::truncate'), lambda c, t: c.endswith('g_to_lagrange'))
        ok = bool(res) and all(o for _, _, o in res)
        ck.record('C17.R3', 'downsize:recompute-lagrange', ok, 'every truncation of the monomial basis is followed by g_to_lagrange',
                  'ParamsKZG::downsize no longer recomputes the Lagrange basis from the truncated monomial basis', reach.loc(b))


def r4_srs_size(ck, w):
    """key generation refuses parameters whose size differs from the domain of the key"""
    from ..engines import taint
    ck.rule('C17.R4', 'every verifying-key generation entry point compares the size of the parameters with the k of the key EXACTLY (escaping conditional on '
                      '`params.max_k() != k`): the fixed columns are committed with the first 2^k elements of the parameters\' Lagrange basis, which is the basis of '
                      'the 2^k domain only when the parameters have that size.  With `<` only, larger parameters silently yield a different, wrong key (it rejects '
                      'honest proofs and differs from the key generated after downsizing).')
    fs = [f for f in w.all_fns(['proofs']) if f['file'].endswith('plonk/keygen.rs') and f['name'].startswith('keygen_vk')]
    ck.floor('C17.R4', 'vk generation entry points', len(fs), 2)
    for f in fs:
        ok = False
        for n in walk(f['body']):
            if n.get('k') == 'if' and taint.diverges(n['a']):
                c = peel(n['c'])
                if c.get('k') == 'bin' and c.get('op') == '!=' and any(m.get('m') == 'max_k' for m in hirq.calls(c)):
                    ok = True
        ck.record('C17.R4', f'{f["_nid"]}:exact-srs-size', ok, 'refuses parameters of another size',
                  f'{f["_nid"]} does not refuse parameters whose max_k differs from the k of the key: with larger parameters the commitments use the Lagrange basis '
                  f'of the wrong domain', hirq.fn_loc(f))
