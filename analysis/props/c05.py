"""C05 — structural (constraint-flow) clauses: no unconstrained hint, no dropped constraint, typestate constructors, must-call checks."""
from . import dprops
from .. import tables

FLOORS = tables.D_FLOORS['C05']


def run(ck):
    w = ck.world()
    ck.explanation = tables.D_EXPLANATION['C05']
    dprops.run_d(ck, w, 'C05', FLOORS)
    extra = getattr(tables, 'D_EXTRA', {}).get('C05')
    if extra:
        extra(ck, w)
