"""C05 — structural (constraint-flow) clauses: no unconstrained hint, no dropped constraint, typestate constructors, must-call checks."""
from . import dprops
from .. import tables

FLOORS = tables.D_FLOORS['C05']


def run(ck):
    w = ck.world()
    ck.explanation = tables.D_EXPLANATION['C05']
    dprops.run_d(ck, w, 'C05', FLOORS)
    extra = getattr(tables, 'D_EXTRA', {}).get('C05')
    if extra:
        extra(ck, w)
    m1_mod_exp(ck, w)


def m1_mod_exp(ck, w):
    """x^n mod m is reduced on every path"""
    from ..engines import mustcall as mc, reach
    ck.rule('C05.M1', 'BigUintGadget::mod_exp returns a value reduced modulo m for every exponent: every success path passes a reduction (mod_mul or div_rem).  The '
                      'square-and-multiply loop reduces only through mod_mul, which is not called for n = 1 (and n = 0 returned the constant 1 whatever m is): '
                      'mod_exp(10, 1, 7) returned 10')
    nid = 'midnight_circuits::biguint::biguint_gadget::BigUintGadget::mod_exp'
    b = w.mir_body(nid, required=False)
    if b is None:
        ck.bad('C05.M1', 'mod_exp:anchor', f'{nid} not found (anchor)')
        return
    ok, sites = mc.must_call(b, lambda c, t: c.endswith('BigUintGadget::mod_mul') or c.endswith('BigUintGadget::div_rem'))
    if not ok:
        # accepted alternative: the exponents the loop does not reduce (0 and 1) are answered by early returns that reduce
        from ..core import walk, peel, callee
        from ..engines import hirq
        f = w.fn(nid)
        guarded = set()
        for n in walk(f['body']):
            if n.get('k') != 'if':
                continue
            c = peel(n['c'])
            if c.get('k') == 'bin' and c.get('op') == '==':
                lits = [peel(x).get('v') for x in (c['a'], c['b']) if peel(x).get('k') == 'lit']
                names = [peel(x).get('n') for x in (c['a'], c['b']) if peel(x).get('k') == 'local']
                rets = [r for r in walk(n['a']) if r.get('k') == 'ret' and any((callee(m) or '').endswith(('BigUintGadget::div_rem', 'BigUintGadget::mod_mul')) for m in hirq.calls(r))]
                if lits and names == ['n'] and rets:
                    guarded.add(lits[0])
        ok = {'i:0', 'i:1'} <= guarded
    ck.record('C05.M1', 'mod_exp:reduced-on-every-path', ok, f'every success path reduces ({len(sites)} reduction sites)',
              'BigUintGadget::mod_exp has a success path without mod_mul / div_rem: for some exponent the result is returned unreduced', reach.loc(b))
