// C05 / additional finding A: `FieldChip::assigned_to_le_bytes(x, None)` (the DEFAULT length) panics
// with a slice-index-out-of-range for every emulated field whose bit-length is not a multiple of 8:
// Curve25519 base (255 bits), Curve25519 scalar (253 bits), BLS12-381 base (381 bits).
//
// WHERE IT BELONGS: integration test of the `midnight-circuits` crate. Copy this file to
//   circuits/tests/c05_extra_a_to_le_bytes_panic.rs
// and run
//   CARGO_TARGET_DIR=/tmp/hunt-C05/target cargo test --offline -j 4 -p midnight-circuits \
//       --features testing --test c05_extra_a_to_le_bytes_panic
//
// Expected (DecompositionInstructions::assigned_to_le_bytes): "If unspecified, the resulting vector
//   will contain exactly ceil(NUM_BITS / 8) bytes (the minimum number of bytes necessary to
//   represent any element)". So 32 / 32 / 48 bytes, circuit satisfiable.
// Observed: panic `range start index 256 out of range for slice of length 255` (resp. 253, and
//   384 / 381) at circuits/src/field/foreign/field_chip.rs:1148 (`bits[nb_bits..]`).
// Cause: `assigned_to_le_bytes` asks `assigned_to_le_bits` for `nb_bytes * 8` bits, but the latter
//   only produces `sum(well_formed_log2_bounds) == modulus.bits()` bits and then slices
//   `bits[nb_bits..]` / `bits[0..nb_bits]`. The existing unit tests only instantiate the secp256k1
//   fields (256 bits), for which 8 | NUM_BITS.

use std::marker::PhantomData;

use midnight_circuits::{
    field::{
        decomposition::chip::P2RDecompositionChip,
        foreign::{
            params::{FieldEmulationParams, MultiEmulationParams},
            FieldChip,
        },
        NativeChip, NativeGadget,
    },
    instructions::{AssertionInstructions, AssignmentInstructions, DecompositionInstructions},
    midnight_proofs::{
        circuit::{Layouter, SimpleFloorPlanner, Value},
        dev::MockProver,
        plonk::{Circuit, ConstraintSystem, Error},
    },
    testing_utils::FromScratch,
    types::AssignedField,
    CircuitField,
};

type F = midnight_curves::Fq; // BLS12-381 scalar field (native)
type P = MultiEmulationParams;
type NG = NativeGadget<F, P2RDecompositionChip<F>, NativeChip<F>>;
type FC<K> = FieldChip<F, K, P, NG>;
type AF<K> = AssignedField<F, K, P>;

#[derive(Clone, Debug)]
struct TestCircuit<K: CircuitField> {
    a: K,
    nb_bytes: Option<usize>,
    _m: PhantomData<K>,
}

impl<K> Circuit<F> for TestCircuit<K>
where
    K: CircuitField,
    P: FieldEmulationParams<F, K>,
{
    type Config = <FC<K> as FromScratch<F>>::Config;
    type FloorPlanner = SimpleFloorPlanner;
    type Params = ();

    fn without_witnesses(&self) -> Self {
        unreachable!()
    }

    fn configure(meta: &mut ConstraintSystem<F>) -> Self::Config {
        let committed_instance_column = meta.instance_column();
        let instance_column = meta.instance_column();
        FC::<K>::configure_from_scratch(meta, &[committed_instance_column, instance_column])
    }

    fn synthesize(&self, config: Self::Config, mut layouter: impl Layouter<F>) -> Result<(), Error> {
        let chip = FC::<K>::new_from_scratch(&config);
        let layouter = &mut layouter;

        let a: AF<K> = chip.assign(layouter, Value::known(self.a))?;
        let bytes = chip.assigned_to_le_bytes(layouter, &a, self.nb_bytes)?;
        assert_eq!(
            bytes.len(),
            self.nb_bytes.unwrap_or(K::NUM_BITS.div_ceil(8) as usize)
        );
        let back = chip.assigned_from_le_bytes(layouter, &bytes)?;
        chip.assert_equal(layouter, &a, &back)?;

        chip.load_from_scratch(layouter)
    }
}

fn run<K>(a: K, nb_bytes: Option<usize>)
where
    K: CircuitField,
    P: FieldEmulationParams<F, K>,
{
    let circuit = TestCircuit::<K> { a, nb_bytes, _m: PhantomData };
    let prover = MockProver::run(13, &circuit, vec![vec![], vec![]]).expect("synthesis failed");
    prover.verify().expect("circuit must be satisfiable");
}

/// Control (passes on the unchanged code): secp256k1 base field, 256 bits.
#[test]
fn control_secp256k1_base_default_length() {
    run(midnight_curves::k256::Fp::from(0x1234_5678u64), None);
}

/// FAILS (panics) on the unchanged code: Curve25519 base field, 255 bits -> 32 bytes.
#[test]
fn curve25519_base_default_length() {
    run(midnight_curves::curve25519::Fp::from(0x1234_5678u64), None);
}

/// FAILS (panics) on the unchanged code: Curve25519 scalar field, 253 bits -> 32 bytes.
#[test]
fn curve25519_scalar_default_length() {
    run(midnight_curves::curve25519::Scalar::from(0x1234_5678u64), None);
}

/// FAILS (panics) on the unchanged code: BLS12-381 base field, 381 bits -> 48 bytes.
#[test]
fn bls12_381_base_default_length() {
    run(midnight_curves::Fp::from(0x1234_5678u64), None);
}
