// C05 / defect 1: `FieldChip::mul(x, y, Some(k))` silently drops the multiplying constant `k`
// when `x` or `y` is the fixed constant 1 (wrong result, and the wrong result is accepted).
//
// WHERE IT BELONGS: integration test of the `midnight-circuits` crate. Copy this file to
//   circuits/tests/c05_d1_mul_constant_dropped.rs
// and run
//   CARGO_TARGET_DIR=/tmp/hunt-C05/target cargo test --offline -j 4 -p midnight-circuits \
//       --features testing --test c05_d1_mul_constant_dropped
//
// Uses only the public API (feature `testing` is needed for `FromScratch`).
//
// Expected: `mul(1, a, Some(3)) == 3 * a` and `mul(a, 1, Some(3)) == 3 * a`
//   (ArithInstructions::mul: "Multiplication, possibly with an additional multiplying constant").
// Observed: both return `a`; a circuit asserting `res == a` (the wrong value) is satisfied.
// Cause: circuits/src/field/foreign/field_chip.rs, `fn mul`: the shortcuts
//   `if x == &one { return Ok(y.clone()) }` / `if y == &one { return Ok(x.clone()) }`
// are taken BEFORE `multiplying_constant` is applied.

use ff::Field;
use midnight_circuits::{
    field::{
        decomposition::chip::P2RDecompositionChip,
        foreign::{params::MultiEmulationParams, FieldChip},
        NativeChip, NativeGadget,
    },
    instructions::{ArithInstructions, AssertionInstructions, AssignmentInstructions},
    midnight_proofs::{
        circuit::{Layouter, SimpleFloorPlanner, Value},
        dev::MockProver,
        plonk::{Circuit, ConstraintSystem, Error},
    },
    testing_utils::FromScratch,
    types::AssignedField,
};

type F = midnight_curves::Fq; // BLS12-381 scalar field (native)
type K = midnight_curves::k256::Fp; // secp256k1 base field (emulated)
type NG = NativeGadget<F, P2RDecompositionChip<F>, NativeChip<F>>;
type FC = FieldChip<F, K, MultiEmulationParams, NG>;
type AF = AssignedField<F, K, MultiEmulationParams>;

#[derive(Clone, Copy, Debug)]
enum Lhs {
    /// x is a witness equal to 1 (control).
    WitnessOne,
    /// x is the fixed constant 1.
    FixedOneLeft,
    /// y is the fixed constant 1.
    FixedOneRight,
}

#[derive(Clone, Debug)]
struct TestCircuit {
    a: K,
    k: K,
    lhs: Lhs,
    claimed: K,
}

impl Circuit<F> for TestCircuit {
    type Config = <FC as FromScratch<F>>::Config;
    type FloorPlanner = SimpleFloorPlanner;
    type Params = ();

    fn without_witnesses(&self) -> Self {
        unreachable!()
    }

    fn configure(meta: &mut ConstraintSystem<F>) -> Self::Config {
        let committed_instance_column = meta.instance_column();
        let instance_column = meta.instance_column();
        FC::configure_from_scratch(meta, &[committed_instance_column, instance_column])
    }

    fn synthesize(&self, config: Self::Config, mut layouter: impl Layouter<F>) -> Result<(), Error> {
        let chip = FC::new_from_scratch(&config);
        let layouter = &mut layouter;

        let a: AF = chip.assign(layouter, Value::known(self.a))?;
        let res = match self.lhs {
            Lhs::WitnessOne => {
                let one: AF = chip.assign(layouter, Value::known(K::ONE))?;
                chip.mul(layouter, &one, &a, Some(self.k))?
            }
            Lhs::FixedOneLeft => {
                let one: AF = chip.assign_fixed(layouter, K::ONE)?;
                chip.mul(layouter, &one, &a, Some(self.k))?
            }
            Lhs::FixedOneRight => {
                let one: AF = chip.assign_fixed(layouter, K::ONE)?;
                chip.mul(layouter, &a, &one, Some(self.k))?
            }
        };
        chip.assert_equal_to_fixed(layouter, &res, self.claimed)?;

        chip.load_from_scratch(layouter)
    }
}

fn run(lhs: Lhs, claimed: K) -> Result<(), String> {
    let circuit = TestCircuit { a: K::from(5), k: K::from(3), lhs, claimed };
    match MockProver::run(12, &circuit, vec![vec![], vec![]]) {
        Ok(prover) => prover.verify().map_err(|e| format!("verifier: {e:?}")),
        Err(e) => Err(format!("prover: {e:?}")),
    }
}

/// Control: with a *witness* 1 the constant is honoured (passes on the unchanged code).
#[test]
fn control_witness_one_times_a_times_3_is_15() {
    assert!(run(Lhs::WitnessOne, K::from(15)).is_ok());
    assert!(run(Lhs::WitnessOne, K::from(5)).is_err());
}

/// FAILS on the unchanged code: 1 * 5 * 3 must be 15.
#[test]
fn fixed_one_left_times_a_times_3_is_15() {
    let r = run(Lhs::FixedOneLeft, K::from(15));
    assert!(r.is_ok(), "mul(fixed 1, 5, Some(3)) is not 15: {r:?}");
}

/// FAILS on the unchanged code: 5 * 1 * 3 must be 15.
#[test]
fn fixed_one_right_times_a_times_3_is_15() {
    let r = run(Lhs::FixedOneRight, K::from(15));
    assert!(r.is_ok(), "mul(5, fixed 1, Some(3)) is not 15: {r:?}");
}

/// FAILS on the unchanged code: the wrong result 5 must not be accepted.
#[test]
fn wrong_result_must_be_rejected() {
    assert!(
        run(Lhs::FixedOneLeft, K::from(5)).is_err(),
        "circuit accepted mul(fixed 1, 5, Some(3)) == 5"
    );
    assert!(
        run(Lhs::FixedOneRight, K::from(5)).is_err(),
        "circuit accepted mul(5, fixed 1, Some(3)) == 5"
    );
}
