// C05 / additional finding B (low severity, partly acknowledged in a code comment):
// `FieldChip::mul_by_constant` panics when applied to an element that was left un-normalised by a
// previous `mul_by_constant`, because it multiplies the limb bounds by `k` without looking at the
// current bounds of `x`; the product exceeds `max_limb_bound` and `make_canonical` panics.
//
// WHERE IT BELONGS: integration test of the `midnight-circuits` crate. Copy this file to
//   circuits/tests/c05_extra_b_mul_by_constant_chain_panic.rs
// and run
//   CARGO_TARGET_DIR=/tmp/hunt-C05/target cargo test --offline -j 4 -p midnight-circuits \
//       --features testing --test c05_extra_b_mul_by_constant_chain_panic
//
// Expected: mul_by_constant(mul_by_constant(a, 10^16), 10^6) == a * 10^22 (both constants are below
//   the chip's own "small constant" threshold 2^64 / 1000, so both calls take the limb-wise path).
// Observed: panic "make_canonical: the limb bounds of the input: [...] exceed the maximum limb bound
//   value 340282366920938463463374607431768211456" (field_chip.rs, `make_canonical`).
// Cause: circuits/src/field/foreign/field_chip.rs, `fn mul_by_constant`: the threshold
//   `max_limb_bound / (1000 * base)` only protects a WELL-FORMED input; the function neither
//   normalises `x` first nor falls back to `assign_mul` when `k * bounds(x)` exceeds
//   `max_limb_bound`. The same happens through `linear_combination`, which calls
//   `mul_by_constant` on every term.

use midnight_circuits::{
    field::{
        decomposition::chip::P2RDecompositionChip,
        foreign::{params::MultiEmulationParams, FieldChip},
        NativeChip, NativeGadget,
    },
    instructions::{ArithInstructions, AssertionInstructions, AssignmentInstructions},
    midnight_proofs::{
        circuit::{Layouter, SimpleFloorPlanner, Value},
        dev::MockProver,
        plonk::{Circuit, ConstraintSystem, Error},
    },
    testing_utils::FromScratch,
    types::AssignedField,
};

type F = midnight_curves::Fq; // BLS12-381 scalar field (native)
type K = midnight_curves::k256::Fp; // secp256k1 base field (emulated), LOG2_BASE = 64
type NG = NativeGadget<F, P2RDecompositionChip<F>, NativeChip<F>>;
type FC = FieldChip<F, K, MultiEmulationParams, NG>;
type AF = AssignedField<F, K, MultiEmulationParams>;

#[derive(Clone, Debug)]
struct TestCircuit {
    a: K,
    k1: K,
    k2: K,
}

impl Circuit<F> for TestCircuit {
    type Config = <FC as FromScratch<F>>::Config;
    type FloorPlanner = SimpleFloorPlanner;
    type Params = ();

    fn without_witnesses(&self) -> Self {
        unreachable!()
    }

    fn configure(meta: &mut ConstraintSystem<F>) -> Self::Config {
        let committed_instance_column = meta.instance_column();
        let instance_column = meta.instance_column();
        FC::configure_from_scratch(meta, &[committed_instance_column, instance_column])
    }

    fn synthesize(&self, config: Self::Config, mut layouter: impl Layouter<F>) -> Result<(), Error> {
        let chip = FC::new_from_scratch(&config);
        let layouter = &mut layouter;

        let a: AF = chip.assign(layouter, Value::known(self.a))?;
        let t = chip.mul_by_constant(layouter, &a, self.k1)?;
        let res = chip.mul_by_constant(layouter, &t, self.k2)?;
        chip.assert_equal_to_fixed(layouter, &res, self.a * self.k1 * self.k2)?;

        chip.load_from_scratch(layouter)
    }
}

fn run(k1: u64, k2: u64) {
    let circuit = TestCircuit { a: K::from(5), k1: K::from(k1), k2: K::from(k2) };
    let prover = MockProver::run(13, &circuit, vec![vec![], vec![]]).expect("synthesis failed");
    prover.verify().expect("circuit must be satisfiable");
}

/// Control (passes on the unchanged code).
#[test]
fn control_small_constants() {
    run(1_000, 1_000);
}

/// FAILS (panics) on the unchanged code.
#[test]
fn chain_of_two_moderate_constants() {
    run(10_000_000_000_000_000, 1_000_000);
}
