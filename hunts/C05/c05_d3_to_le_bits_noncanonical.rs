// C05 / defect 3: `FieldChip::assigned_to_le_bits(x, nb_bits, enforce_canonical = false)` (and
// therefore `FieldChip::assigned_to_le_chunks` whenever `nb_bits_per_chunk` does not divide
// `LOG2_BASE`) bit-decomposes the limbs of `x + 1` WITHOUT normalising them first. The circuit is
// unsatisfiable (completeness failure) as soon as one limb of the un-normalised element does not fit
// in `LOG2_BASE` bits: e.g. for x = 2^64 (a freshly assigned, well-formed element!) or for any
// un-normalised x = a + b whose limb-wise sum carries.
//
// WHERE IT BELONGS: integration test of the `midnight-circuits` crate. Copy this file to
//   circuits/tests/c05_d3_to_le_bits_noncanonical.rs
// and run
//   CARGO_TARGET_DIR=/tmp/hunt-C05/target cargo test --offline -j 4 -p midnight-circuits \
//       --features testing --test c05_d3_to_le_bits_noncanonical
//
// Uses only the public API (feature `testing` is needed for `FromScratch`).
//
// Expected (DecompositionInstructions::assigned_to_le_bits): with `enforce_canonical = false` "the
//   output {b_i} is only restricted to satisfy x = sum_i 2^i b_i" -- so for every x there is a
//   satisfying assignment. Same for assigned_to_le_chunks without `nb_chunks`.
// Observed: no satisfying assignment exists (in debug builds witness generation even panics in
//   field/decomposition/cpu_utils.rs: "the integer cannot be represented with the given
//   limb_sizes"; in release builds the proof is simply invalid).
// Cause: circuits/src/field/foreign/field_chip.rs, `fn assigned_to_le_bits`:
//     let mut x = self.add_constant(layouter, x, K::ONE)?;      // limb0 += 1, no normalisation
//     if enforce_canonical { x = self.make_canonical(layouter, &x)?; }
//   and then every limb is decomposed in `well_formed_log2_bounds` bits. When
//   `enforce_canonical == false` the limbs are in general not in [0, 2^LOG2_BASE).

use ff::Field;
use midnight_circuits::{
    field::{
        decomposition::chip::P2RDecompositionChip,
        foreign::{params::MultiEmulationParams, FieldChip},
        NativeChip, NativeGadget,
    },
    instructions::{
        ArithInstructions, AssertionInstructions, AssignmentInstructions,
        DecompositionInstructions,
    },
    midnight_proofs::{
        circuit::{Layouter, SimpleFloorPlanner, Value},
        dev::MockProver,
        plonk::{Circuit, ConstraintSystem, Error},
    },
    testing_utils::FromScratch,
    types::AssignedField,
};

type F = midnight_curves::Fq; // BLS12-381 scalar field (native)
type K = midnight_curves::k256::Fp; // secp256k1 base field (emulated), LOG2_BASE = 64, 4 limbs
type NG = NativeGadget<F, P2RDecompositionChip<F>, NativeChip<F>>;
type FC = FieldChip<F, K, MultiEmulationParams, NG>;
type AF = AssignedField<F, K, MultiEmulationParams>;

#[derive(Clone, Copy, Debug)]
enum Op {
    /// bits of `a + b`, then recomposed and compared with `a + b`.
    Bits { enforce_canonical: bool },
    /// chunks of `a + b` of the given size.
    Chunks { nb_bits_per_chunk: usize },
}

#[derive(Clone, Debug)]
struct TestCircuit {
    a: K,
    b: Option<K>,
    op: Op,
}

impl Circuit<F> for TestCircuit {
    type Config = <FC as FromScratch<F>>::Config;
    type FloorPlanner = SimpleFloorPlanner;
    type Params = ();

    fn without_witnesses(&self) -> Self {
        unreachable!()
    }

    fn configure(meta: &mut ConstraintSystem<F>) -> Self::Config {
        let committed_instance_column = meta.instance_column();
        let instance_column = meta.instance_column();
        FC::configure_from_scratch(meta, &[committed_instance_column, instance_column])
    }

    fn synthesize(&self, config: Self::Config, mut layouter: impl Layouter<F>) -> Result<(), Error> {
        let chip = FC::new_from_scratch(&config);
        let layouter = &mut layouter;

        let a: AF = chip.assign(layouter, Value::known(self.a))?;
        let x = match self.b {
            None => a,
            Some(b) => {
                let b: AF = chip.assign(layouter, Value::known(b))?;
                chip.add(layouter, &a, &b)?
            }
        };

        match self.op {
            Op::Bits { enforce_canonical } => {
                let bits = chip.assigned_to_le_bits(layouter, &x, None, enforce_canonical)?;
                let back = chip.assigned_from_le_bits(layouter, &bits)?;
                chip.assert_equal(layouter, &x, &back)?;
            }
            Op::Chunks { nb_bits_per_chunk } => {
                let _chunks = chip.assigned_to_le_chunks(layouter, &x, nb_bits_per_chunk, None)?;
            }
        }

        chip.load_from_scratch(layouter)
    }
}

fn run(a: K, b: Option<K>, op: Op) -> Result<(), String> {
    let circuit = TestCircuit { a, b, op };
    // The debug-assertion in cpu_utils.rs fires (panics) in debug builds; treat a panic during
    // witness generation like an unsatisfiable circuit so that the message is readable.
    let res = std::panic::catch_unwind(std::panic::AssertUnwindSafe(|| {
        match MockProver::run(13, &circuit, vec![vec![], vec![]]) {
            Ok(prover) => prover.verify().map_err(|e| format!("verifier: {e:?}")),
            Err(e) => Err(format!("prover: {e:?}")),
        }
    }));
    res.unwrap_or_else(|_| Err("panic during synthesis / witness generation".into()))
}

fn two_pow_64() -> K {
    K::from(u64::MAX) + K::ONE
}

/// Control cases (pass on the unchanged code).
#[test]
fn control() {
    // Small values: no limb overflows.
    assert!(run(K::from(12345), None, Op::Bits { enforce_canonical: false }).is_ok());
    assert!(run(K::from(7), Some(K::from(9)), Op::Bits { enforce_canonical: false }).is_ok());
    // The problematic inputs are fine when canonicity is requested (the element is normalised).
    assert!(run(two_pow_64(), None, Op::Bits { enforce_canonical: true }).is_ok());
    let h = K::from(1u64 << 63) + K::ONE;
    assert!(run(h, Some(h), Op::Bits { enforce_canonical: true }).is_ok());
    // Chunk size dividing LOG2_BASE = 64 goes through the (normalising) fast path.
    assert!(run(h, Some(h), Op::Chunks { nb_bits_per_chunk: 4 }).is_ok());
}

/// FAILS on the unchanged code. x = 2^64 is a freshly assigned (well-formed) element: the limbs of
/// x - 1 are [2^64 - 1, 0, 0, 0]; after `add_constant(x, 1)` limb 0 equals 2^64.
#[test]
fn bits_of_fresh_element_two_pow_64() {
    let r = run(two_pow_64(), None, Op::Bits { enforce_canonical: false });
    assert!(r.is_ok(), "assigned_to_le_bits(2^64, None, false) is unsatisfiable: {r:?}");
}

/// FAILS on the unchanged code. x = a + b is left un-normalised by `add`; limb 0 of both summands
/// is 2^63, hence limb 0 of x is 2^64 + 1.
#[test]
fn bits_of_unnormalised_sum() {
    let h = K::from(1u64 << 63) + K::ONE;
    let r = run(h, Some(h), Op::Bits { enforce_canonical: false });
    assert!(r.is_ok(), "assigned_to_le_bits(a + b, None, false) is unsatisfiable: {r:?}");
}

/// FAILS on the unchanged code. 5 does not divide LOG2_BASE = 64, so `assigned_to_le_chunks` falls
/// back to `assigned_to_le_bits(x, None, false)`.
#[test]
fn chunks_of_5_bits() {
    let r = run(two_pow_64(), None, Op::Chunks { nb_bits_per_chunk: 5 });
    assert!(r.is_ok(), "assigned_to_le_chunks(2^64, 5, None) is unsatisfiable: {r:?}");
    let h = K::from(1u64 << 63) + K::ONE;
    let r = run(h, Some(h), Op::Chunks { nb_bits_per_chunk: 5 });
    assert!(r.is_ok(), "assigned_to_le_chunks(a + b, 5, None) is unsatisfiable: {r:?}");
}
