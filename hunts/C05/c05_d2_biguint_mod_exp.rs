// C05 / defect 2: `BigUintGadget::mod_exp(x, n, m)` does not reduce modulo `m` when `n == 1`
// (it returns `x` itself), and returns 1 instead of 0 for `n == 0, m == 1`.
//
// WHERE IT BELONGS: integration test of the `midnight-circuits` crate. Copy this file to
//   circuits/tests/c05_d2_biguint_mod_exp.rs
// and run
//   CARGO_TARGET_DIR=/tmp/hunt-C05/target cargo test --offline -j 4 -p midnight-circuits \
//       --features testing --test c05_d2_biguint_mod_exp
//
// Uses only the public API (feature `testing` is needed for `FromScratch`).
//
// Expected (doc of mod_exp: "Modular exponentiation (by a constant). Returns `x^n % m`"):
//   mod_exp(10, 1, 7) == 3   and   mod_exp(10, 0, 1) == 0.
// Observed: mod_exp(10, 1, 7) == 10 (accepted by the circuit), mod_exp(10, 0, 1) == 1.
// Cause: circuits/src/biguint/biguint_gadget.rs, `fn mod_exp`: in the square-and-multiply loop
//   the first set bit initialises `res = Some(tmp.clone())` with `tmp = x` un-reduced; for n = 1
//   no `mod_mul` is ever executed. For n = 0 the constant 1 is returned without reduction.

use midnight_circuits::{
    biguint::BigUintGadget,
    field::{decomposition::chip::P2RDecompositionChip, NativeChip, NativeGadget},
    instructions::AssertionInstructions,
    midnight_proofs::{
        circuit::{Layouter, SimpleFloorPlanner, Value},
        dev::MockProver,
        plonk::{Circuit, ConstraintSystem, Error},
    },
    testing_utils::FromScratch,
};
use num_bigint::BigUint;

type F = midnight_curves::Fq;
type NG = NativeGadget<F, P2RDecompositionChip<F>, NativeChip<F>>;

#[derive(Clone, Debug)]
struct ModExpCircuit {
    x: BigUint,
    n: u64,
    m: BigUint,
    claimed: BigUint,
}

impl Circuit<F> for ModExpCircuit {
    type Config = <NG as FromScratch<F>>::Config;
    type FloorPlanner = SimpleFloorPlanner;
    type Params = ();

    fn without_witnesses(&self) -> Self {
        unreachable!()
    }

    fn configure(meta: &mut ConstraintSystem<F>) -> Self::Config {
        let committed_instance_column = meta.instance_column();
        let instance_column = meta.instance_column();
        NG::configure_from_scratch(meta, &[committed_instance_column, instance_column])
    }

    fn synthesize(&self, config: Self::Config, mut layouter: impl Layouter<F>) -> Result<(), Error> {
        let native_gadget = NG::new_from_scratch(&config);
        let biguint = BigUintGadget::<F, NG>::new(&native_gadget);
        let layouter = &mut layouter;

        let x = biguint.assign_biguint(layouter, Value::known(self.x.clone()), 64)?;
        let m = biguint.assign_biguint(layouter, Value::known(self.m.clone()), 64)?;
        let res = biguint.mod_exp(layouter, &x, self.n, &m)?;
        biguint.assert_equal_to_fixed(layouter, &res, self.claimed.clone())?;

        native_gadget.load_from_scratch(layouter)
    }
}

/// Is the circuit "mod_exp(x, n, m) == claimed" satisfied by the honest prover?
fn run(x: u64, n: u64, m: u64, claimed: u64) -> Result<(), String> {
    let circuit = ModExpCircuit {
        x: BigUint::from(x),
        n,
        m: BigUint::from(m),
        claimed: BigUint::from(claimed),
    };
    match MockProver::run(12, &circuit, vec![vec![], vec![]]) {
        Ok(prover) => prover.verify().map_err(|e| format!("verifier: {e:?}")),
        Err(e) => Err(format!("prover: {e:?}")),
    }
}

/// Control cases (pass on the unchanged code).
#[test]
fn control() {
    assert!(run(10, 2, 7, 2).is_ok()); // 100 % 7
    assert!(run(10, 3, 7, 6).is_ok()); // 1000 % 7
    assert!(run(5, 1, 7, 5).is_ok()); // x < m
    assert!(run(10, 3, 7, 5).is_err());
}

/// FAILS on the unchanged code: 10^1 mod 7 = 3.
#[test]
fn exponent_one_is_reduced() {
    let r = run(10, 1, 7, 3);
    assert!(r.is_ok(), "mod_exp(10, 1, 7) is not 3: {r:?}");
}

/// FAILS on the unchanged code: the un-reduced value 10 is accepted as 10^1 mod 7.
#[test]
fn exponent_one_unreduced_value_is_rejected() {
    assert!(run(10, 1, 7, 10).is_err(), "circuit accepted mod_exp(10, 1, 7) == 10 (>= m)");
}

/// FAILS on the unchanged code: x^0 mod 1 = 0 (the result must lie in [0, m)).
#[test]
fn exponent_zero_modulus_one() {
    let r = run(10, 0, 1, 0);
    assert!(r.is_ok(), "mod_exp(10, 0, 1) is not 0: {r:?}");
}
