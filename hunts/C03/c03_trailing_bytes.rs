// C03 hunt, defect 1: `midnight_proofs::plonk::prepare` (and therefore
// `parse_trace` + `verify_algebraic_constraints` + `KZGCommitmentScheme::multi_prepare`)
// accept a proof with trailing bytes, although their documentation promises an error.
//
// Where it belongs: proofs/tests/c03_trailing_bytes.rs (integration test, public API only).
// How to run:
//   cp _hunt/c03_trailing_bytes.rs proofs/tests/
//   CARGO_TARGET_DIR=/tmp/hunt-C03/target cargo test --offline -j 4 -p midnight-proofs \
//       --test c03_trailing_bytes
//
// Documentation that is violated (proofs/src/plonk/verifier.rs, `prepare`):
//   "The verifier will error if there are trailing bytes in the transcript."
// (the same sentence is on `verify_algebraic_constraints`, and
//  proofs/src/poly/commitment.rs says of `multi_prepare`:
//  "The function fails if the transcript has trailing bytes.")

use blake2b_simd::State;
use ff::Field;
use midnight_curves::{Bls12, Fq};
use midnight_proofs::{
    circuit::{Layouter, SimpleFloorPlanner, Value},
    plonk::{
        commit_to_instances, create_proof, keygen_pk, keygen_vk_with_k, prepare, Advice, Circuit,
        Column, ConstraintSystem, Constraints, Error, Instance, Selector,
    },
    poly::{
        commitment::Guard,
        kzg::{params::ParamsKZG, KZGCommitmentScheme},
        Rotation,
    },
    transcript::{CircuitTranscript, Transcript},
};
use rand_core::OsRng;

type Scheme = KZGCommitmentScheme<Bls12>;

const K: u32 = 4;

/// Row 0:  a = committed_instance[0]   and   a * b = public_instance[0].
#[derive(Clone, Default)]
struct MulCircuit {
    a: Value<Fq>,
    b: Value<Fq>,
}

#[derive(Clone, Debug)]
struct MulConfig {
    a: Column<Advice>,
    b: Column<Advice>,
    s: Selector,
}

impl Circuit<Fq> for MulCircuit {
    type Config = MulConfig;
    type FloorPlanner = SimpleFloorPlanner;
    #[cfg(feature = "circuit-params")]
    type Params = ();

    fn without_witnesses(&self) -> Self {
        Self::default()
    }

    fn configure(meta: &mut ConstraintSystem<Fq>) -> MulConfig {
        // Committed instance columns go first.
        let ci: Column<Instance> = meta.instance_column();
        let pi: Column<Instance> = meta.instance_column();
        let a = meta.advice_column();
        let b = meta.advice_column();
        let s = meta.selector();

        meta.create_gate("a = ci, a * b = pi", |meta| {
            let a = meta.query_advice(a, Rotation::cur());
            let b = meta.query_advice(b, Rotation::cur());
            let ci = meta.query_instance(ci, Rotation::cur());
            let pi = meta.query_instance(pi, Rotation::cur());
            Constraints::with_selector(s, vec![a.clone() - ci, a * b - pi])
        });

        MulConfig { a, b, s }
    }

    fn synthesize(&self, config: MulConfig, mut layouter: impl Layouter<Fq>) -> Result<(), Error> {
        layouter.assign_region(
            || "mul",
            |mut region| {
                config.s.enable(&mut region, 0)?;
                region.assign_advice(|| "a", config.a, 0, || self.a)?;
                region.assign_advice(|| "b", config.b, 0, || self.b)?;
                Ok(())
            },
        )
    }
}

#[test]
fn prepare_rejects_trailing_bytes() {
    let params = ParamsKZG::<Bls12>::unsafe_setup(K, OsRng);
    let vk = keygen_vk_with_k::<Fq, Scheme, _>(&params, &MulCircuit::default(), K).unwrap();
    let pk = keygen_pk(vk.clone(), &MulCircuit::default()).unwrap();

    let (a, b) = (Fq::from(3), Fq::from(5));
    let circuit = MulCircuit {
        a: Value::known(a),
        b: Value::known(b),
    };
    let ci = [a];
    let pi = [a * b];

    let mut transcript = CircuitTranscript::<State>::init();
    create_proof::<Fq, Scheme, _, _>(
        &params,
        &pk,
        &[circuit],
        1,
        &[&[&ci, &pi]],
        OsRng,
        &mut transcript,
    )
    .expect("proof generation should not fail");
    let proof = transcript.finalize();

    let com = commit_to_instances::<Fq, Scheme>(&params, vk.get_domain(), &ci);
    let verify = |proof: &[u8]| -> Result<(), String> {
        let mut transcript = CircuitTranscript::<State>::init_from_bytes(proof);
        let guard = prepare::<Fq, Scheme, _>(&vk, &[&[com]], &[&[&pi]], &mut transcript)
            .map_err(|e| format!("prepare: {e:?}"))?;
        guard.verify(&params.verifier_params()).map_err(|e| format!("pairing: {e:?}"))
    };

    // Sanity: the untouched proof is accepted, a proof with its last byte removed is not.
    assert_eq!(verify(&proof), Ok(()));
    assert!(verify(&proof[..proof.len() - 1]).is_err());

    // The property: these are not the bytes the proof was made of.
    for extra in [vec![0u8], vec![0xff; 7], vec![0u8; 48], proof.clone()] {
        let mut extended = proof.clone();
        extended.extend_from_slice(&extra);
        assert!(
            verify(&extended).is_err(),
            "`prepare` + `Guard::verify` accepted a proof followed by {} trailing byte(s), \
             although `prepare` documents that it errors on trailing bytes",
            extra.len()
        );
    }
    let _ = Fq::ZERO;
}
