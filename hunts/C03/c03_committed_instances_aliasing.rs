// C03 hunt, defect 3: the outcome of `midnight_proofs::plonk::prepare` depends on the ADDRESSES of
// the committed instances handed to it, not on their values. `verify_algebraic_constraints` builds
// `VerifierQuery::new(.., &committed_instances[column.index()], ..)` and
// `CommitmentReference::eq` (proofs/src/poly/query.rs) compares commitments with `std::ptr::eq`.
// When two proofs of a batch are given the same committed-instance slice (same committed value in
// both circuits, the natural way to write it), the two queries of that commitment at the same
// point are taken for a duplicate and `construct_intermediate_sets` returns
// `Error::DuplicatedQuery`, surfacing as `Error::Opening`: a perfectly valid proof is rejected.
// Passing two distinct copies of the very same commitments makes the same proof verify.
//
// Where it belongs: proofs/tests/c03_committed_instances_aliasing.rs (integration test, public API).
// How to run:
//   cp _hunt/c03_committed_instances_aliasing.rs proofs/tests/
//   CARGO_TARGET_DIR=/tmp/hunt-C03/target cargo test --offline -j 4 -p midnight-proofs \
//       --test c03_committed_instances_aliasing

use blake2b_simd::State;
use ff::Field;
use midnight_curves::{Bls12, Fq};
use midnight_proofs::{
    circuit::{Layouter, SimpleFloorPlanner, Value},
    plonk::{
        commit_to_instances, create_proof, keygen_pk, keygen_vk_with_k, prepare, Advice, Circuit,
        Column, ConstraintSystem, Constraints, Error, Instance, Selector,
    },
    poly::{
        commitment::Guard,
        kzg::{params::ParamsKZG, KZGCommitmentScheme},
        Rotation,
    },
    transcript::{CircuitTranscript, Transcript},
};
use rand_core::OsRng;

type Scheme = KZGCommitmentScheme<Bls12>;

const K: u32 = 4;

/// Row 0:  a = committed_instance[0]   and   a * b = public_instance[0].
#[derive(Clone, Default)]
struct MulCircuit {
    a: Value<Fq>,
    b: Value<Fq>,
}

#[derive(Clone, Debug)]
struct MulConfig {
    a: Column<Advice>,
    b: Column<Advice>,
    s: Selector,
}

impl Circuit<Fq> for MulCircuit {
    type Config = MulConfig;
    type FloorPlanner = SimpleFloorPlanner;
    #[cfg(feature = "circuit-params")]
    type Params = ();

    fn without_witnesses(&self) -> Self {
        Self::default()
    }

    fn configure(meta: &mut ConstraintSystem<Fq>) -> MulConfig {
        // Committed instance columns go first.
        let ci: Column<Instance> = meta.instance_column();
        let pi: Column<Instance> = meta.instance_column();
        let a = meta.advice_column();
        let b = meta.advice_column();
        let s = meta.selector();

        meta.create_gate("a = ci, a * b = pi", |meta| {
            let a = meta.query_advice(a, Rotation::cur());
            let b = meta.query_advice(b, Rotation::cur());
            let ci = meta.query_instance(ci, Rotation::cur());
            let pi = meta.query_instance(pi, Rotation::cur());
            Constraints::with_selector(s, vec![a.clone() - ci, a * b - pi])
        });

        MulConfig { a, b, s }
    }

    fn synthesize(&self, config: MulConfig, mut layouter: impl Layouter<Fq>) -> Result<(), Error> {
        layouter.assign_region(
            || "mul",
            |mut region| {
                config.s.enable(&mut region, 0)?;
                region.assign_advice(|| "a", config.a, 0, || self.a)?;
                region.assign_advice(|| "b", config.b, 0, || self.b)?;
                Ok(())
            },
        )
    }
}

#[test]
fn verification_does_not_depend_on_the_address_of_committed_instances() {
    let params = ParamsKZG::<Bls12>::unsafe_setup(K, OsRng);
    let vk = keygen_vk_with_k::<Fq, Scheme, _>(&params, &MulCircuit::default(), K).unwrap();
    let pk = keygen_pk(vk.clone(), &MulCircuit::default()).unwrap();

    // Two circuits sharing the same committed instance `a`, with different public inputs.
    let a = Fq::from(3);
    let (b1, b2) = (Fq::from(5), Fq::from(7));
    let circuits = [
        MulCircuit {
            a: Value::known(a),
            b: Value::known(b1),
        },
        MulCircuit {
            a: Value::known(a),
            b: Value::known(b2),
        },
    ];
    let ci = [a];
    let pi1 = [a * b1];
    let pi2 = [a * b2];

    let mut transcript = CircuitTranscript::<State>::init();
    create_proof::<Fq, Scheme, _, _>(
        &params,
        &pk,
        &circuits,
        1,
        &[&[&ci, &pi1], &[&ci, &pi2]],
        OsRng,
        &mut transcript,
    )
    .expect("proof generation should not fail");
    let proof = transcript.finalize();

    let com = commit_to_instances::<Fq, Scheme>(&params, vk.get_domain(), &ci);

    let verify = |committed: &[&[midnight_curves::G1Projective]]| -> Result<(), String> {
        let mut transcript = CircuitTranscript::<State>::init_from_bytes(&proof);
        let guard =
            prepare::<Fq, Scheme, _>(&vk, committed, &[&[&pi1], &[&pi2]], &mut transcript)
                .map_err(|e| format!("prepare: {e:?}"))?;
        transcript.assert_empty().map_err(|e| format!("trailing: {e:?}"))?;
        guard.verify(&params.verifier_params()).map_err(|e| format!("pairing: {e:?}"))
    };

    // Two separately allocated copies of the same commitment: accepted.
    let copy1 = vec![com];
    let copy2 = vec![com];
    assert_eq!(verify(&[&copy1[..], &copy2[..]]), Ok(()));

    // The very same values, but both proofs point at the same slice: must be accepted as well.
    let shared = vec![com];
    assert_eq!(
        verify(&[&shared[..], &shared[..]]),
        Ok(()),
        "the same proof, for the same committed instances, is rejected when the two proofs are \
         given the same committed-instance slice"
    );
    let _ = Fq::ZERO;
}
