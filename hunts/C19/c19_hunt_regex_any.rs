// C19 hunt -- defect 1: `Regex::any()` cannot be compiled (panic).
//
// Belongs in: circuits/tests/c19_hunt_regex_any.rs  (integration test, public API only)
// Run with:
//   CARGO_TARGET_DIR=/tmp/hunt-C19/target cargo test --offline -j 4 -p midnight-circuits \
//       --test c19_hunt_regex_any -- --test-threads 1
//
// Every test below FAILS on the unchanged library.

use midnight_circuits::parsing::regex::{Regex, RegexInstructions};

/// Runs the (public) transition table of the automaton compiled from `regex`
/// on `input`. Returns `Some(markers)` iff the word is accepted.
fn run(regex: &Regex, input: &[u8]) -> Option<Vec<usize>> {
    let automaton = regex.to_automaton();
    let mut state = automaton.initial_state;
    let mut markers = Vec::with_capacity(input.len());
    for b in input {
        let (target, marker) = *automaton.transitions.get(&(state, *b))?;
        state = target;
        markers.push(marker);
    }
    automaton.final_states.contains(&state).then_some(markers)
}

// ---------------------------------------------------------------------------
// Defect 1: `Regex::any()` cannot be compiled.
//
// `RegexInstructions::any()` is documented as "A regular expression accepting
// any unmarked string. This is equivalent to `Self::any_byte().list()`, but
// more efficient to process."  Compiling it panics.
// ---------------------------------------------------------------------------

#[test]
fn any_is_equivalent_to_any_byte_list() {
    // Reference: the expression `any()` is documented to be equivalent to.
    let reference = Regex::any_byte().list();
    for w in [&b""[..], b"a", b"hello world", &[0u8, 255, 17]] {
        assert_eq!(run(&reference, w), Some(vec![0; w.len()]));
    }
    // The same words through `any()`: panics in `to_automaton`.
    let any = Regex::any();
    for w in [&b""[..], b"a", b"hello world", &[0u8, 255, 17]] {
        assert_eq!(run(&any, w), Some(vec![0; w.len()]));
    }
}

#[test]
fn any_under_star_and_plus() {
    // any()* and any()+ are also the universal language.
    for r in [Regex::any().list(), Regex::any().non_empty_list(), Regex::any().optional()] {
        assert_eq!(run(&r, b"xyz"), Some(vec![0; 3]));
        assert_eq!(run(&r, b""), Some(vec![]));
    }
}
