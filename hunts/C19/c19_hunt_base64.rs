// C19 hunt -- in-circuit base64 decoding defects.
//
// Belongs in: zk_stdlib/tests/c19_hunt_base64.rs  (integration test, public API only)
// Run with:
//   CARGO_TARGET_DIR=/tmp/hunt-C19/target cargo test --offline -j 4 -p midnight-zk-stdlib \
//       --test c19_hunt_base64 -- --test-threads 1
//
// `var_padded_input_alignment_8` FAILS on the unchanged library (defect 3).
// The `control_*` tests PASS: they show that the harness is right and isolate
// the cause (same input with alignment 4; alignment 8 without '=').

use std::io;

use midnight_circuits::{
    instructions::base64::{Base64VarInstructions, Base64Vec},
    types::{AssignedByte, AssignedVector, InnerValue},
};
use midnight_proofs::{
    circuit::{Layouter, Value},
    dev::MockProver,
    plonk::Error,
};
use midnight_zk_stdlib::{MidnightCircuit, Relation, ZkStdLib, ZkStdLibArch};

type F = midnight_curves::Fq;

/// Reference decoding (the `base64` crate, standard alphabet, canonical
/// padding required), completed with zero bytes up to 3/4 of the input length
/// as documented in `Base64Instructions::decode_base64`.
fn reference(input: &[u8]) -> Vec<u8> {
    let mut out = base64::decode_config(input, base64::STANDARD).expect("well-formed base64");
    out.resize(input.len() / 4 * 3, 0);
    out
}

/// Variable-length decoding of a padded base64 string, for a vector of capacity
/// `M` aligned on chunks of `A` bytes.
#[derive(Clone)]
struct VarDecode<const M: usize, const A: usize, const M_OUT: usize, const A_OUT: usize>;

impl<const M: usize, const A: usize, const M_OUT: usize, const A_OUT: usize> Relation
    for VarDecode<M, A, M_OUT, A_OUT>
{
    type Instance = ();
    type Witness = Vec<u8>;

    fn format_instance(_: &Self::Instance) -> Result<Vec<F>, Error> {
        Ok(vec![])
    }

    fn circuit(
        &self,
        std_lib: &ZkStdLib,
        layouter: &mut impl Layouter<F>,
        _instance: Value<Self::Instance>,
        witness: Value<Self::Witness>,
    ) -> Result<(), Error> {
        let b64 = std_lib.base64();
        let input: Base64Vec<F, M, A> = b64.assign_var_base64(layouter, witness.clone())?;
        let output: AssignedVector<F, AssignedByte<F>, M_OUT, A_OUT> =
            b64.var_decode_base64(layouter, &input)?;
        // The decoded vector must be the standard decoding of the input.
        output.value().zip(witness).assert_if_known(|(out, w)| *out == reference(w));
        Ok(())
    }

    fn used_chips(&self) -> ZkStdLibArch {
        ZkStdLibArch {
            base64: true,
            ..ZkStdLibArch::default()
        }
    }

    fn write_relation<W: io::Write>(&self, _writer: &mut W) -> io::Result<()> {
        unimplemented!()
    }

    fn read_relation<R: io::Read>(_reader: &mut R) -> io::Result<Self> {
        unimplemented!()
    }
}

fn var_decode_is_satisfied<const M: usize, const A: usize, const M_OUT: usize, const A_OUT: usize>(
    input: &[u8],
) -> Result<(), String> {
    let relation = VarDecode::<M, A, M_OUT, A_OUT>;
    let circuit =
        MidnightCircuit::new(&relation, Value::known(()), Value::known(input.to_vec()), Some(8));
    let prover = MockProver::run(13, &circuit, vec![vec![], vec![]])
        .map_err(|e| format!("synthesis failed: {e:?}"))?;
    prover.verify().map_err(|e| format!("unsatisfied: {e:?}"))
}

// All well-formed padded base64 strings ("every padding form"), lengths 4 and 12.
const WELL_FORMED: [&[u8]; 6] =
    [b"QQ==", b"QUI=", b"QUJD", b"QUJDREVGRw==", b"QUJDREVGR0g=", b"QUJDREVGR0hJ"];

#[test]
fn control_var_padded_input_alignment_4() {
    for input in WELL_FORMED {
        assert_eq!(
            var_decode_is_satisfied::<64, 4, 48, 3>(input),
            Ok(()),
            "input {:?}",
            String::from_utf8_lossy(input)
        );
    }
}

#[test]
fn control_var_unpadded_multiple_of_alignment_8() {
    // Length 8 = one full chunk of the alignment, no '=': works with A = 8.
    assert_eq!(var_decode_is_satisfied::<64, 8, 48, 6>(b"QUJDREVG"), Ok(()));
    // Length 8 with '=' in the last base64 quadruple, which is also the last
    // quadruple of the buffer: works as well.
    assert_eq!(var_decode_is_satisfied::<64, 8, 48, 6>(b"QUJDRA=="), Ok(()));
}

// ---------------------------------------------------------------------------
// Defect 3: `var_decode_base64` only treats the '=' padding in the last
// quadruple *of the buffer*. With an alignment `A > 4` (the function only
// requires `A % 4 == 0`), a payload whose length is not a multiple of `A` is
// followed by `A - len % A` filler bytes, so its last quadruple is not the last
// one of the buffer and its '=' characters reach the lookup (and the witness
// computation) undecoded.
// ---------------------------------------------------------------------------
#[test]
fn var_padded_input_alignment_8() {
    let mut failures = vec![];
    for input in WELL_FORMED {
        let res = std::panic::catch_unwind(|| var_decode_is_satisfied::<64, 8, 48, 6>(input));
        match res {
            Ok(Ok(())) => (),
            Ok(Err(e)) => failures.push(format!("{:?}: {e}", String::from_utf8_lossy(input))),
            Err(_) => failures.push(format!("{:?}: PANIC", String::from_utf8_lossy(input))),
        }
    }
    assert!(
        failures.is_empty(),
        "well-formed base64 inputs rejected with alignment A = 8:\n{}",
        failures.join("\n")
    );
}
