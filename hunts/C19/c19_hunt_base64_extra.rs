// C19 hunt -- additional observations on in-circuit base64 decoding (fixed length).
//
// Belongs in: zk_stdlib/tests/c19_hunt_base64_extra.rs (integration test, public API only)
// Run with:
//   CARGO_TARGET_DIR=/tmp/hunt-C19/target cargo test --offline -j 4 -p midnight-zk-stdlib \
//       --test c19_hunt_base64_extra -- --test-threads 1
//
// These tests check that MALFORMED inputs make the circuit unsatisfiable, as
// property C19 states. Note that the module documentation of `base64_chip.rs`
// disclaims the validation of the padding format, so these are reported as
// observations, separately from the three main defects.

use std::io;

use midnight_circuits::{
    instructions::{AssertionInstructions, AssignmentInstructions, Base64Instructions},
    types::AssignedByte,
};
use midnight_proofs::{
    circuit::{Layouter, Value},
    dev::MockProver,
    plonk::Error,
};
use midnight_zk_stdlib::{MidnightCircuit, Relation, ZkStdLib, ZkStdLibArch};

type F = midnight_curves::Fq;

#[derive(Clone)]
struct FixedDecode {
    len: usize,
    url: bool,
    padded: bool,
    // Expected output (zero-completed), asserted in-circuit.
    expected: Vec<u8>,
}

impl Relation for FixedDecode {
    type Instance = ();
    type Witness = Vec<u8>;

    fn format_instance(_: &Self::Instance) -> Result<Vec<F>, Error> {
        Ok(vec![])
    }

    fn circuit(
        &self,
        std_lib: &ZkStdLib,
        layouter: &mut impl Layouter<F>,
        _instance: Value<Self::Instance>,
        witness: Value<Self::Witness>,
    ) -> Result<(), Error> {
        let b64 = std_lib.base64();
        let input: Vec<AssignedByte<F>> =
            std_lib.assign_many(layouter, &witness.transpose_vec(self.len))?;
        let output = if self.url {
            b64.decode_base64url(layouter, &input, self.padded)?
        } else {
            b64.decode_base64(layouter, &input, self.padded)?
        };
        assert_eq!(output.len(), self.expected.len());
        for (o, e) in output.iter().zip(self.expected.iter()) {
            std_lib.assert_equal_to_fixed(layouter, o, *e)?;
        }
        Ok(())
    }

    fn used_chips(&self) -> ZkStdLibArch {
        ZkStdLibArch {
            base64: true,
            ..ZkStdLibArch::default()
        }
    }

    fn write_relation<W: io::Write>(&self, _writer: &mut W) -> io::Result<()> {
        unimplemented!()
    }

    fn read_relation<R: io::Read>(_reader: &mut R) -> io::Result<Self> {
        unimplemented!()
    }
}

/// Returns true iff the circuit decoding `input` into `expected` is satisfied.
fn satisfied(input: &[u8], url: bool, padded: bool, expected: &[u8]) -> bool {
    let relation = FixedDecode {
        len: input.len(),
        url,
        padded,
        expected: expected.to_vec(),
    };
    let input = input.to_vec();
    // A panic during witness generation (e.g. a character outside of the table)
    // counts as a rejection.
    let res = std::panic::catch_unwind(move || {
        let circuit =
            MidnightCircuit::new(&relation, Value::known(()), Value::known(input), Some(8));
        match MockProver::run(13, &circuit, vec![vec![], vec![]]) {
            Ok(prover) => prover.verify().is_ok(),
            Err(_) => false,
        }
    });
    res.unwrap_or(false)
}

#[test]
fn control_well_formed() {
    assert!(satisfied(b"Pz8-", true, true, b"??>"));
    assert!(satisfied(b"Pz8+", false, true, b"??>"));
    assert!(satisfied(b"QQ==", false, true, b"A\0\0"));
    // '-' is not in the standard alphabet: correctly rejected.
    assert!(!satisfied(b"Pz8-", false, true, b"??>"));
}

/// base64url: '+' and '/' do not belong to the URL-safe alphabet (RFC 4648 §5);
/// the reference decoder rejects them.
#[test]
fn base64url_rejects_plus_and_slash() {
    assert!(base64::decode_config("Pz8+", base64::URL_SAFE).is_err());
    assert!(base64::decode_config("Pz8/", base64::URL_SAFE).is_err());
    assert!(
        !satisfied(b"Pz8+", true, true, b"??>"),
        "decode_base64url accepts '+', which is not in the base64url alphabet"
    );
    assert!(
        !satisfied(b"Pz8/", true, true, b"???"),
        "decode_base64url accepts '/', which is not in the base64url alphabet"
    );
}

/// Unpadded input of length 1 mod 4 is never a valid base64 string.
#[test]
fn unpadded_length_1_mod_4_is_rejected() {
    assert!(base64::decode_config("QUJDQ", base64::STANDARD_NO_PAD).is_err());
    assert!(
        !satisfied(b"QUJDQ", false, false, b"ABC@\0\0"),
        "decode_base64(padded = false) accepts an input of length 5"
    );
}

/// Non-canonical encodings (non-zero discarded bits) are rejected by the
/// reference decoder.
#[test]
fn non_canonical_trailing_bits_are_rejected() {
    assert!(base64::decode_config("QR==", base64::STANDARD).is_err());
    assert!(
        !satisfied(b"QR==", false, true, b"A\x10\0"),
        "decode_base64 accepts the non-canonical encoding \"QR==\""
    );
}

// ---------------------------------------------------------------------------
// `base64_from_vec` does not constrain the length to be a multiple of 4, and
// `var_decode_base64` derives the output length as `3 * len / 4` *in the field*.
// ---------------------------------------------------------------------------
#[derive(Clone)]
struct FromVecDecode;

impl Relation for FromVecDecode {
    type Instance = ();
    type Witness = Vec<u8>;

    fn format_instance(_: &Self::Instance) -> Result<Vec<F>, Error> {
        Ok(vec![])
    }

    fn circuit(
        &self,
        std_lib: &ZkStdLib,
        layouter: &mut impl Layouter<F>,
        _instance: Value<Self::Instance>,
        witness: Value<Self::Witness>,
    ) -> Result<(), Error> {
        use midnight_circuits::{
            instructions::{base64::Base64VarInstructions, VectorInstructions},
            types::AssignedVector,
        };
        let b64 = std_lib.base64();
        let vec: AssignedVector<F, AssignedByte<F>, 64, 4> =
            std_lib.assign_with_filler(layouter, witness, None)?;
        let input = b64.base64_from_vec(layouter, &vec)?;
        let _output: AssignedVector<F, AssignedByte<F>, 48, 3> =
            b64.var_decode_base64(layouter, &input)?;
        Ok(())
    }

    fn used_chips(&self) -> ZkStdLibArch {
        ZkStdLibArch {
            base64: true,
            ..ZkStdLibArch::default()
        }
    }

    fn write_relation<W: io::Write>(&self, _writer: &mut W) -> io::Result<()> {
        unimplemented!()
    }

    fn read_relation<R: io::Read>(_reader: &mut R) -> io::Result<Self> {
        unimplemented!()
    }
}

#[test]
fn var_decode_rejects_length_not_multiple_of_4() {
    let run = |input: &'static [u8]| -> bool {
        std::panic::catch_unwind(move || {
            let relation = FromVecDecode;
            let circuit = MidnightCircuit::new(
                &relation,
                Value::known(()),
                Value::known(input.to_vec()),
                Some(8),
            );
            match MockProver::run(14, &circuit, vec![vec![], vec![]]) {
                Ok(prover) => prover.verify().is_ok(),
                Err(_) => false,
            }
        })
        .unwrap_or(false)
    };
    assert!(run(b"QUJD"), "control: a length-4 vector decodes");
    assert!(
        !run(b"QU"),
        "a vector of length 2 is decoded as padded base64; the length of the output vector is \
         the field element 3/2"
    );
}
