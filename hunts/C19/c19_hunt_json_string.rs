// C19 hunt -- defect 2: `Regex::json_string()` (and the shipped JWT automaton) reject non-ASCII UTF-8.
//
// Belongs in: circuits/tests/c19_hunt_json_string.rs  (integration test, public API only)
// Run with:
//   CARGO_TARGET_DIR=/tmp/hunt-C19/target cargo test --offline -j 4 -p midnight-circuits \
//       --test c19_hunt_json_string -- --test-threads 1
//
// Every test below FAILS on the unchanged library.

use midnight_circuits::parsing::regex::{Regex, RegexInstructions};

/// Runs the (public) transition table of the automaton compiled from `regex`
/// on `input`. Returns `Some(markers)` iff the word is accepted.
fn run(regex: &Regex, input: &[u8]) -> Option<Vec<usize>> {
    let automaton = regex.to_automaton();
    let mut state = automaton.initial_state;
    let mut markers = Vec::with_capacity(input.len());
    for b in input {
        let (target, marker) = *automaton.transitions.get(&(state, *b))?;
        state = target;
        markers.push(marker);
    }
    automaton.final_states.contains(&state).then_some(markers)
}

// ---------------------------------------------------------------------------
// Defect 2: `Regex::json_string()` rejects every non-ASCII JSON string.
//
// The documentation states that it "Accepts any JSON string, as defined in RFC
// 8259 §7", that these strings "are valid UTF-8 encoding" and, in the informal
// grammar, that the unescaped characters are [0x20-0x21] | [0x23-0x5B] |
// [0x5D-0x10FFFF].
// ---------------------------------------------------------------------------

#[test]
fn json_string_accepts_non_ascii_utf8() {
    let r = Regex::json_string();
    // Sanity: ASCII strings are accepted, content marked 1, quotes marked 0.
    assert_eq!(run(&r, b"\"Alice\""), Some(vec![0, 1, 1, 1, 1, 1, 0]));
    // Ill-formed UTF-8 must be rejected (this holds).
    assert_eq!(run(&r, &[b'"', 0xC3, b'"']), None);
    assert_eq!(run(&r, &[b'"', 0xFF, b'"']), None);

    // Well-formed 2-, 3- and 4-byte code points (U+00E9, U+20AC, U+1F600).
    for s in ["\"M\u{e9}ller\"", "\"\u{20ac}\"", "\"\u{1F600}\""] {
        let w = s.as_bytes();
        let mut expected = vec![1; w.len()];
        expected[0] = 0;
        expected[w.len() - 1] = 0;
        assert_eq!(
            run(&r, w),
            Some(expected),
            "the valid JSON string {s} (bytes {w:?}) is rejected by Regex::json_string()"
        );
    }
}

/// Consequence of defect 2 on the shipped (serialized) JWT automaton: a
/// credential whose holder has a non-ASCII name cannot be parsed.
#[test]
fn shipped_jwt_parser_accepts_non_ascii_names() {
    use midnight_circuits::parsing::{spec_library, StdLibParser};

    fn jwt(family_name: &str) -> String {
        format!(
            r#"{{
    "iss" : "", "sub" : "", "nbf" : 0, "exp" : 1,
    "vc" : {{
       "credentialSubject" : {{
          "nationalId" : "id", "familyName" : "{family_name}", "givenName" : "gn",
          "publicKeyJwk" : {{ "kty" : "", "crv" : "", "x" : "x", "y" : "y" }},
          "id" : "", "birthDate" : "bd"
       }},
       "type" : [], "@context" : [], "issuer" : "",
       "credentialStatus" : {{
          "statusPurpose" : "", "statusListIndex" : 3, "id" : "", "type" : "",
          "statusListCredential" : ""
       }}
    }}
}}"#
        )
    }

    let automaton = &spec_library()[&StdLibParser::Jwt];
    // Returns the bytes marked 2 (familyName) if the input is accepted.
    let parse = |input: &str| -> Option<Vec<u8>> {
        let mut state = automaton.initial_state;
        let mut marked = vec![];
        for b in input.bytes() {
            let (target, marker) = *automaton.transitions.get(&(state, b))?;
            state = target;
            if marker == 2 {
                marked.push(b)
            }
        }
        automaton.final_states.contains(&state).then_some(marked)
    };

    assert_eq!(parse(&jwt("Muller")), Some(b"Muller".to_vec()));
    assert_eq!(
        parse(&jwt("M\u{fc}ller")),
        Some("M\u{fc}ller".as_bytes().to_vec()),
        "the shipped JWT automaton rejects a credential with a non-ASCII family name"
    );
}
