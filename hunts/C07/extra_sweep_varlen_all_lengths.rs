// Exploratory sweeps (not a defect demonstration; all pass). Copy to circuits/tests/hunt_c07_sweep.rs and run:
//   CARGO_TARGET_DIR=/tmp/hunt-C07/target cargo test --offline -j 4 -p midnight-circuits --features testing --test hunt_c07_sweep
use std::marker::PhantomData;

use midnight_circuits::{
    field::{decomposition::chip::P2RDecompositionChip, AssignedNative, NativeChip, NativeGadget},
    hash::{poseidon::{PoseidonChip, VarLenPoseidonGadget}, sha256::VarLenSha256Gadget},
    instructions::{
        hash::{HashCPU, VarHashInstructions},
        AssertionInstructions, VectorInstructions,
    },
    testing_utils::FromScratch,
    types::{AssignedByte, AssignedVector},
    vec::vector_gadget::VectorGadget,
};
use midnight_curves::Fq as F;
use midnight_proofs::{
    circuit::{Layouter, SimpleFloorPlanner, Value},
    dev::MockProver,
    plonk::{Circuit, ConstraintSystem, Error},
};

type NG = NativeGadget<F, P2RDecompositionChip<F>, NativeChip<F>>;

#[derive(Clone, Debug)]
struct VarShaCircuit<const M: usize> {
    input: Vec<u8>,
    filler: u8,
    expected: [u8; 32],
    _m: PhantomData<[u8; M]>,
}

impl<const M: usize> Circuit<F> for VarShaCircuit<M> {
    type Config = (
        <VarLenSha256Gadget<F> as FromScratch<F>>::Config,
        <VectorGadget<F> as FromScratch<F>>::Config,
    );
    type FloorPlanner = SimpleFloorPlanner;
    type Params = ();
    fn without_witnesses(&self) -> Self { unreachable!() }
    fn configure(meta: &mut ConstraintSystem<F>) -> Self::Config {
        let a = meta.instance_column();
        let b = meta.instance_column();
        let cols = [a, b];
        (
            VarLenSha256Gadget::<F>::configure_from_scratch(meta, &cols),
            VectorGadget::<F>::configure_from_scratch(meta, &cols),
        )
    }
    fn synthesize(&self, config: Self::Config, mut layouter: impl Layouter<F>) -> Result<(), Error> {
        let chip = VarLenSha256Gadget::<F>::new_from_scratch(&config.0);
        let ng = NG::new_from_scratch(&config.1);
        let vg = VectorGadget::new(&ng);
        let v: AssignedVector<F, AssignedByte<F>, M, 64> = vg.assign_with_filler(
            &mut layouter, Value::known(self.input.clone()), Some(self.filler))?;
        let out: [AssignedByte<F>; 32] = chip.varhash(&mut layouter, &v)?;
        for (o, e) in out.iter().zip(self.expected.iter()) {
            ng.assert_equal_to_fixed(&mut layouter, o, *e)?;
        }
        chip.load_from_scratch(&mut layouter)?;
        ng.load_from_scratch(&mut layouter)
    }
}

fn msg(len: usize) -> Vec<u8> {
    (0..len).map(|i| (i as u8).wrapping_mul(37).wrapping_add(11)).collect()
}

#[test]
fn sweep_sha256_varlen_m192() {
    let mut bad = vec![];
    for len in 0..=192usize {
        let input = msg(len);
        let expected = <VarLenSha256Gadget<F> as HashCPU<u8, [u8; 32]>>::hash(&input);
        let circuit = VarShaCircuit::<192> { input, filler: 0xC3, expected, _m: PhantomData };
        let prover = MockProver::run(16, &circuit, vec![vec![], vec![]]).unwrap();
        if prover.verify().is_err() { bad.push(len); }
    }
    assert!(bad.is_empty(), "bad lengths: {bad:?}");
}

#[test]
fn sweep_sha256_varlen_m64() {
    let mut bad = vec![];
    for len in 0..=64usize {
        let input = msg(len);
        let expected = <VarLenSha256Gadget<F> as HashCPU<u8, [u8; 32]>>::hash(&input);
        let circuit = VarShaCircuit::<64> { input, filler: 0xC3, expected, _m: PhantomData };
        let prover = MockProver::run(16, &circuit, vec![vec![], vec![]]).unwrap();
        if prover.verify().is_err() { bad.push(len); }
    }
    assert!(bad.is_empty(), "bad lengths: {bad:?}");
}

#[derive(Clone, Debug)]
struct VarPosCircuit<const M: usize> {
    input: Vec<F>,
    filler: F,
    expected: F,
}

impl<const M: usize> Circuit<F> for VarPosCircuit<M> {
    type Config = (
        <VarLenPoseidonGadget<F> as FromScratch<F>>::Config,
        <VectorGadget<F> as FromScratch<F>>::Config,
    );
    type FloorPlanner = SimpleFloorPlanner;
    type Params = ();
    fn without_witnesses(&self) -> Self { unreachable!() }
    fn configure(meta: &mut ConstraintSystem<F>) -> Self::Config {
        let a = meta.instance_column();
        let b = meta.instance_column();
        let cols = [a, b];
        (
            VarLenPoseidonGadget::<F>::configure_from_scratch(meta, &cols),
            VectorGadget::<F>::configure_from_scratch(meta, &cols),
        )
    }
    fn synthesize(&self, config: Self::Config, mut layouter: impl Layouter<F>) -> Result<(), Error> {
        let chip = VarLenPoseidonGadget::<F>::new_from_scratch(&config.0);
        let ng = NG::new_from_scratch(&config.1);
        let vg = VectorGadget::new(&ng);
        let v: AssignedVector<F, AssignedNative<F>, M, 2> = vg.assign_with_filler(
            &mut layouter, Value::known(self.input.clone()), Some(self.filler))?;
        let out: AssignedNative<F> = chip.varhash(&mut layouter, &v)?;
        ng.assert_equal_to_fixed(&mut layouter, &out, self.expected)?;
        chip.load_from_scratch(&mut layouter)?;
        ng.load_from_scratch(&mut layouter)
    }
}

fn sweep_pos<const M: usize>() -> Vec<usize> {
    let mut bad = vec![];
    for len in 0..=M {
        let input: Vec<F> = (0..len).map(|i| F::from(1000 + 7 * i as u64)).collect();
        let expected = <PoseidonChip<F> as HashCPU<F, F>>::hash(&input);
        let circuit = VarPosCircuit::<M> { input, filler: F::from(0xdead_beefu64), expected };
        let prover = MockProver::run(13, &circuit, vec![vec![], vec![]]).unwrap();
        if prover.verify().is_err() { bad.push(len); }
    }
    bad
}

#[test]
fn sweep_poseidon_varlen() {
    assert_eq!(sweep_pos::<2>(), Vec::<usize>::new(), "M=2");
    assert_eq!(sweep_pos::<4>(), Vec::<usize>::new(), "M=4");
    assert_eq!(sweep_pos::<12>(), Vec::<usize>::new(), "M=12");
}
