// HUNT C07 -- defect 1: VarLenSha256Gadget silently returns a wrong digest when
// MAX_LEN is not a multiple of 64.
//
// Where it belongs: copy this file to circuits/tests/hunt_c07_sha256_varlen.rs (integration test, public API only,
// needs the `testing` feature for `FromScratch`).
//
// Run with:
//   CARGO_TARGET_DIR=/tmp/hunt-C07/target cargo test --offline -j 4 -p midnight-circuits \
//       --features testing --test hunt_c07_sha256_varlen -- --nocapture
//
// `sanity_*` tests pass (they show that the harness is right); `defect_*` tests FAIL on the
// unchanged code.

use std::marker::PhantomData;

use midnight_circuits::{
    field::{decomposition::chip::P2RDecompositionChip, NativeChip, NativeGadget},
    hash::sha256::VarLenSha256Gadget,
    instructions::{
        hash::{HashCPU, VarHashInstructions},
        AssertionInstructions, VectorInstructions,
    },
    testing_utils::FromScratch,
    types::{AssignedByte, AssignedVector},
    vec::vector_gadget::VectorGadget,
};
use midnight_curves::Fq as F;
use midnight_proofs::{
    circuit::{Layouter, SimpleFloorPlanner, Value},
    dev::MockProver,
    plonk::{Circuit, ConstraintSystem, Error},
};

type NG = NativeGadget<F, P2RDecompositionChip<F>, NativeChip<F>>;

#[derive(Clone, Debug)]
struct VarShaCircuit<const M: usize> {
    input: Vec<u8>,
    filler: u8,
    expected: [u8; 32],
    _m: PhantomData<[u8; M]>,
}

impl<const M: usize> Circuit<F> for VarShaCircuit<M> {
    type Config = (
        <VarLenSha256Gadget<F> as FromScratch<F>>::Config,
        <VectorGadget<F> as FromScratch<F>>::Config,
    );
    type FloorPlanner = SimpleFloorPlanner;
    type Params = ();

    fn without_witnesses(&self) -> Self {
        unreachable!()
    }

    fn configure(meta: &mut ConstraintSystem<F>) -> Self::Config {
        let committed_instance_column = meta.instance_column();
        let instance_column = meta.instance_column();
        let cols = [committed_instance_column, instance_column];
        (
            VarLenSha256Gadget::<F>::configure_from_scratch(meta, &cols),
            VectorGadget::<F>::configure_from_scratch(meta, &cols),
        )
    }

    fn synthesize(&self, config: Self::Config, mut layouter: impl Layouter<F>) -> Result<(), Error> {
        let chip = VarLenSha256Gadget::<F>::new_from_scratch(&config.0);
        let ng = NG::new_from_scratch(&config.1);
        let vg = VectorGadget::new(&ng);

        let v: AssignedVector<F, AssignedByte<F>, M, 64> = vg.assign_with_filler(
            &mut layouter,
            Value::known(self.input.clone()),
            Some(self.filler),
        )?;
        let out: [AssignedByte<F>; 32] = chip.varhash(&mut layouter, &v)?;
        for (o, e) in out.iter().zip(self.expected.iter()) {
            ng.assert_equal_to_fixed(&mut layouter, o, *e)?;
        }
        chip.load_from_scratch(&mut layouter)?;
        ng.load_from_scratch(&mut layouter)
    }
}

fn msg(len: usize) -> Vec<u8> {
    (0..len).map(|i| (i as u8).wrapping_mul(37).wrapping_add(11)).collect()
}

/// Returns Ok(()) iff the circuit accepts the *standard* SHA-256 digest of `msg(len)`.
fn check<const M: usize>(len: usize, filler: u8, k: u32) -> Result<(), String> {
    let input = msg(len);
    let expected = <VarLenSha256Gadget<F> as HashCPU<u8, [u8; 32]>>::hash(&input);
    let circuit = VarShaCircuit::<M> { input, filler, expected, _m: PhantomData };
    let prover = MockProver::run(k, &circuit, vec![vec![], vec![]]).map_err(|e| format!("{e:?}"))?;
    prover.verify().map_err(|e| format!("{} constraint failures, first: {:?}", e.len(), e.first()))
}

#[test]
fn sanity_m128_adversarial_filler() {
    // MAX_LEN = 128 (multiple of 64): the gadget is correct for every boundary length, with a
    // non-zero filler.
    for len in [0usize, 1, 55, 56, 63, 64, 65, 119, 120, 127, 128] {
        check::<128>(len, 0xAB, 16).unwrap_or_else(|e| panic!("M=128 len={len}: {e}"));
    }
}

#[test]
fn defect_m100_not_multiple_of_64() {
    // MAX_LEN = 100 is accepted by the type system and by `varhash` (no panic, no error), but
    // the digest computed in-circuit is not SHA-256 of the supplied bytes.
    let mut failures = vec![];
    for len in [0usize, 1, 10, 36, 55, 56, 64] {
        if let Err(e) = check::<100>(len, 0x00, 16) {
            failures.push(format!("M=100 len={len}: {e}"));
        }
    }
    assert!(
        failures.is_empty(),
        "VarLenSha256Gadget with MAX_LEN=100 rejects the standard digest:\n{}",
        failures.join("\n")
    );
}

#[test]
fn defect_m100_digest_ignores_message() {
    // Stronger form: with MAX_LEN = 100 the circuit *accepts* SHA-256(filler^len) as the digest
    // of an arbitrary `len`-byte message, i.e. the digest does not depend on the message at all
    // (the message sits at buffer[36..46], the gadget hashes buffer[0..10]).
    let len = 10usize;
    let filler = 0x5Au8;
    let input = msg(len);
    let wrong = <VarLenSha256Gadget<F> as HashCPU<u8, [u8; 32]>>::hash(&vec![filler; len]);
    let right = <VarLenSha256Gadget<F> as HashCPU<u8, [u8; 32]>>::hash(&input);
    assert_ne!(wrong, right);
    let circuit = VarShaCircuit::<100> { input, filler, expected: wrong, _m: PhantomData };
    let prover = MockProver::run(16, &circuit, vec![vec![], vec![]]).unwrap();
    assert!(
        prover.verify().is_err(),
        "circuit accepted SHA-256 of the filler bytes as the digest of an unrelated message"
    );
}
