// Exploratory (passes). Copy to circuits/tests/hunt_c07_poseidon_constants.rs and run:
//   CARGO_TARGET_DIR=/tmp/hunt-C07/target cargo test --offline -j 4 -p midnight-circuits --features testing --test hunt_c07_poseidon_constants
// Regenerate Poseidon round constants / MDS with the Grain LFSR
// (generate_parameters_grain.sage 1 0 255 3 8 60 p) and compare with the constants in
// circuits/src/hash/poseidon/constants/blstrs.rs.
use ff::Field;
use midnight_circuits::hash::poseidon::constants::PoseidonField;
use midnight_curves::Fq;
use num_bigint::BigUint;
use num_traits::Num;

struct Grain { s: Vec<u8> }

impl Grain {
    fn new(field: u64, sbox: u64, n: u64, t: u64, rf: u64, rp: u64) -> Self {
        let mut s = vec![];
        let mut push = |v: u64, bits: usize| { for i in (0..bits).rev() { s.push(((v >> i) & 1) as u8); } };
        push(field, 2); push(sbox, 4); push(n, 12); push(t, 12); push(rf, 10); push(rp, 10);
        for _ in 0..30 { s.push(1); }
        assert_eq!(s.len(), 80);
        let mut g = Grain { s };
        for _ in 0..160 { g.update(); }
        g
    }
    fn update(&mut self) -> u8 {
        let s = &self.s;
        let nb = s[62] ^ s[51] ^ s[38] ^ s[23] ^ s[13] ^ s[0];
        self.s.remove(0);
        self.s.push(nb);
        nb
    }
    fn next_bit(&mut self) -> u8 {
        let mut nb = self.update();
        while nb == 0 {
            self.update();
            nb = self.update();
        }
        self.update()
    }
    fn random_bits(&mut self, n: usize) -> BigUint {
        let mut v = BigUint::from(0u8);
        for _ in 0..n { v = (v << 1) + BigUint::from(self.next_bit()); }
        v
    }
}

fn to_fq(v: &BigUint) -> Fq {
    let mut limbs = v.to_u64_digits();
    limbs.resize(4, 0);
    Fq::from_raw([limbs[0], limbs[1], limbs[2], limbs[3]])
}

#[test]
fn poseidon_constants_match_grain() {
    let p = BigUint::from_str_radix(
        "73eda753299d7d483339d80809a1d80553bda402fffe5bfeffffffff00000001", 16).unwrap();
    let (n, t, rf, rp) = (255usize, 3usize, 8usize, 60usize);
    let mut g = Grain::new(1, 0, n as u64, t as u64, rf as u64, rp as u64);

    let mut mismatches = vec![];
    for r in 0..(rf + rp) {
        for c in 0..t {
            let mut v = g.random_bits(n);
            while v >= p { v = g.random_bits(n); }
            if to_fq(&v) != <Fq as PoseidonField>::ROUND_CONSTANTS[r][c] { mismatches.push((r, c)); }
        }
    }
    assert!(mismatches.is_empty(), "round constant mismatches: {mismatches:?}");

    // MDS (Cauchy matrix from the next 2t grain samples), candidates in sequence.
    let mut found = None;
    for cand in 0..200 {
        let list: Vec<Fq> = (0..2 * t).map(|_| to_fq(&(g.random_bits(n) % &p))).collect();
        let mut distinct = true;
        for i in 0..list.len() { for j in 0..i { if list[i] == list[j] { distinct = false; } } }
        if !distinct { continue; }
        let (xs, ys) = list.split_at(t);
        let mut ok = true;
        for i in 0..t { for j in 0..t {
            let inv = (xs[i] + ys[j]).invert();
            if bool::from(inv.is_none()) || inv.unwrap() != <Fq as PoseidonField>::MDS[i][j] { ok = false; }
        } }
        if ok { found = Some(cand); break; }
    }
    println!("MDS matches grain candidate #{found:?}");
    assert!(found.is_some(), "MDS matrix is none of the first 200 Grain candidates");
}
