// C16 / defect 2: the `IntoBytes(n)` IR operation
// (zkir/src/instructions/operations/into_bytes.rs) panics on out-of-range `n`
// instead of returning the error type of the IR compiler / interpreter.
//
// (a) In-circuit (compilation of the program): for a `Native` input,
//     `into_bytes_incircuit` forwards `n` to `assigned_to_le_bytes(.., Some(n))`
//     without checking it; that function panics for n > 32 ("why do you need
//     the output to have more bytes than necessary?"). The documentation of
//     `Operation::IntoBytes` says "`Native` for any `n`", and the off-circuit
//     twin returns `Error::Other("cannot convert .. to Bytes(33)")`.
//
// (b) Off-circuit (`IrValue::into_bytes`, used by `ZkirRelation::public_inputs`):
//     the bound check is `n as u32 > 32`, i.e. it is applied to `n` truncated
//     to 32 bits. For n = 2^32 + 1 the check passes and `bytes[n..]` panics
//     with an out-of-range slice index (64-bit targets).
//
// Expected: both return an `Error` (`Unsupported`/`Other`), as they do for the
// other unsupported (type, n) combinations.
//
// Belongs to: zkir/tests/c16_d2_into_bytes.rs
// Run with:
//   cp _hunt/c16_d2_into_bytes.rs zkir/tests/
//   CARGO_TARGET_DIR=/tmp/hunt-C16/target cargo test --offline -j 4 \
//     -p midnight-zkir --test c16_d2_into_bytes

use std::panic::{catch_unwind, AssertUnwindSafe};

use midnight_proofs::{circuit::Value, dev::cost_model::dummy_synthesize_run};
use midnight_zk_stdlib::MidnightCircuit;
use midnight_zkir::{IrValue, ZkirRelation};

type F = midnight_curves::Fq;

/// Compiles (synthesizes without witnesses) the given JSON program, exactly as
/// the test-suite of the crate does in `test_without_witness`.
fn compile(json: &'static str) -> std::thread::Result<Result<(), String>> {
    catch_unwind(AssertUnwindSafe(|| {
        let relation = ZkirRelation::read(json).map_err(|e| format!("{e:?}"))?;
        let circuit = MidnightCircuit::new(&relation, Value::unknown(), Value::unknown(), Some(8));
        dummy_synthesize_run(&circuit).map_err(|e| e.to_string())
    }))
}

#[test]
fn sanity_into_bytes_32_compiles_and_bad_type_is_an_error() {
    let ok = r#"{ "instructions": [
        { "op": { "load": "Native" }, "outputs": ["x"] },
        { "op": { "into_bytes": 32 }, "inputs": ["x"], "outputs": ["b"] }
    ]}"#;
    assert!(matches!(compile(ok), Ok(Ok(()))));

    // An unsupported combination is reported through the error type.
    let unsupported = r#"{ "instructions": [
        { "op": { "load": "JubjubPoint" }, "outputs": ["p"] },
        { "op": { "into_bytes": 33 }, "inputs": ["p"], "outputs": ["b"] }
    ]}"#;
    assert!(matches!(compile(unsupported), Ok(Err(_))));
}

#[test]
fn native_into_bytes_33_is_an_error_not_a_panic_in_circuit() {
    let program = r#"{ "instructions": [
        { "op": { "load": "Native" }, "outputs": ["x"] },
        { "op": { "into_bytes": 33 }, "inputs": ["x"], "outputs": ["b"] }
    ]}"#;
    let res = compile(program);
    assert!(
        matches!(res, Ok(Err(_))),
        "compiling `into_bytes(33)` of a Native value {}",
        if res.is_err() { "panicked" } else { "succeeded" }
    );
}

#[cfg(target_pointer_width = "64")]
#[test]
fn native_into_bytes_truncated_bound_is_an_error_not_a_panic_off_circuit() {
    // The same call with n = 33 is an error.
    assert!(IrValue::Native(F::from(1)).into_bytes(33).is_err());

    let n = (1usize << 32) + 1;
    let res = catch_unwind(|| IrValue::Native(F::from(1)).into_bytes(n));
    assert!(
        matches!(res, Ok(Err(_))),
        "IrValue::Native(1).into_bytes(2^32 + 1) {}",
        if res.is_err() { "panicked" } else { "succeeded" }
    );
}
