// C16 / reported only (full prover parameter sets are local artefacts of the
// prover): `ParamsKZG::read_custom` (proofs/src/poly/kzg/params.rs) trusts the
// 4-byte header `k`:
//   * `let n = 1 << k;` overflows the shift for k >= 64 (panic in debug builds,
//     n = 1 << (k % 64) in release builds),
//   * in the `Processed` branch it allocates `vec![Repr::default(); n]`
//     (48 * 2^k bytes) and then `vec![None; n]` BEFORE reading a single point,
//     so a 4-byte file makes the process panic with "capacity overflow"
//     (k = 63) or request terabytes from the allocator and abort (k ~ 36..58).
//
// Expected: an `io::Error` (k bounded by `E::Fr::S`, and no allocation
// proportional to `2^k` before the bytes are there).
//
// Belongs to: proofs/tests/c16_reported_only_params_kzg.rs
// Run with:
//   cp _hunt/c16_reported_only_params_kzg.rs proofs/tests/
//   CARGO_TARGET_DIR=/tmp/hunt-C16/target cargo test --offline -j 4 \
//     -p midnight-proofs --test c16_reported_only_params_kzg

use std::panic::catch_unwind;

use midnight_curves::Bls12;
use midnight_proofs::{poly::kzg::params::ParamsKZG, utils::SerdeFormat};

fn read(k: u32, format: SerdeFormat) -> std::thread::Result<std::io::Result<()>> {
    let bytes = k.to_le_bytes();
    catch_unwind(move || ParamsKZG::<Bls12>::read_custom(&mut &bytes[..], format).map(|_| ()))
}

#[test]
fn sanity_small_k_with_missing_points_is_an_error() {
    assert!(matches!(read(3, SerdeFormat::Processed), Ok(Err(_))));
    assert!(matches!(read(3, SerdeFormat::RawBytes), Ok(Err(_))));
}

#[test]
fn k_63_processed_is_an_error_not_a_capacity_overflow() {
    let res = read(63, SerdeFormat::Processed);
    assert!(matches!(res, Ok(Err(_))), "read_custom panicked on k = 63");
}

#[test]
fn k_64_is_an_error_not_a_shift_overflow() {
    let res = read(64, SerdeFormat::RawBytes);
    assert!(matches!(res, Ok(Err(_))), "read_custom panicked on k = 64");
}
