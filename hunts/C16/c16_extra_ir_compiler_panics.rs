// C16 / further IR programs that make the IR compiler panic instead of
// returning its error type (demonstrated, listed in the report after the three
// main defects; every test has a distinct root cause).
//
//  (e1) `load BigUint(0)`: `BigUintGadget::assign_bounded`
//       (circuits/src/biguint/biguint_gadget.rs) computes
//       `(nb_bits - 1).rem(LOG2_BASE) + 1` -> "attempt to subtract with
//       overflow" for nb_bits = 0 (the limb count two lines above does use
//       `max(nb_bits, 1)`). `BigUint(0)` is the type `IrValue::get_type`
//       assigns to the integer zero, so it is a legitimate type.
//  (e2) `mod_exp` with the constant modulus `BigUint:0`: `mod_exp_incircuit`
//       (zkir/src/instructions/operations/mod_exp.rs) does not reject the zero
//       modulus that its off-circuit twin rejects; with a constant modulus the
//       division is evaluated at compile time -> "attempt to divide by zero".
//  (e3) `is_equal` / `assert_not_equal` on two values of type `Bytes(0)`:
//       `is_equal_incircuit` calls `std_lib.and(&[])`, and `NativeChip::and`
//       does `bits.first().unwrap()` -> unwrap on `None`. (`assert_equal` on
//       the same operands works, and `Load(Bytes(0))` is explicitly supported.)
//
// Expected in all cases: `Ok(())` or an `Err(..)` of the compiler's error
// type; never a panic.
//
// Belongs to: zkir/tests/c16_extra_ir_compiler_panics.rs
// Run with:
//   cp _hunt/c16_extra_ir_compiler_panics.rs zkir/tests/
//   CARGO_TARGET_DIR=/tmp/hunt-C16/target cargo test --offline -j 4 \
//     -p midnight-zkir --test c16_extra_ir_compiler_panics

use std::panic::{catch_unwind, AssertUnwindSafe};

use midnight_proofs::{circuit::Value, dev::cost_model::dummy_synthesize_run};
use midnight_zk_stdlib::MidnightCircuit;
use midnight_zkir::ZkirRelation;

fn compile(json: &'static str) -> std::thread::Result<Result<(), String>> {
    catch_unwind(AssertUnwindSafe(|| {
        let relation = ZkirRelation::read(json).map_err(|e| format!("{e:?}"))?;
        let circuit = MidnightCircuit::new(&relation, Value::unknown(), Value::unknown(), Some(8));
        dummy_synthesize_run(&circuit).map_err(|e| e.to_string())
    }))
}

fn assert_total(name: &str, json: &'static str) {
    let res = compile(json);
    assert!(res.is_ok(), "the IR compiler panicked on: {name}");
}

#[test]
fn sanity_neighbouring_programs_compile() {
    assert!(matches!(
        compile(
            r#"{ "instructions": [
            { "op": { "load": { "BigUint": 1 } }, "outputs": ["x"] },
            { "op": { "load": { "BigUint": 16 } }, "outputs": ["y"] },
            { "op": { "mod_exp": 0 }, "inputs": ["y", "BigUint:7"], "outputs": ["z"] },
            { "op": { "load": { "Bytes": 0 } }, "outputs": ["a", "b"] },
            { "op": "assert_equal", "inputs": ["a", "b"] },
            { "op": { "load": { "Bytes": 1 } }, "outputs": ["c", "d"] },
            { "op": "is_equal", "inputs": ["c", "d"], "outputs": ["e"] }
        ]}"#
        ),
        Ok(Ok(()))
    ));
}

#[test]
fn e1_load_biguint_of_zero_bits() {
    assert_total(
        "load BigUint(0)",
        r#"{ "instructions": [ { "op": { "load": { "BigUint": 0 } }, "outputs": ["x"] } ]}"#,
    );
}

#[test]
fn e2_mod_exp_by_the_constant_zero_modulus() {
    assert_total(
        "mod_exp(0) with modulus BigUint:0",
        r#"{ "instructions": [
            { "op": { "load": { "BigUint": 16 } }, "outputs": ["x"] },
            { "op": { "mod_exp": 0 }, "inputs": ["x", "BigUint:0"], "outputs": ["y"] }
        ]}"#,
    );
}

#[test]
fn e3_is_equal_on_empty_byte_strings() {
    assert_total(
        "is_equal on Bytes(0)",
        r#"{ "instructions": [
            { "op": { "load": { "Bytes": 0 } }, "outputs": ["a", "b"] },
            { "op": "is_equal", "inputs": ["a", "b"], "outputs": ["c"] }
        ]}"#,
    );
}

#[test]
fn e3_assert_not_equal_on_empty_byte_strings() {
    assert_total(
        "assert_not_equal on Bytes(0)",
        r#"{ "instructions": [
            { "op": { "load": { "Bytes": 0 } }, "outputs": ["a", "b"] },
            { "op": "assert_not_equal", "inputs": ["a", "b"] }
        ]}"#,
    );
}
