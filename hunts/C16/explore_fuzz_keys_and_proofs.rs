// Exploratory mutation harness for C16 (keys and proofs) - NOT a finding: it passes (0 panics)
// on the unchanged tree. Kept for the record; belongs to zk_stdlib/tests/ if one wants to re-run it.

use std::panic::{catch_unwind, AssertUnwindSafe};

use blake2b_simd::State as Blake2b;
use midnight_circuits::instructions::{
    ArithInstructions, AssertionInstructions, AssignmentInstructions, PublicInputInstructions,
};
use midnight_proofs::{
    circuit::{Layouter, Value},
    plonk::Error,
    poly::kzg::params::{ParamsKZG, ParamsVerifierKZG},
    utils::SerdeFormat,
};
use midnight_zk_stdlib::{MidnightCircuit, MidnightVK, Relation, ZkStdLib, ZkStdLibArch};
use rand::{rngs::StdRng, Rng, SeedableRng};

type F = midnight_curves::Fq;

#[derive(Clone)]
struct DummyCircuit {
    architecture: ZkStdLibArch,
}

impl Relation for DummyCircuit {
    type Instance = F;
    type Witness = F;

    fn format_instance(x: &Self::Instance) -> Result<Vec<F>, Error> {
        Ok(vec![*x])
    }

    fn circuit(
        &self,
        std_lib: &ZkStdLib,
        layouter: &mut impl Layouter<F>,
        instance: Value<Self::Instance>,
        witness: Value<Self::Witness>,
    ) -> Result<(), Error> {
        let instance = std_lib.assign_as_public_input(layouter, instance)?;
        let witness = std_lib.assign(layouter, witness)?;
        let x = std_lib.mul(layouter, &witness, &witness, None)?;
        std_lib.assert_equal(layouter, &instance, &x)
    }

    fn used_chips(&self) -> ZkStdLibArch {
        self.architecture
    }

    fn write_relation<W: std::io::Write>(&self, writer: &mut W) -> std::io::Result<()> {
        self.architecture.write(writer)
    }

    fn read_relation<R: std::io::Read>(reader: &mut R) -> std::io::Result<Self> {
        ZkStdLibArch::read(reader).map(|architecture| DummyCircuit { architecture })
    }
}

fn try_key(
    label: &str,
    bytes: &[u8],
    format: SerdeFormat,
    params: &ParamsVerifierKZG<midnight_curves::Bls12>,
    proof: &[u8],
    instance: &F,
    panics: &mut Vec<String>,
    accepted: &mut usize,
) {
    let res = catch_unwind(AssertUnwindSafe(|| {
        let vk = match MidnightVK::read(&mut &bytes[..], format) {
            Ok(vk) => vk,
            Err(_) => return 0,
        };
        match midnight_zk_stdlib::verify::<DummyCircuit, Blake2b>(params, &vk, instance, None, proof)
        {
            Ok(()) => 2,
            Err(_) => 1,
        }
    }));
    match res {
        Ok(0) => {}
        Ok(1) => *accepted += 1,
        Ok(_) => {
            *accepted += 1;
            println!("[verified] {label}")
        }
        Err(p) => {
            let msg = p
                .downcast_ref::<String>()
                .cloned()
                .or_else(|| p.downcast_ref::<&str>().map(|s| s.to_string()))
                .unwrap_or_default();
            panics.push(format!("{label}: {msg}"))
        }
    }
}

#[test]
fn fuzz_keys_and_proofs() {
    let architecture = ZkStdLibArch::default();
    let relation = DummyCircuit { architecture };
    let k = MidnightCircuit::from_relation(&relation).min_k();
    println!("k = {k}");
    let srs = ParamsKZG::unsafe_setup(k, StdRng::seed_from_u64(1));
    let vk = midnight_zk_stdlib::setup_vk(&srs, &relation);
    let pk = midnight_zk_stdlib::setup_pk(&relation, &vk);
    let params = srs.verifier_params();

    let witness = F::from(3);
    let instance = F::from(9);
    let proof = midnight_zk_stdlib::prove::<DummyCircuit, Blake2b>(
        &srs,
        &pk,
        &relation,
        &instance,
        witness,
        StdRng::seed_from_u64(2),
    )
    .unwrap();
    midnight_zk_stdlib::verify::<DummyCircuit, Blake2b>(&params, &vk, &instance, None, &proof)
        .unwrap();
    println!("proof len {}", proof.len());

    let mut panics = vec![];
    let mut rng = StdRng::seed_from_u64(3);

    for format in [SerdeFormat::Processed, SerdeFormat::RawBytes] {
        let mut bytes = vec![];
        vk.write(&mut bytes, format).unwrap();
        println!("{format:?}: vk len {}", bytes.len());
        let mut accepted = 0;

        // Truncations.
        for len in 0..bytes.len() {
            try_key(
                &format!("{format:?} trunc {len}"),
                &bytes[..len],
                format,
                &params,
                &proof,
                &instance,
                &mut panics,
                &mut accepted,
            );
        }
        println!("after truncations: accepted {accepted}");

        // Header substitutions.
        for pos in 0..27 {
            for val in 0..=255u8 {
                let mut m = bytes.clone();
                if m[pos] == val {
                    continue;
                }
                m[pos] = val;
                try_key(
                    &format!("{format:?} header[{pos}]={val}"),
                    &m,
                    format,
                    &params,
                    &proof,
                    &instance,
                    &mut panics,
                    &mut accepted,
                );
            }
        }
        println!("after headers: accepted {accepted}");

        // Body bit flips and byte substitutions.
        for _ in 0..3000 {
            let mut m = bytes.clone();
            let pos = rng.gen_range(27..m.len());
            if rng.gen_bool(0.5) {
                m[pos] ^= 1 << rng.gen_range(0..8);
            } else {
                m[pos] = rng.gen();
            }
            try_key(
                &format!("{format:?} body[{pos}]"),
                &m,
                format,
                &params,
                &proof,
                &instance,
                &mut panics,
                &mut accepted,
            );
        }
        // Splices.
        for _ in 0..300 {
            let mut m = bytes.clone();
            let a = rng.gen_range(27..m.len());
            let b = rng.gen_range(27..m.len());
            let len = rng.gen_range(1..100).min(m.len() - a).min(m.len() - b);
            let chunk = m[a..a + len].to_vec();
            m[b..b + len].copy_from_slice(&chunk);
            try_key(
                &format!("{format:?} splice {a}->{b} len {len}"),
                &m,
                format,
                &params,
                &proof,
                &instance,
                &mut panics,
                &mut accepted,
            );
        }
        // Appended bytes.
        let mut m = bytes.clone();
        m.extend_from_slice(&[0xAA; 17]);
        try_key(
            &format!("{format:?} appended"),
            &m,
            format,
            &params,
            &proof,
            &instance,
            &mut panics,
            &mut accepted,
        );
        println!("after body: accepted {accepted}");
    }

    // Proof mutations against the honest key.
    let mut check_proof = |label: String, p: &[u8], panics: &mut Vec<String>| {
        let res = catch_unwind(AssertUnwindSafe(|| {
            midnight_zk_stdlib::verify::<DummyCircuit, Blake2b>(&params, &vk, &instance, None, p)
                .is_ok()
        }));
        match res {
            Ok(true) => println!("[verified] {label}"),
            Ok(false) => {}
            Err(p) => {
                let msg = p
                    .downcast_ref::<String>()
                    .cloned()
                    .or_else(|| p.downcast_ref::<&str>().map(|s| s.to_string()))
                    .unwrap_or_default();
                panics.push(format!("{label}: {msg}"))
            }
        }
    };
    for len in 0..proof.len() {
        check_proof(format!("proof trunc {len}"), &proof[..len], &mut panics);
    }
    for _ in 0..3000 {
        let mut m = proof.clone();
        let pos = rng.gen_range(0..m.len());
        if rng.gen_bool(0.5) {
            m[pos] ^= 1 << rng.gen_range(0..8);
        } else {
            m[pos] = rng.gen();
        }
        check_proof(format!("proof body[{pos}]"), &m, &mut panics);
    }
    // All-zero, all-0xff, identity-point proofs.
    check_proof("proof zeros".into(), &vec![0u8; proof.len()], &mut panics);
    check_proof("proof ff".into(), &vec![0xffu8; proof.len()], &mut panics);
    {
        // every 48-byte chunk = compressed identity (0xc0 00..), scalars = 0
        let mut m = vec![0u8; proof.len()];
        for i in (0..m.len()).step_by(16) {
            m[i] = 0xc0;
        }
        check_proof("proof c0 pattern".into(), &m, &mut panics);
    }
    let mut m = proof.clone();
    m.extend_from_slice(&[0u8; 5]);
    check_proof("proof appended".into(), &m, &mut panics);

    println!("{} panics", panics.len());
    for p in panics.iter().take(40) {
        println!("PANIC {p}");
    }
    assert!(panics.is_empty());
}
